#!/bin/bash
# Run once after a fresh restore (offline): regenerate facts from /repo, build every Coq file.
set -e
cd "$(dirname "$0")"
mkdir -p coq/Gen coq/CorrRun evidence replays .work
/venv/bin/python - <<'PY'
import sys
sys.path.insert(0, "harness")
import check
with check.Lock(True):
    fails = check.translate(check.all_fact_modules())
    check.mkproject()
print("translator failures:", fails)
PY
cd coq
# -k: a file that does not build (e.g. because /repo changed under a regenerated fact) must not keep the others from building;
# every check rebuilds and reports what it needs.
timeout 3000 make -k -j16 --no-print-directory 2>&1 | tail -5 || true
