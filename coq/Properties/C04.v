(* Properties/C04.v — invalid command lines are rejected with exit status 2; accepted results are well typed. *)
From SPV Require Import Base.Str Model.BoolFlag Model.Leaf Model.LeafSpec Gen.FactsBool Gen.FactsLeaf Proofs.LeafProofs.
From SPV Require Import Model.Namespace Model.ArgparseM Model.ArgparseMSpec Proofs.ArgparseMProofs Proofs.ArgparsePipeline Proofs.LeafReject.

(* whatever token list follows the option: if the field's parse is accepted, the value conforms to the annotation *)
Theorem C04_accepted_is_well_typed : forall t toks v,
  cli_type t = true -> leaf_parse_gen t toks = Ok v -> has_type v t = true.
Proof. exact leaf_sound. Qed.
Print Assumptions C04_accepted_is_well_typed.

(* ... and if it is refused, it is refused through argparse's error path: status 2, never 0, never an escaping exception
   (holds since the two `fix:` commits: enum_miss_cls_gen is an exception class argparse catches) *)
Theorem C04_refused_means_exit_2 : forall t toks e,
  cli_type t = true -> leaf_parse_gen t toks = Err e -> e = Exit 2.
Proof. exact leaf_errors_exit2. Qed.
Print Assumptions C04_refused_means_exit_2.

(* the mutation classes of the property *)
Theorem C04_reject_wrong_arity_fixed_tuple : forall ts toks,
  is_container (TTupFix ts) = true -> List.length toks <> List.length ts -> leaf_parse_gen (TTupFix ts) toks = Err (Exit 2).
Proof. exact reject_wrong_arity_fixed. Qed.
Print Assumptions C04_reject_wrong_arity_fixed_tuple.

Theorem C04_reject_surplus_token_scalar : forall t toks,
  is_item t = true -> t <> TBool -> 1 < List.length toks -> leaf_parse_gen t toks = Err (Exit 2).
Proof. exact reject_surplus_scalar. Qed.
Print Assumptions C04_reject_surplus_token_scalar.

Theorem C04_reject_unknown_enum_member : forall ms s, str_in s ms = false -> leaf_parse_gen (TEnum ms) [s] = Err (Exit 2).
Proof. exact reject_unknown_enum_member. Qed.
Print Assumptions C04_reject_unknown_enum_member.

Theorem C04_reject_unknown_literal : forall cs s, str_in s (map lit_name cs) = false -> leaf_parse_gen (TLit cs) [s] = Err (Exit 2).
Proof. exact reject_unknown_literal. Qed.
Print Assumptions C04_reject_unknown_literal.

(* an ill-typed token anywhere in a list is refused (or an earlier token already was) *)
Theorem C04_reject_ill_typed_item : forall u s pre post,
  is_item u = true ->
  convert_gen (parsing_fn u) 0 s <> Ok (match convert_gen (parsing_fn u) 0 s with Ok v => v | Err _ => VNone end) ->
  leaf_parse_gen (TList u) (pre ++ s :: post) = Err (Exit 2) \/ exists e, convert_all_gen (container_conv u) 0 pre = Err e.
Proof. exact reject_ill_typed_item. Qed.
Print Assumptions C04_reject_ill_typed_item.

(* a value on a negative boolean flag: status 2 whatever the value (holds since the `fix:` commit: the regenerated
   __call__ table rejects through parser.error) *)
Theorem C04_reject_value_on_negative_flag : forall negs o v,
  str_in o negs = true -> eval_occ_gen negs (Valued o v) = Err (Exit 2).
Proof. exact reject_value_on_negative_flag. Qed.
Print Assumptions C04_reject_value_on_negative_flag.

(* ---- the two mutation classes that are argparse's own, as theorems about the composition of the leaf model with the
   token-level argparse model (Proofs/LeafReject.v).  fs: ANY list of fields (dest, annotation, optional default) whose
   argparse action is a store action with a position-free converter (rfield_ok, as in ARGP_leaf_pipeline); the action
   list is acts_of_rfields fs (option `--dest`, nargs/converter/choices from Leaf.arg_options, required iff no default);
   argv is made of well-formed groups (group_ok: exact option, admissible token count, argument-class tokens);
   leaf_parse_args = the argparse model's parse_args with the regenerated converters. ---- *)

(* a required field that is not written: status 2, whatever else is written *)
Theorem C04_missing_required_rejected : forall ab fs gs j f,
  NoDup (map rf_dest fs) -> forallb rfield_ok fs = true ->
  forallb (group_ok ab (acts_of_rfields fs)) gs = true ->
  nth_error fs j = Some f -> rf_dflt f = None -> ~ In j (map g_idx gs) ->
  leaf_parse_args ab fs (flatten gs) = Err (Exit 2).
Proof. exact missing_required_rejected_gen. Qed.
Print Assumptions C04_missing_required_rejected.

(* an option the parser does not know (tok_unknown: the model's own lexer answers CUnknown: not an option string, not
   `opt=v`, not an abbreviation / single-dash prefix of one, not negative-number-like, no blank), written at any group
   boundary: status 2, never skipped *)
Theorem C04_unknown_option_rejected : forall ab fs gs1 u gs2,
  forallb rfield_ok fs = true ->
  forallb (group_ok ab (acts_of_rfields fs)) gs1 = true -> forallb (group_ok ab (acts_of_rfields fs)) gs2 = true ->
  tok_unknown ab (acts_of_rfields fs) u = true ->
  leaf_parse_args ab fs (flatten gs1 ++ u :: flatten gs2) = Err (Exit 2).
Proof. exact unknown_option_rejected_gen. Qed.
Print Assumptions C04_unknown_option_rejected.

(* one value token too many after a complete group of a fixed-arity field (nargs None or N): status 2 *)
Theorem C04_surplus_token_rejected : forall ab fs gs1 g v gs2 f,
  forallb rfield_ok fs = true ->
  forallb (group_ok ab (acts_of_rfields fs)) gs1 = true -> group_ok ab (acts_of_rfields fs) g = true ->
  forallb (group_ok ab (acts_of_rfields fs)) gs2 = true ->
  nth_error fs (g_idx g) = Some f ->
  fixed_arity (a_na (act_of_rfield f)) (List.length (g_toks g)) = true ->
  tok_plain ab (acts_of_rfields fs) v = true ->
  leaf_parse_args ab fs (flatten gs1 ++ group_tokens g ++ v :: flatten gs2) = Err (Exit 2).
Proof. exact surplus_token_rejected_gen. Qed.
Print Assumptions C04_surplus_token_rejected.

(* non-vacuity: concrete fields (one required) and command lines satisfying every hypothesis of the three theorems;
   the same parser accepts the unmutated command line *)
Definition c04_fields : list rfield :=
  [ mkrfield "lr" TInt None; mkrfield "names" (TList TStr) (Some (RMany []));
    mkrfield "shape" (TTupFix [TInt; TInt]) (Some RNone); mkrfield "temp" (TOpt TFloat) (Some RNone) ].
Example C04_reject_nonvacuous :
  NoDup (map rf_dest c04_fields) /\ forallb rfield_ok c04_fields = true
  /\ forallb (fun f => cli_type (rf_ty f)) c04_fields = true
  (* accepted *)
  /\ leaf_parse_args true c04_fields ["--lr"; "5"; "--names"; "a"; "b"; "--shape"; "1"; "2"] =
       Ok [("lr", SOne (VInt 5)); ("names", SMany [VStr "a"; VStr "b"]); ("shape", SMany [VInt 1; VInt 2]); ("temp", SNone)]
  (* missing required *)
  /\ forallb (group_ok true (acts_of_rfields c04_fields)) [mkgroup 1 "--names" ["a"; "b"]; mkgroup 3 "--temp" ["-2.5"]] = true
  /\ nth_error c04_fields 0 = Some (mkrfield "lr" TInt None)
  /\ ~ In 0 (map g_idx [mkgroup 1 "--names" ["a"; "b"]; mkgroup 3 "--temp" ["-2.5"]])
  /\ leaf_parse_args true c04_fields ["--names"; "a"; "b"; "--temp"; "-2.5"] = Err (Exit 2)
  (* unknown option *)
  /\ forallb (group_ok true (acts_of_rfields c04_fields)) [mkgroup 0 "--lr" ["5"]] = true
  /\ forallb (group_ok true (acts_of_rfields c04_fields)) [mkgroup 1 "--names" ["a"]] = true
  /\ tok_unknown true (acts_of_rfields c04_fields) "--zzz" = true
  /\ tok_unknown true (acts_of_rfields c04_fields) "-q" = true
  /\ tok_unknown true (acts_of_rfields c04_fields) "--na" = false
  /\ leaf_parse_args true c04_fields ["--lr"; "5"; "--zzz"; "--names"; "a"] = Err (Exit 2)
  (* surplus token *)
  /\ group_ok true (acts_of_rfields c04_fields) (mkgroup 2 "--shape" ["1"; "2"]) = true
  /\ fixed_arity (a_na (act_of_rfield (mkrfield "shape" (TTupFix [TInt; TInt]) (Some RNone)))) 2 = true
  /\ tok_plain true (acts_of_rfields c04_fields) "3" = true
  /\ leaf_parse_args true c04_fields ["--lr"; "5"; "--shape"; "1"; "2"; "3"; "--names"; "a"] = Err (Exit 2).
Proof.
  repeat split; try (vm_compute; reflexivity).
  - apply str_nodupb_NoDup. vm_compute. reflexivity.
  - vm_compute. intros [H|[H|[]]]; discriminate.
Qed.

Example C04_nonvacuous :
  leaf_parse_gen (TTupFix [TInt; TStr]) ["1"; "a"] = Ok (VTup [VInt 1; VStr "a"])
  /\ leaf_parse_gen (TTupFix [TInt; TStr]) ["1"] = Err (Exit 2)
  /\ leaf_parse_gen (TList (TEnum ["RED"])) ["RED"; "PURPLE"] = Err (Exit 2)
  /\ leaf_parse_gen TInt ["1.5"] = Err (Exit 2).
Proof. vm_compute. repeat split; reflexivity. Qed.
Print Assumptions C04_nonvacuous.
