(* Properties/C04.v — invalid command lines are rejected with exit status 2; accepted results are well typed. *)
From SPV Require Import Base.Str Model.BoolFlag Model.Leaf Model.LeafSpec Gen.FactsBool Gen.FactsLeaf Proofs.LeafProofs.

(* whatever token list follows the option: if the field's parse is accepted, the value conforms to the annotation *)
Theorem C04_accepted_is_well_typed : forall t toks v,
  cli_type t = true -> leaf_parse_gen t toks = Ok v -> has_type v t = true.
Proof. exact leaf_sound. Qed.
Print Assumptions C04_accepted_is_well_typed.

(* ... and if it is refused, it is refused through argparse's error path: status 2, never 0, never an escaping exception
   (holds since the two `fix:` commits: enum_miss_cls_gen is an exception class argparse catches) *)
Theorem C04_refused_means_exit_2 : forall t toks e,
  cli_type t = true -> leaf_parse_gen t toks = Err e -> e = Exit 2.
Proof. exact leaf_errors_exit2. Qed.
Print Assumptions C04_refused_means_exit_2.

(* the mutation classes of the property *)
Theorem C04_reject_wrong_arity_fixed_tuple : forall ts toks,
  is_container (TTupFix ts) = true -> List.length toks <> List.length ts -> leaf_parse_gen (TTupFix ts) toks = Err (Exit 2).
Proof. exact reject_wrong_arity_fixed. Qed.
Print Assumptions C04_reject_wrong_arity_fixed_tuple.

Theorem C04_reject_surplus_token_scalar : forall t toks,
  is_item t = true -> t <> TBool -> 1 < List.length toks -> leaf_parse_gen t toks = Err (Exit 2).
Proof. exact reject_surplus_scalar. Qed.
Print Assumptions C04_reject_surplus_token_scalar.

Theorem C04_reject_unknown_enum_member : forall ms s, str_in s ms = false -> leaf_parse_gen (TEnum ms) [s] = Err (Exit 2).
Proof. exact reject_unknown_enum_member. Qed.
Print Assumptions C04_reject_unknown_enum_member.

Theorem C04_reject_unknown_literal : forall cs s, str_in s (map lit_name cs) = false -> leaf_parse_gen (TLit cs) [s] = Err (Exit 2).
Proof. exact reject_unknown_literal. Qed.
Print Assumptions C04_reject_unknown_literal.

(* an ill-typed token anywhere in a list is refused (or an earlier token already was) *)
Theorem C04_reject_ill_typed_item : forall u s pre post,
  is_item u = true ->
  convert_gen (parsing_fn u) 0 s <> Ok (match convert_gen (parsing_fn u) 0 s with Ok v => v | Err _ => VNone end) ->
  leaf_parse_gen (TList u) (pre ++ s :: post) = Err (Exit 2) \/ exists e, convert_all_gen (container_conv u) 0 pre = Err e.
Proof. exact reject_ill_typed_item. Qed.
Print Assumptions C04_reject_ill_typed_item.

(* a value on a negative boolean flag: status 2 whatever the value (holds since the `fix:` commit: the regenerated
   __call__ table rejects through parser.error) *)
Theorem C04_reject_value_on_negative_flag : forall negs o v,
  str_in o negs = true -> eval_occ_gen negs (Valued o v) = Err (Exit 2).
Proof. exact reject_value_on_negative_flag. Qed.
Print Assumptions C04_reject_value_on_negative_flag.

Example C04_nonvacuous :
  leaf_parse_gen (TTupFix [TInt; TStr]) ["1"; "a"] = Ok (VTup [VInt 1; VStr "a"])
  /\ leaf_parse_gen (TTupFix [TInt; TStr]) ["1"] = Err (Exit 2)
  /\ leaf_parse_gen (TList (TEnum ["RED"])) ["RED"; "PURPLE"] = Err (Exit 2)
  /\ leaf_parse_gen TInt ["1.5"] = Err (Exit 2).
Proof. vm_compute. repeat split; reflexivity. Qed.
Print Assumptions C04_nonvacuous.
