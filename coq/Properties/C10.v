(* Properties/C10.v — option spelling. *)
From SPV Require Import Base.Str Model.MiniPy Model.OptStr Model.SpellSpec Gen.FactsOptStrSrc Proofs.OptStrProofs Proofs.MiniPyOptStr.

(* For a field whose name clashes with nothing (empty prefix), under every one of the 3 x 3 x 2 configurations,
   for all names, destination paths and alias lists: the accepted spellings are exactly the documented ones. *)
Theorem C10_options_are_documented : forall c f s,
  wf_names f -> pfx f = "" -> positional f = false ->
  (In s (option_strings c f) <-> In s (doc_options c (path f ++ [name f]) (name f) (aliases f))).
Proof. exact options_are_documented. Qed.
Print Assumptions C10_options_are_documented.

(* no spelling is registered twice for a field (argparse would refuse it) *)
Theorem C10_no_duplicate_spelling : forall c f, NoDup (option_strings c f).
Proof. exact option_strings_NoDup. Qed.
Print Assumptions C10_no_duplicate_spelling.

Theorem C10_positional : forall c f, positional f = true -> option_strings c f = [dest f].
Proof. exact positional_options. Qed.
Print Assumptions C10_positional.

(* The tie to the code for this method is a THEOREM, not a sample: `option_strings_src` is the ast of
   FieldWrapper.option_strings dumped by harness/translate/OptStrSrc.py on every run (a syntax-to-syntax translation into the
   MiniPy fragment of Model/MiniPy.v); run by the MiniPy interpreter on any configuration and any field wrapper (any name,
   prefix, destination, alias list) it returns exactly the functional model the theorems above are about. *)
Theorem C10_source_is_model : forall c f,
  positional f = false -> run_src c f = Ok (VL (map VS (option_strings c f))).
Proof. exact src_is_model. Qed.
Print Assumptions C10_source_is_model.

Theorem C10_source_is_model_positional : forall c f,
  positional f = true -> run_src c f = Ok (VL (map VS (option_strings c f))).
Proof. exact src_is_model_positional. Qed.
Print Assumptions C10_source_is_model_positional.

(* hence: what the regenerated source returns for an unclashed field is exactly the documented set of spellings *)
Theorem C10_source_options_are_documented : forall c f s,
  wf_names f -> pfx f = "" -> positional f = false ->
  exists l, run_src c f = Ok (VL (map VS l)) /\ (In s l <-> In s (doc_options c (path f ++ [name f]) (name f) (aliases f))).
Proof. exact src_options_documented. Qed.
Print Assumptions C10_source_options_are_documented.

Example C10_nonvacuous :
  let f := mkfw ["cfg"; "s_b"] "a_b" "" ["-q"; "al_1"] false in
  (forallb nodot (path f ++ [name f]) = true /\ path f <> [])
  /\ option_strings (mkcfg DBoth GBoth NWithoutRoot) f
     = ["-q"; "--a_b"; "--a-b"; "--al_1"; "--al-1"; "--s_b.a_b"; "--s-b.a-b"].
Proof. split; [split; [reflexivity | discriminate] | vm_compute; reflexivity]. Qed.
Print Assumptions C10_nonvacuous.
