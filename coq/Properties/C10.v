(* Properties/C10.v — option spelling. *)
From SPV Require Import Base.Str Model.OptStr Model.SpellSpec Proofs.OptStrProofs.

(* For a field whose name clashes with nothing (empty prefix), under every one of the 3 x 3 x 2 configurations,
   for all names, destination paths and alias lists: the accepted spellings are exactly the documented ones. *)
Theorem C10_options_are_documented : forall c f s,
  wf_names f -> pfx f = "" -> positional f = false ->
  (In s (option_strings c f) <-> In s (doc_options c (path f ++ [name f]) (name f) (aliases f))).
Proof. exact options_are_documented. Qed.
Print Assumptions C10_options_are_documented.

(* no spelling is registered twice for a field (argparse would refuse it) *)
Theorem C10_no_duplicate_spelling : forall c f, NoDup (option_strings c f).
Proof. exact option_strings_NoDup. Qed.
Print Assumptions C10_no_duplicate_spelling.

Theorem C10_positional : forall c f, positional f = true -> option_strings c f = [dest f].
Proof. exact positional_options. Qed.
Print Assumptions C10_positional.

Example C10_nonvacuous :
  let f := mkfw ["cfg"; "s_b"] "a_b" "" ["-q"; "al_1"] false in
  (forallb nodot (path f ++ [name f]) = true /\ path f <> [])
  /\ option_strings (mkcfg DBoth GBoth NWithoutRoot) f
     = ["-q"; "--a_b"; "--a-b"; "--al_1"; "--al-1"; "--s_b.a_b"; "--s-b.a-b"].
Proof. split; [split; [reflexivity | discriminate] | vm_compute; reflexivity]. Qed.
