(* Properties/C14.v — loading through a base class.  Only statements closed by `exact`, each followed by Print Assumptions.
   Every theorem holds for ALL class tables (any depth, any branching, any field sets, init and init=False fields) and for EVERY enumeration order of
   all_subclasses (enum_ok only says that the enumeration lists exactly the classes below). *)
From Coq Require Import Permutation.
From SPV Require Import Base.Str Model.Subclass Model.SubclassSpec Gen.FactsSubclass Proofs.SubclassProofs.

(* any permutation of the set of classes below is an admissible enumeration order *)
Theorem C14_any_permutation : forall h enum,
  (forall b, Permutation (enum b) (map c_name (descendants h b))) -> enum_ok h enum.
Proof. exact perm_enum_ok. Qed.
Print Assumptions C14_any_permutation.

(* drop_extra_fields: an explicit value is used as given; the default is "not decode_into_subclasses" *)
Theorem C14_default_drop_rule : forall h base,
  eff_drop_gen h base None = negb (dis_of_gen h base) /\ forall b, eff_drop_gen h base (Some b) = b.
Proof. exact bridge_drop_rule. Qed.
Print Assumptions C14_default_drop_rule.

(* a dict with keys the base does not know, loaded without dropping: the result class is strictly below the base, has
   EVERY serialized key, and no class below the base that has them all has fewer fields *)
Theorem C14_superset : forall h modname enum base dropo kvs R fs B,
  wf_hier_gen h = true -> enum_ok h enum -> sf_get DC_TYPE_KEY kvs = None ->
  find_class h base = Some B -> has_all B (sf_keys kvs) = false -> eff_drop_gen h base dropo = false ->
  from_ser_gen h modname enum base dropo (SMap kvs) = Ok (VObj R fs) ->
  min_superset h base (sf_keys kvs) R = true.
Proof. exact superset_gen. Qed.
Print Assumptions C14_superset.

(* ... and when the base knows every key, the result is the base itself *)
Theorem C14_no_extra_keys_is_base : forall h modname enum base dropo kvs R fs B,
  wf_hier_gen h = true -> enum_ok h enum -> sf_get DC_TYPE_KEY kvs = None ->
  find_class h base = Some B -> has_all B (sf_keys kvs) = true ->
  from_ser_gen h modname enum base dropo (SMap kvs) = Ok (VObj R fs) ->
  R = base.
Proof. exact no_extras_gen. Qed.
Print Assumptions C14_no_extra_keys_is_base.

(* if no other class at or below the base has d's field set, the serialized form of ANY instance of d loads, through the
   base, as an instance of d equal to the original (whatever the enumeration order, wherever d sits below the base) *)
Theorem C14_identified : forall h modname enum base dropo d fs,
  wf_hier_gen h = true -> enum_ok h enum ->
  In d h -> identified h base d = true -> flat_class d = true -> flat_fields fs = true ->
  vf_keys fs = field_names d -> eff_drop_gen h base dropo = false ->
  from_ser_gen h modname enum base dropo (to_ser_gen modname false (VObj (c_name d) fs)) = Ok (VObj (c_name d) fs).
Proof. exact identified_gen. Qed.
Print Assumptions C14_identified.

(* ... and so does a NESTED instance: when every object reached through dataclass-typed fields is identified below the
   declared type of its field (hid), the whole tree comes back equal - drop_extra_fields=False travels down the recursion,
   also into the subclass the search selected, whether or not any class sets decode_into_subclasses *)
Theorem C14_identified_nested : forall h modname enum base dropo v,
  wf_hier_gen h = true -> enum_ok h enum ->
  hid h base v = true -> eff_drop_gen h base dropo = false ->
  from_ser_gen h modname enum base dropo (to_ser_gen modname false v) = Ok v.
Proof. exact identified_nested_gen. Qed.
Print Assumptions C14_identified_nested.

(* drop_extra_fields=True (or the default with decode_into_subclasses off): exactly the base class, with exactly its fields *)
Theorem C14_drop : forall h modname enum base dropo kvs v,
  sf_get DC_TYPE_KEY kvs = None -> eff_drop_gen h base dropo = true ->
  from_ser_gen h modname enum base dropo (SMap kvs) = Ok v ->
  exists B fs, find_class h base = Some B /\ v = VObj base fs /\ vf_keys fs = field_names B.
Proof. exact drop_exact_base_gen. Qed.
Print Assumptions C14_drop.

(* ... and on integer payloads the whole outcome is the spec's: known keys kept, unknown keys dropped, absent ones defaulted
   (a missing required field is the constructor's error) *)
Theorem C14_drop_values : forall h modname enum base dropo kvs B,
  wf_hier_gen h = true ->
  find_class h base = Some B -> flat_class B = true -> int_kvs kvs = true ->
  sf_get DC_TYPE_KEY kvs = None -> eff_drop_gen h base dropo = true ->
  from_ser_gen h modname enum base dropo (SMap kvs) = spec_drop B kvs.
Proof. exact drop_flat_gen. Qed.
Print Assumptions C14_drop_values.

(* save_dc_types=True, "at every nesting level": FALSE of the faithful model (DESIGN 5 #16) ... *)
Theorem C14_dc_types_refuted :
  exists h modname enum base dropo v,
    wf_hier_gen h = true /\ enum_ok h enum /\ wt h v = true
    /\ from_ser_gen h modname enum base dropo (to_ser_gen modname true v) <> Ok v.
Proof. exact dc_types_refuted. Qed.
Print Assumptions C14_dc_types_refuted.

(* ... and true at every level reached through dataclass-typed fields only (dc_only: no dataclass inside a List/Dict value):
   the exact original, through ANY class, for ANY drop_extra_fields, regardless of the field sets *)
Theorem C14_dc_types_partial : forall h modname enum base dropo v,
  wf_hier_gen h = true -> wt h v = true -> dc_only v = true ->
  from_ser_gen h modname enum base dropo (to_ser_gen modname true v) = Ok v.
Proof. exact dc_types_partial_gen. Qed.
Print Assumptions C14_dc_types_partial.

(* non-vacuity: a concrete hierarchy inside the theorems' domain (identical siblings D1/D3, an identified grandchild G,
   a holder two levels deep, a class with a field(init=False) next to a sibling with the same init fields), in the
   reversed enumeration order, and what the model answers on it *)
(* ex_h, ex_enum, ex_g, ex_d1, ex_o are defined at the end of Proofs/SubclassProofs.v *)
Example C14_nonvacuous :
  wf_hier_gen ex_h = true
  /\ map c_name (descendants ex_h "Base") = ["D1"; "D3"; "G"] /\ ex_enum "Base" = ["G"; "D3"; "D1"]
  /\ (exists g, find_class ex_h "G" = Some g /\ identified ex_h "Base" g = true /\ flat_class g = true)
  /\ (exists d, find_class ex_h "D1" = Some d /\ identified ex_h "Base" d = false)
  /\ eff_drop_gen ex_h "Base" None = false /\ eff_drop_gen ex_h "G" None = true
  /\ from_ser_gen ex_h "m" ex_enum "Base" None (to_ser_gen "m" false ex_g) = Ok ex_g
  /\ from_ser_gen ex_h "m" ex_enum "Base" None (to_ser_gen "m" false ex_d1)
     = Ok (VObj "D3" (VCons "a" (VInt 1) (VCons "b" (VInt 2) VNil)))
  /\ min_superset ex_h "Base" ["a"; "b"] "D3" = true
  /\ from_ser_gen ex_h "m" ex_enum "Base" (Some true) (to_ser_gen "m" false ex_g) = Ok (VObj "Base" (VCons "a" (VInt 1) VNil))
  /\ wt ex_h ex_o = true /\ dc_only ex_o = true
  /\ from_ser_gen ex_h "m" ex_enum "O" (Some true) (to_ser_gen "m" true ex_o) = Ok ex_o
  /\ wf_hier_gen noninit_h = true
  /\ from_ser_gen noninit_h "m" noninit_enum "Base" None (to_ser_gen "m" false noninit_v) = Ok noninit_v
  /\ from_ser_gen noninit_h "m" noninit_enum "Base" None (to_ser_gen "m" false noninit_v2) = Ok noninit_v2
  /\ wf_hier_gen nest_h = true /\ hid nest_h "Base" nest_v = true /\ eff_drop_gen nest_h "Base" None = true
  /\ from_ser_gen nest_h "m" nest_enum "Base" (Some false) (to_ser_gen "m" false nest_v) = Ok nest_v
  /\ from_ser_gen refute_h "m" refute_enum "H" None (to_ser_gen "m" true refute_v)
     = Ok (VObj "H" (VCons "xs" (VList (VCons "" (VObj "D3" (VCons "a" (VInt 1) (VCons "b" (VInt 2) VNil))) VNil)) VNil)).
Proof. vm_compute. repeat split; try reflexivity; eexists; repeat split; reflexivity. Qed.
Print Assumptions C14_nonvacuous.
