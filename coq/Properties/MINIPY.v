(* Properties/MINIPY.v — the MiniPy interpreter (Model/MiniPy.v), auxiliary engine.  The interpreter is a total Gallina
   function (structural recursion on the program; loops and comprehensions recurse on the evaluated list), hence
   deterministic and terminating by construction.  Stated here: the laws of sequencing, return, loops and environments that
   the bridge proofs (C10/C11/C12 *_source_is_model) rely on.  Its agreement with CPython is what `./check MINIPY` tests. *)
From SPV Require Import Base.Str Model.MiniPy Proofs.MiniPyLemmas.

(* environments: a read after a write *)
Theorem MINIPY_lookup_assign : forall x y v r,
  lookup x (assign y v r) = if String.eqb y x then Some v else lookup x r.
Proof. exact lookup_assign. Qed.
Print Assumptions MINIPY_lookup_assign.

(* sequencing: running a ++ b is running a, then - unless a returned or failed - b in the environment a left *)
Theorem MINIPY_sequencing : forall r a b,
  exec_block r (a ++ b) = match exec_block r a with
                          | Ok (r', None) => exec_block r' b
                          | Ok (r', Some v) => Ok (r', Some v)
                          | Err z => Err z end.
Proof. exact exec_block_app. Qed.
Print Assumptions MINIPY_sequencing.

(* a return ends the method: what follows it is never run *)
Theorem MINIPY_return_stops : forall r e rest, exec_block r (SReturn e :: rest) = exec_block r [SReturn e].
Proof. exact return_stops. Qed.
Print Assumptions MINIPY_return_stops.

(* a for loop over v :: l is its body on v (the loop variable stays bound afterwards), then the loop over l *)
Theorem MINIPY_for_unfold : forall r x it body v l,
  eval r it = Ok (VL (v :: l)) ->
  exec r (SFor x it body) =
  match exec_block (assign x v r) body with
  | Err z => Err z
  | Ok (r', Some w) => Ok (r', Some w)
  | Ok (r', None) => iter_list (fun v r => exec_block (assign x v r) body) l r'
  end.
Proof. exact for_unfold. Qed.
Print Assumptions MINIPY_for_unfold.

(* a comprehension does not change the environment: its variable is local (expressions have no effect on the environment
   at all: eval returns a value only) - the statement after it sees the outer binding *)
Theorem MINIPY_comprehension_is_local : forall r y body x it cond rest v,
  eval r (EComp body x it cond) = Ok v ->
  exec_block r (SAssign y (EComp body x it cond) :: rest) = exec_block (assign y v r) rest.
Proof. exact comprehension_local. Qed.
Print Assumptions MINIPY_comprehension_is_local.

Example MINIPY_nonvacuous :
  run [("xs", VL [VS "i"; VS "j"]); ("x", VS "outer")]
      [SAssign "ys" (EComp (EFmt [EVar "x"; EStr "!"]) "x" (EVar "xs") None);
       SFor "k" (EVar "ys") [SIf (EEq (EVar "k") (EStr "j!")) [SReturn (EList [EVar "x"; EVar "k"; EVar "ys"])] []]]
  = Ok (VL [VS "outer"; VS "j!"; VL [VS "i!"; VS "j!"]]).
Proof. vm_compute. reflexivity. Qed.
Print Assumptions MINIPY_nonvacuous.
