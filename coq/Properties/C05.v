(* Properties/C05.v — to_dict/from_dict, JSON, YAML and file round trips.  Only statements closed by `exact`. *)
From Coq Require Import Permutation.
From SPV Require Import Base.Str Model.Serial Model.SerialSpec Gen.FactsBool Gen.FactsSerial Proofs.SerialProofs.
Local Open Scope Z_scope.

(* For EVERY annotation t (no depth bound), every instance v of it, every transport (dict, json, yaml, pickle), every
   iteration order of sets: decoding the transported encoding gives back v itself — `= Ok v` together with
   `has_type v t` is "each field comes back with its declared type".  Side conditions (boolean, they name the excluded
   inputs): union_safe (no earlier Union member accepts the value's encoding),
   plain_value (no OrderedDict). *)
Theorem C05_roundtrip_partial : forall sigma encf decf, (forall l, Permutation (sigma l) l) ->
  forall t v tr,
  ser_type DC_TYPE_KEY t = true /\ has_type v t = true /\ plain_value v = true ->
  union_safe (decode_gen decf) (encode_gen sigma encf) t v = true ->
  bind (run_transport tr (to_dict_gen sigma encf v)) (decode_gen decf t) = Ok v.
Proof. exact roundtrip_all. Qed.
Print Assumptions C05_roundtrip_partial.

(* save(path) / load(path): the codec is looked up in the regenerated suffix table *)
Theorem C05_file : forall sigma encf decf, (forall l, Permutation (sigma l) l) ->
  forall t v sfx tr, transport_of_suffix sfx = Some tr ->
  ser_type DC_TYPE_KEY t = true /\ has_type v t = true /\ plain_value v = true ->
  union_safe (decode_gen decf) (encode_gen sigma encf) t v = true ->
  bind (run_transport tr (to_dict_gen sigma encf v)) (decode_gen decf t) = Ok v.
Proof. exact roundtrip_file. Qed.
Print Assumptions C05_file.
Theorem C05_suffix_table :
  transport_of_suffix ".json" = Some TrJson /\ transport_of_suffix ".yaml" = Some TrYaml /\
  transport_of_suffix ".yml" = Some TrYaml /\ transport_of_suffix ".pkl" = Some TrPickle.
Proof. exact suffix_table_ok. Qed.
Print Assumptions C05_suffix_table.

(* dumps_json/loads_json and dumps_yaml/loads_yaml use the codecs the theorem ranges over (regenerated API table) *)
Theorem C05_api_table :
  transport_of_api "dict" = Some TrDict /\ transport_of_api "json" = Some TrJson /\ transport_of_api "yaml" = Some TrYaml.
Proof. exact api_table_ok. Qed.
Print Assumptions C05_api_table.
(* Optional[dataclass] / nested dataclass given None *)
Theorem C05_from_dict_none : forall decf k c fs, decode_gen decf (TDc k c fs) PNone = Ok VNone.
Proof. exact from_dict_none. Qed.
Print Assumptions C05_from_dict_none.

(* the statement without union_safe is false of the faithful model: first-success order is lossy *)
Theorem C05_roundtrip_refuted :
  ~ (forall t v, ser_type DC_TYPE_KEY t = true /\ has_type v t = true /\ plain_value v = true ->
     bind (run_transport TrDict (to_dict_gen sigma_id no_encf v)) (decode_gen no_decf t) = Ok v).
Proof. exact roundtrip_full_refuted. Qed.
Print Assumptions C05_roundtrip_refuted.

(* "a value that already is an instance of one member of a Union comes back unchanged" *)
Theorem C05_union_full_refuted :
  ~ (forall ts v, forallb union_member ts = true -> has_type v (TUnion ts) = true ->
     decode_gen no_decf (TUnion ts) (encode_gen sigma_id no_encf v) = Ok v).
Proof. exact union_full_refuted_int_str. Qed.
Print Assumptions C05_union_full_refuted.
Theorem C05_union_witnesses :
  decode_gen no_decf (TUnion [TInt; TStr]) (encode_gen sigma_id no_encf (VStr "123")) = Ok (VInt 123) /\
  decode_gen no_decf (TUnion [TInt; TFloat]) (encode_gen sigma_id no_encf (VFlt "1.5")) = Ok (VInt 1).
Proof. exact (conj union_int_str_witness union_int_float_witness). Qed.
Print Assumptions C05_union_witnesses.

(* ints beyond the float range are inside the theorem (fixed: 72acb4b; _decode_int used to evaluate float(v)) *)
Theorem C05_huge_int :
  (ser_type DC_TYPE_KEY (wit_dc TInt) = true /\ has_type (wit_val (VInt (10 ^ 400))) (wit_dc TInt) = true /\
   plain_value (wit_val (VInt (10 ^ 400))) = true) /\
  union_safe (decode_gen no_decf) (encode_gen sigma_id no_encf) (wit_dc TInt) (wit_val (VInt (10 ^ 400))) = true /\
  bind (run_transport TrJson (to_dict_gen sigma_id no_encf (wit_val (VInt (10 ^ 400))))) (decode_gen no_decf (wit_dc TInt))
  = Ok (wit_val (VInt (10 ^ 400))).
Proof. exact roundtrip_huge_int. Qed.
Print Assumptions C05_huge_int.

(* every lenient raw encoding (numbers / bools as strings, ints for floats, tuples and sets as lists, missing keys of
   defaulted fields, fields with a decoding_fn) decodes to the same instance *)
Theorem C05_lenient : forall decf t v p,
  lenient (decode_gen decf) DC_TYPE_KEY decode_bool_str decf t v p -> decode_gen decf t p = Ok v.
Proof. exact lenient_decodes. Qed.
Print Assumptions C05_lenient.

(* the leaf under "dict keys come back in their declared key type" through JSON *)
Theorem C05_int_key : forall z, parse_int (Z_to_dec z) = Some z.
Proof. exact parse_int_Z_to_dec. Qed.
Print Assumptions C05_int_key.

(* non-vacuity: a nested instance inside the theorem's domain, and what the model answers through JSON *)
Definition nv_ty : ty :=
  TDc KSer "Outer" [("d", plain_meta, None, TDict TInt (TList (TOpt (TDc KPlain "In" [("s", plain_meta, None, TSet TStr);
                                                                                       ("u", plain_meta, None, TUnion [TInt; TStr])]))));
                    ("t", plain_meta, Some (VTup [VFlt "1.5"; VPath "a/b"]), TTup [TFloat; TPath])].
Definition nv_val : value :=
  VDc KSer "Outer" [("d", plain_meta, VDict false [(VInt (2 ^ 70), VList [VNone; VDc KPlain "In" [("s", plain_meta, VSet [VStr "a"; VStr "b"]);
                                                                                                   ("u", plain_meta, VStr "abc")]])]);
                    ("t", plain_meta, VTup [VFlt "0.125"; VPath "."])].
Example C05_nonvacuous :
  (ser_type DC_TYPE_KEY nv_ty = true /\ has_type nv_val nv_ty = true /\ plain_value nv_val = true)
  /\ union_safe (decode_gen no_decf) (encode_gen sigma_rev no_encf) nv_ty nv_val = true
  /\ bind (run_transport TrJson (to_dict_gen sigma_rev no_encf nv_val)) (decode_gen no_decf nv_ty) = Ok nv_val.
Proof. vm_compute. repeat split; reflexivity. Qed.
Print Assumptions C05_nonvacuous.
