(* Properties/C06.v — value sources are layered: definition < default instance / set_defaults < constructor
   config_path files < --config_path files < command line.  Only statements closed by `exact`, each followed by
   Print Assumptions.  All of them are about the model instantiated with the facts regenerated from the source
   (run_gen, dict_union_gen, set_default_tree_gen, rooted_gen, ...), for every dataclass forest, every document,
   every number of files: induction on the trees, no depth bound. *)
From SPV Require Import Base.Str Model.Layers Model.LayersSpec Gen.FactsLayers Proofs.LayersProofs.

(* dict_union is a right-biased merge, leaf by leaf, at every path, whenever the two documents agree on what is a
   section and what is a field *)
Theorem C06_dict_union_lookup : forall a b p,
  compatible a b = true ->
  leaf_lookup p (dict_union_gen a b) = orelse (leaf_lookup p b) (leaf_lookup p a).
Proof. exact dict_union_lookup. Qed.
Print Assumptions C06_dict_union_lookup.

(* what one parse computes, field by field (faithful, nulls included): every document that reaches the field
   overwrites FieldWrapper._default in the order set_defaults dicts, constructor files, --config_path files (a null
   erases it); the value is the command-line option, else _default, else the default instance, else the definition *)
Theorem C06_model_leafwise : forall nm ws inst sdefs acp_arg ctor cg clif cli r q o d,
  run_gen nm ws inst sdefs acp_arg ctor cg clif cli = Ok r ->
  forallb is_map (ctor ++ clif) = true ->
  fleaf_at q ws = Some (o, d, None, PNull) ->
  subtree q r =
  Some (resolve d (subtree q inst)
                (map (subtree q) sdefs ++ file_mentions nm ws q ctor
                 ++ file_mentions nm ws q (applied_clif (acp_of acp_arg ctor) cg ctor clif))
                (subtree q cli)).
Proof. exact model_leafwise. Qed.
Print Assumptions C06_model_leafwise.

(* the property, for every field no document says `null` about: the final value is the one of the highest-priority
   source that mentions it (spec_leaf = first_some [cli; last --config_path file; last constructor file;
   default instance / set_defaults; definition]) *)
Theorem C06_layers_partial : forall nm ws inst sdefs acp_arg ctor cg clif cli r q o d v,
  run_gen nm ws inst sdefs acp_arg ctor cg clif cli = Ok r ->
  forallb is_map (ctor ++ clif) = true ->
  fleaf_at q ws = Some (o, d, None, PNull) ->
  nonnull_at nm ws q sdefs (ctor ++ clif) = true ->
  spec_leaf d (inst :: sdefs) (map (rooted_gen nm ws) ctor)
            (map (rooted_gen nm ws) (if acp_of acp_arg ctor && cg then clif else [])) cli q = Some v ->
  subtree q r = Some v.
Proof. exact layers_partial. Qed.
Print Assumptions C06_layers_partial.

(* without the side condition the statement is false of the code (DESIGN defect 8):
   `x: Optional[int] = 5`, config file `x: null` -> 5, because None is FieldWrapper's "unset" sentinel *)
Theorem C06_layers_refuted :
  exists nm ws inst sdefs acp_arg ctor cg clif cli r q o d v,
    run_gen nm ws inst sdefs acp_arg ctor cg clif cli = Ok r /\
    forallb is_map (ctor ++ clif) = true /\
    fleaf_at q ws = Some (o, d, None, PNull) /\
    spec_leaf d (inst :: sdefs) (map (rooted_gen nm ws) ctor)
              (map (rooted_gen nm ws) (if acp_of acp_arg ctor && cg then clif else [])) cli q = Some v /\
    subtree q r <> Some v.
Proof. exact layers_refuted. Qed.
Print Assumptions C06_layers_refuted.

(* a file that does not mention a field leaves it to the other layers (nulls or not) *)
Theorem C06_siblings : forall nm ws inst sdefs b l1 f l2 cg clif cli r r' q o d,
  run_gen nm ws inst sdefs (Some b) (l1 ++ f :: l2) cg clif cli = Ok r ->
  run_gen nm ws inst sdefs (Some b) (l1 ++ l2) cg clif cli = Ok r' ->
  forallb is_map ((l1 ++ f :: l2) ++ clif) = true ->
  fleaf_at q ws = Some (o, d, None, PNull) ->
  subtree q (rooted_gen nm ws f) = None ->
  subtree q r = subtree q r'.
Proof. exact siblings_ctor. Qed.
Print Assumptions C06_siblings.

Theorem C06_siblings_clif : forall nm ws inst sdefs b ctor l1 f l2 cg cli r r' q o d,
  run_gen nm ws inst sdefs (Some b) ctor cg (l1 ++ f :: l2) cli = Ok r ->
  run_gen nm ws inst sdefs (Some b) ctor cg (l1 ++ l2) cli = Ok r' ->
  forallb is_map (ctor ++ l1 ++ f :: l2) = true ->
  fleaf_at q ws = Some (o, d, None, PNull) ->
  subtree q (rooted_gen nm ws f) = None ->
  subtree q r = subtree q r'.
Proof. exact siblings_clif. Qed.
Print Assumptions C06_siblings_clif.

(* in particular the document that sets exactly one nested field mentions it and none of its siblings *)
Theorem C06_single_sets_only_its_field : forall (pre : path) k1 k2 (rest : path) v,
  k1 <> k2 ->
  subtree (pre ++ [k1])%list (single (pre ++ [k1])%list v) = Some v /\
  subtree (pre ++ k2 :: rest)%list (single (pre ++ [k1])%list v) = None.
Proof. exact single_sets_only_its_field. Qed.
Print Assumptions C06_single_sets_only_its_field.

(* a key, inside a dataclass's section, that names none of its fields (and is not the discarded type tag):
   RuntimeError when the nested sections themselves are accepted ... *)
Theorem C06_unknown_key : forall cm fs m k,
  In k (keys m) -> str_in k (keys fs) = false -> str_in k DISCARD_GEN = false ->
  (forall n c s, In (n, c) fs -> lookup n m = Some s -> exists c', set_default_tree_gen c s = Ok c') ->
  set_default_tree_gen (WClass cm fs) (PMap m) = Err (Raise "RuntimeError").
Proof. exact unknown_key_runtime_error. Qed.
Print Assumptions C06_unknown_key.

(* ... and never silently dropped, at any depth, in any file of either file layer *)
Theorem C06_unknown_key_anywhere : forall w t,
  names_nonfield w t = true -> exists e, set_default_tree_gen w t = Err e.
Proof. exact unknown_key_anywhere. Qed.
Print Assumptions C06_unknown_key_anywhere.

Theorem C06_unknown_key_ctor_file : forall nm ws inst sdefs acp_arg ctor cg clif cli f,
  In f ctor -> forallb is_map ctor = true ->
  forest_names_nonfield ws (rooted_gen nm ws f) = true ->
  exists e, run_gen nm ws inst sdefs acp_arg ctor cg clif cli = Err e.
Proof. exact unknown_key_ctor. Qed.
Print Assumptions C06_unknown_key_ctor_file.

Theorem C06_unknown_key_cli_file : forall nm ws inst sdefs acp_arg ctor clif cli f,
  In f clif -> forallb is_map clif = true -> acp_of acp_arg ctor = true ->
  forest_names_nonfield ws (rooted_gen nm ws f) = true ->
  exists e, run_gen nm ws inst sdefs acp_arg ctor true clif cli = Err e.
Proof. exact unknown_key_clif. Qed.
Print Assumptions C06_unknown_key_cli_file.

Theorem C06_unknown_key_set_defaults : forall nm ws inst sdefs acp_arg ctor cg clif cli kw,
  In kw sdefs -> forest_names_nonfield ws kw = true ->
  exists e, run_gen nm ws inst sdefs acp_arg ctor cg clif cli = Err e.
Proof. exact unknown_key_sdefs. Qed.
Print Assumptions C06_unknown_key_set_defaults.

(* the three statements above in one: whatever the model returns for fresh wrappers of dataclasses with distinct field
   names, when no document says `null` about any field, passes the executable verdict of Model/LayersSpec.v - the
   very predicate that judges the implementation in the correspondence run *)
Theorem C06_model_meets_spec : forall nm ws inst sdefs acp_arg ctor cg clif cli r,
  run_gen nm ws inst sdefs acp_arg ctor cg clif cli = Ok r ->
  forallb is_map (ctor ++ clif) = true ->
  wf_forest ws = true ->
  forallb (fun qd => nonnull_at nm ws (fst qd) sdefs (ctor ++ clif)) (forest_leaf_paths ws) = true ->
  (cg = true -> acp_of acp_arg ctor = true) ->
  verdict_allows (spec_verdict ws inst sdefs (map (rooted_gen nm ws) ctor)
                               (map (rooted_gen nm ws) (if cg then clif else [])) cli) (Ok r) = true.
Proof. exact model_meets_spec. Qed.
Print Assumptions C06_model_meets_spec.

(* from the `_type_` fix on (CTOR_STRIP_GEN covers DISCARD_GEN): the serialisation's type tag is ignored.  The dataclass
   constructor never receives a keyword that is not a field - the parse is the pipeline without that failure - and
   set_default treats a section carrying the tag like the section without it, at whatever depth *)
Theorem C06_type_key_ignored : forall nm ws inst sdefs acp_arg ctor cg clif cli,
  run_gen nm ws inst sdefs acp_arg ctor cg clif cli =
  match fold_res set_defaults_kwargs_gen (mk_pstate (ws_init ws inst) (PMap [])) sdefs with
  | Err e => Err e
  | Ok st1 =>
    match fold_res (set_defaults_file_gen nm) st1 ctor with
    | Err e => Err e
    | Ok st2 =>
      match fold_res (set_defaults_file_gen nm) st2 (applied_clif (acp_of acp_arg ctor) cg ctor clif) with
      | Err e => Err e
      | Ok st3 => match finish_all_gen (ps_ws st3) cli with Err e => Err e | Ok kvs => Ok (PMap kvs) end
      end
    end
  end.
Proof. exact type_key_ignored. Qed.
Print Assumptions C06_type_key_ignored.

Theorem C06_type_key_in_section_ignored : forall cm fs m v,
  str_in "_type_" (keys fs) = false ->
  set_default_tree_gen (WClass cm fs) (PMap (("_type_", v) :: m)) = set_default_tree_gen (WClass cm fs) (PMap m).
Proof. exact type_key_in_section_ignored. Qed.
Print Assumptions C06_type_key_in_section_ignored.

(* Optional[Dataclass] = None members are judged by the correspondence run; proved here only: a member (Optional or
   not) to which a document gives a section is instantiated - it does not come back as None - whatever its fields hold *)
Theorem C06_optional_member_given_a_section : forall b cm fs m w' cli r,
  set_default_tree_gen (WClass cm fs) (PMap m) = Ok w' -> finish_gen b w' cli = Ok r -> is_map r = true.
Proof. exact optional_member_given_a_section. Qed.
Print Assumptions C06_optional_member_given_a_section.

(* non-vacuity: parse(Root, default=Root(..), config_path=[f1, f2], args="--config_path g1 --d 9") on
     class In: c: str = "c1"; d: int = 4; e: Optional[int] = None
     class Root: a: int = 1; b: int (required); n: In
   every layer wins somewhere; the hypotheses of C06_layers_partial hold at every field; an unknown key is refused *)
Definition ex_ws : list (string * wtree) :=
  [("config", WClass CPlain [("a", WLeaf false (Some (PVal (VInt 1))) None PNull);
                      ("b", WLeaf false None None PNull);
                      ("n", WClass CPlain [("c", WLeaf false (Some (PVal (VStr "c1"))) None PNull);
                                    ("d", WLeaf false (Some (PVal (VInt 4))) None PNull);
                                    ("e", WLeaf true (Some PNull) None PNull)])])].
Definition ex_inst : ptree :=
  PMap [("config", PMap [("a", PVal (VInt 1)); ("b", PVal (VInt 2));
                         ("n", PMap [("c", PVal (VStr "c2")); ("d", PVal (VInt 4)); ("e", PNull)])])].
Definition ex_ctor : list ptree :=
  [PMap [("n", PMap [("c", PVal (VStr "c10")); ("e", PVal (VInt 10))])]; PMap [("n", PMap [("c", PVal (VStr "c11"))])]].
Definition ex_clif : list ptree := [PMap [("n", PMap [("e", PVal (VInt 20)); ("d", PVal (VInt 21))])]].
Definition ex_cli : ptree := PMap [("config", PMap [("n", PMap [("d", PVal (VInt 9))])])].

Example C06_nonvacuous :
  run_gen PARSE_NESTED_MODE_GEN ex_ws ex_inst [] (Some true) ex_ctor true ex_clif ex_cli
  = Ok (PMap [("config", PMap [("a", PVal (VInt 1)); ("b", PVal (VInt 2));
                               ("n", PMap [("c", PVal (VStr "c11")); ("d", PVal (VInt 9)); ("e", PVal (VInt 20))])])])
  /\ forallb is_map (ex_ctor ++ ex_clif) = true /\ wf_forest ex_ws = true
  /\ forallb (fun qd => match fleaf_at (fst qd) ex_ws with Some (_, d, None, PNull) => true | _ => false end
                        && nonnull_at PARSE_NESTED_MODE_GEN ex_ws (fst qd) [] (ex_ctor ++ ex_clif))
             (forest_leaf_paths ex_ws) = true
  /\ spec_leaf (Some (PVal (VStr "c1"))) [ex_inst] (map (rooted_gen PARSE_NESTED_MODE_GEN ex_ws) ex_ctor)
               (map (rooted_gen PARSE_NESTED_MODE_GEN ex_ws) ex_clif) ex_cli ["config"; "n"; "c"] = Some (PVal (VStr "c11"))
  /\ forest_names_nonfield ex_ws (rooted_gen PARSE_NESTED_MODE_GEN ex_ws (PMap [("n", PMap [("zz", PVal (VInt 1))])])) = true
  /\ run_gen PARSE_NESTED_MODE_GEN ex_ws ex_inst [] (Some true) (ex_ctor ++ [PMap [("n", PMap [("zz", PVal (VInt 1))])]]) true ex_clif ex_cli
     = Err (Raise "RuntimeError")
  /\ run_gen PARSE_NESTED_MODE_GEN ex_ws ex_inst [] (Some true)
             (ex_ctor ++ [PMap [("_type_", PVal (VStr "m.Root")); ("n", PMap [("_type_", PVal (VStr "m.In"))])]]) true ex_clif ex_cli
     = run_gen PARSE_NESTED_MODE_GEN ex_ws ex_inst [] (Some true) ex_ctor true ex_clif ex_cli
  /\ compatible (PMap [("a", PVal (VInt 1)); ("n", PMap [("c", PNull)])]) (PMap [("n", PMap [("c", PVal (VInt 2)); ("d", PVal (VInt 3))])]) = true.
Proof. vm_compute. repeat split; reflexivity. Qed.
Print Assumptions C06_nonvacuous.
