(* Properties/C01.v — an empty command line reproduces the dataclass defaults at every destination.
   Statements only, each closed by `exact`; the model is instantiated with the facts regenerated from the source
   (Gen/FactsDefaults.v: guard of _create_dataclass_instance, order of the default sources, packaging chain, instantiation order,
   parse() = ArgumentParser + add_arguments, merge order) and quantifies over ALL class trees and ALL configurations. *)
From SPV Require Import Base.Str Model.Leaf Model.LeafSpec Model.OptStr Model.Defaults Model.DefaultsSpec
     Gen.FactsConflicts Gen.FactsDefaults Proofs.DefaultsProofs.

(* The full-strength statement: for every well-formed forest (well-typed defaults over the CLI grammar, distinct destinations),
   every conflict mode x generation mode x nested mode x dash variant x {ArgumentParser, parse()}, parsing [] either is refused with a
   ConflictResolutionError or delivers, at every destination, the caller's default instance / the constructor's own value.
   (C01_empty_defaults := forall c f, wf_forest f = true -> api_ok c f = true -> meets_C01 f (sp_parse_empty_gen c f).)
   It is FALSE of the code as it is (faithful model), because of ALWAYS_MERGE (known findings #19, #20, merged Optional members): *)
Theorem C01_empty_defaults_refuted :
  ~ (forall c f, wf_forest f = true -> api_ok c f = true -> meets_C01 f (sp_parse_empty_gen c f)).
Proof. exact empty_defaults_refuted. Qed.
Print Assumptions C01_empty_defaults_refuted.

(* NONE / EXPLICIT / AUTO, every generation mode, nested mode, dash variant, both APIs: the full-strength statement holds
   (#3, an Optional member whose default is an instance coming back None, is repaired: the regenerated guard looks at wrapper.defaults) *)
Theorem C01_empty_defaults_plain_modes : forall c f m,
  p_mode c = MPlain m -> wf_forest f = true -> api_ok c f = true -> meets_C01 f (sp_parse_empty_gen c f).
Proof. exact plain_full. Qed.
Print Assumptions C01_empty_defaults_plain_modes.

(* the former witnesses of #3 and #4 (corpus/C01) now satisfy the statement, through both merge models for #4 *)
Theorem C01_repaired_witnesses :
  meets_C01 forest_3 (sp_parse_empty_gen cfg_auto forest_3) /\ meets_C01 forest_3 (sp_parse_empty_gen cfg_parse forest_3)
  /\ meets_C01 forest_4 (sp_parse_empty_gen cfg_merge forest_4)
  /\ parse_merge_gen (option_strings (p_cfg cfg_merge)) forest_4 = Ok (spec_C01 forest_4).
Proof. exact repaired_3_4. Qed.
Print Assumptions C01_repaired_witnesses.

(* #19 ALWAYS_MERGE, a default instance on one of two merged destinations leaks into the other *)
Theorem C01_refuted_by_partial_default_instances :
  exists c f, wf_forest f = true /\ api_ok c f = true /\ ~ meets_C01 f (sp_parse_empty_gen c f).
Proof. exact refuted_by_partial_default_instances. Qed.
Print Assumptions C01_refuted_by_partial_default_instances.

(* #20 ALWAYS_MERGE, a class nested twice and registered at top level: set-up ends with ValueError *)
Theorem C01_refuted_by_merge_at_different_depths :
  exists c f, wf_forest f = true /\ api_ok c f = true /\ sp_parse_empty_gen c f = Err (Raise "ValueError").
Proof. exact refuted_by_merge_at_different_depths. Qed.
Print Assumptions C01_refuted_by_merge_at_different_depths.

(* ALWAYS_MERGE, o: Optional[In] = None in a class registered twice comes back as an instance *)
Theorem C01_refuted_by_merged_optional_member :
  exists c f, wf_forest f = true /\ api_ok c f = true /\ ~ meets_C01 f (sp_parse_empty_gen c f).
Proof. exact refuted_by_merged_optional_member. Qed.
Print Assumptions C01_refuted_by_merged_optional_member.

(* What does hold, for all trees and all configurations, under a decidable side condition that names the excluded shapes. *)
Theorem C01_empty_defaults_partial : forall c f,
  wf_forest f = true -> api_ok c f = true -> side_ok_gen c f = true -> meets_C01 f (sp_parse_empty_gen c f).
Proof. exact empty_defaults_partial. Qed.
Print Assumptions C01_empty_defaults_partial.

(* NONE / EXPLICIT / AUTO: the only excluded shape is #3's (an Optional member whose effective default is an instance, reached
   without a caller-supplied default), and only while the regenerated guard is the one that looks at wrapper.default alone *)
Theorem C01_side_condition_plain_modes : forall c f m, p_mode c = MPlain m -> side_ok_gen c f = shape3_free guard_gen f.
Proof. exact side_plain_is_shape3. Qed.
Print Assumptions C01_side_condition_plain_modes.
Theorem C01_shape3_vanishes_when_repaired : forall f, shape3_free GDefaultAndDefaults f = true.
Proof. exact shape3_repaired. Qed.
Print Assumptions C01_shape3_vanishes_when_repaired.
Theorem C01_plain_modes_full_if_guard_repaired :
  guard_gen = GDefaultAndDefaults ->
  forall c f m, p_mode c = MPlain m -> wf_forest f = true -> api_ok c f = true -> meets_C01 f (sp_parse_empty_gen c f).
Proof. exact plain_full_if_guard_repaired. Qed.
Print Assumptions C01_plain_modes_full_if_guard_repaired.
Theorem C01_dealt_shape_vanishes_when_repaired : forall chain f, pk_repaired chain = true -> no_dealt chain f = true.
Proof. exact no_dealt_repaired. Qed.
Print Assumptions C01_dealt_shape_vanishes_when_repaired.

(* FieldWrapper.default returns the right source on each of the three propagation paths *)
Theorem C01_default_resolves : forall n d fac D,
  is_inst D ->
  leaf_default_gen n d fac (Some D) [D] = as_value (attr D n)
  /\ leaf_default_gen n d fac None [D] = as_value (attr D n)
  /\ leaf_default_gen n d fac None [] = d
  /\ leaf_default_gen n d fac None [vnone] = d.
Proof. exact default_resolves. Qed.
Print Assumptions C01_default_resolves.

(* post-processing a well-typed default is the identity (0, '', False, [], (), None are ordinary well-typed values) *)
Theorem C01_postprocess_default_id : forall t v, cli_type t = true -> has_type v t = true -> post t v = v.
Proof. exact postprocess_default_id. Qed.
Print Assumptions C01_postprocess_default_id.

(* bottom-up instantiation rebuilds the nested value: from a default instance ... *)
Theorem C01_bottom_up_rebuilds : forall cn fs vals has_wd,
  wf_fields fs = true -> wf_inst cn fs (VD cn vals) = true ->
  forallb (shape3_free_fld guard_gen has_wd (Some (VD cn vals))) fs = true ->
  VD cn (run_fields_gen fs (if has_wd then Some (VD cn vals) else None) [VD cn vals]) = VD cn vals.
Proof. exact bottom_up_rebuilds. Qed.
Print Assumptions C01_bottom_up_rebuilds.
(* ... and from the field defaults alone *)
Theorem C01_constructor_value_rebuilt : forall c,
  wf_fields (snd c) = true -> forallb (shape3_free_fld guard_gen false None) (snd c) = true ->
  VD (fst c) (run_fields_gen (snd c) None []) = construct c.
Proof. exact constructor_value_rebuilt. Qed.
Print Assumptions C01_constructor_value_rebuilt.

(* ALWAYS_MERGE, the same class at k >= 2 destinations: per-destination default lists are dealt out correctly *)
Theorem C01_merge_same_class : forall chain c e0 e1 r,
  chain_known chain ->
  let f := e0 :: e1 :: r in
  wf_forest f = true ->
  (forall e : entry, In e f -> snd (fst e) = c) ->
  (forall e : entry, In e f -> is_some (snd e) = is_some (snd e0)) ->
  has_optional (snd c) = false ->
  no_dealt chain f = true ->
  parse_uniform order_std chain dv_std dup_std DInconsistent c f = Ok (spec_C01 f).
Proof. exact parse_uniform_meets. Qed.
Print Assumptions C01_merge_same_class.

(* the code sites whose shape the model depends on, read from the source on every run *)
Theorem C01_code_shapes :
  default_sources_gen = order_std /\ default_value_sources_gen = dv_std
  /\ dup_chain_gen = dup_std /\ dup_else_gen = DInconsistent
  /\ merge_resets_gen = MrSelf /\ init_caches_gen = true
  /\ forwards_default_gen = true /\ pipeline_std_gen = true
  /\ postprocess_arms_gen = post_arms_std
  /\ deepest_first_gen = true /\ parse_is_parser_gen = true /\ merge_rest_sorted_gen = false.
Proof. exact code_shapes. Qed.
Print Assumptions C01_code_shapes.

(* non-vacuity: falsy defaults, Optional members (None / instance), a member default instance, a caller default on one destination
   under AUTO; two destinations of one class with different default instances under ALWAYS_MERGE (both merge models agree) *)
Example C01_nonvacuous :
  wf_forest forest_NV = true /\ api_ok cfg_auto forest_NV = true /\ side_ok_gen cfg_auto forest_NV = true
  /\ sp_parse_empty_gen cfg_auto forest_NV = Ok [("d0", inst_NV); ("d1", VD "In" [("z", VL (VInt 1))])]
  /\ wf_forest forest_NV_merge = true /\ side_ok_gen cfg_merge forest_NV_merge = true
  /\ sp_parse_empty_gen cfg_merge forest_NV_merge = Ok (spec_C01 forest_NV_merge)
  /\ parse_merge_gen (option_strings (p_cfg cfg_merge)) forest_NV_merge = Ok (spec_C01 forest_NV_merge).
Proof. exact nonvacuous. Qed.
Print Assumptions C01_nonvacuous.

(* The tie to the code for the namespace -> constructor-arguments plumbing is a THEOREM, not a sample: `fill_src` and
   `field_call_src` are the asts of ArgumentParser._fill_constructor_arguments_with_fields and of FieldWrapper.__call__ (the
   procedure the former calls once per field), dumped by harness/translate/PipelineSrc.py on every run.  Run by the MiniPy
   interpreter on ANY conflict-resolution mode, namespace, list of dataclass wrappers (any fields, defaults, destinations,
   subgroup / init / re-used flags), dict of constructor arguments and ANY tables for the two methods the code calls
   (duplicate_if_needed, postprocess: uninterpreted), they compute exactly the functional model Model/Pipeline.v fill_fn /
   call_fn: the pair (leftover namespace, constructor_arguments), or the same exception.  No hypothesis: the shape of the
   wrapper objects is the record type of the model (Pipeline.fieldw / wrapperw, encoded by enc_field / enc_wrapper). *)
From SPV Require Import Model.MiniPy Model.Pipeline Gen.FactsPipelineSrc Proofs.MiniPyPipeline.
Theorem C01_source_fill_is_model : forall mode cls ns ws ca0,
  MiniPy.run (fill_env mode cls ns ws ca0) fill_src
  = match fill_fn (String.eqb mode Pipeline.MERGE) ws ns ca0 with
    | Ok (ns', ca') => Ok (MiniPy.VT [MiniPy.VR cls ns'; MiniPy.VD ca'])
    | Err z => Err z
    end.
Proof. exact fill_is_model. Qed.
Print Assumptions C01_source_fill_is_model.

Theorem C01_source_call_is_model : forall f parser nsv values ca,
  final_var "constructor_arguments" (MiniPy.exec_block (call_env f parser nsv values ca) field_call_src)
  = match call_fn f values ca with Ok ca' => Ok (MiniPy.VD ca') | Err z => Err z end
  /\ final_var "namespace" (MiniPy.exec_block (call_env f parser nsv values ca) field_call_src)
     = match call_fn f values ca with Ok _ => Ok nsv | Err z => Err z end.
Proof. exact call_is_model. Qed.
Print Assumptions C01_source_call_is_model.

Example C01_source_nonvacuous :
  let reused := mkfieldw "a.x" (MiniPy.VL [VN 0]) false true true ["a.x"; "b.x"]
                         [(MiniPy.VL [VN 7], MiniPy.VL [VN 7; VN 7])] [(VN 7, VS "seven")] VNone in
  let plain := mkfieldw "a.y" (VS "dflt") false true false ["a.y"] [] [(VS "given", VS "given"); (VS "dflt", VS "dflt")] VNone in
  let noinit := mkfieldw "a.z" VNone false false false ["a.z"] [] [] VNone in
  let sub := mkfieldw "a.s" VNone true true false ["a.s"] [] [] (MiniPy.VD []) in
  MiniPy.run (fill_env "ConflictResolution.ALWAYS_MERGE" "Namespace" [("a.x", MiniPy.VL [VN 7]); ("a.y", VS "given"); ("other", VB true)]
                [mkwrapperw [reused; plain; noinit; sub] [VNone]] [(VS "a", MiniPy.VD []); (VS "b", MiniPy.VD [(VS "x", VNone)])]) fill_src
  = Ok (MiniPy.VT [MiniPy.VR "Namespace" [("other", VB true)];
            MiniPy.VD [(VS "a", MiniPy.VD [(VS "x", VS "seven"); (VS "y", VS "given")]); (VS "b", MiniPy.VD [(VS "x", VS "seven")])]]).
Proof. exact fill_nonvacuous. Qed.
Print Assumptions C01_source_nonvacuous.

(* ---------------------------------------------------------------------------------------------------------------------------------
   The source-bridged fill step and the default model (Proofs/DefaultsPipeline.v).  Empty command line: the namespace holds no parsed
   value, every field takes FieldWrapper.default.  A wrapper of Model/Defaults.v is abstracted to a Pipeline.wrapperw whose field
   records carry the evaluated attributes and, as tables, the graphs of duplicate_if_needed / postprocess of Model/Defaults.v. *)
From SPV Require Import Proofs.DefaultsPipeline.

(* for the regenerated body of _fill_constructor_arguments_with_fields (and of FieldWrapper.__call__ inside it), an empty argv yields,
   for any wrapper DataclassWrapper.__init__ creates, exactly the leaf entries of run_fields_gen — the function
   C01_empty_defaults_partial / C01_bottom_up_rebuilds reason about *)
Theorem C01_source_pipeline_defaults : forall mode cls key path cn fs wd defs parent opt children,
  fill_side fs = true ->
  MiniPy.run (fill_env mode cls [] [abs_wrapper_gen (wrapper_of_gen key path cn fs wd defs parent opt children)] [(VS key, MiniPy.VD [])])
             fill_src
  = Ok (VT [VR cls []; MiniPy.VD [(VS key, MiniPy.VD (enc_attrs (leaf_part fs (run_fields_gen fs wd defs))))]]).
Proof. exact source_pipeline_defaults. Qed.
Print Assumptions C01_source_pipeline_defaults.

(* ... which, at a registered destination, are the leaf attributes of the instance C01 demands *)
Theorem C01_source_pipeline_meets_spec : forall mode cls d c i children,
  wf_entry (d, c, i) = true -> forallb (shape3_free_fld guard_gen (Defaults.is_some i) i) (snd c) = true -> fill_side (snd c) = true ->
  MiniPy.run (fill_env mode cls [] [abs_wrapper_gen (wrapper_of_gen d [d] (fst c) (snd c) i (root_defaults i) None false children)]
                       [(VS d, MiniPy.VD [])]) fill_src
  = Ok (VT [VR cls []; MiniPy.VD [(VS d, MiniPy.VD (enc_attrs (leaf_part (snd c)
                 (attrs_of (match i with Some D => D | None => construct c end)))))]]).
Proof. exact source_pipeline_meets_spec. Qed.
Print Assumptions C01_source_pipeline_meets_spec.

(* ALWAYS_MERGE: the same for the whole flattened wrapper store (wrappers with several destinations), against fill_wrapper *)
Theorem C01_source_pipeline_store : forall mode cls ws c',
  forallb names_ok ws = true ->
  String.eqb mode Pipeline.MERGE || Nat.eqb (List.length ws) (List.length (init_ca ws)) = true ->
  fill_all_gen ws (init_ca ws) = Ok c' ->
  MiniPy.run (fill_env mode cls [] (map abs_wrapper_gen ws) (enc_ca (init_ca ws))) fill_src
  = Ok (VT [VR cls []; MiniPy.VD (enc_ca c')]).
Proof. exact source_pipeline_store. Qed.
Print Assumptions C01_source_pipeline_store.

Example C01_source_pipeline_nonvacuous :
  wf_entry ("d", ("T", nv_fs), Some nv_inst) = true /\ fill_side nv_fs = true
  /\ MiniPy.run (fill_env "ConflictResolution.AUTO" "Namespace" []
                   [abs_wrapper_gen (wrapper_of_gen "d" ["d"] "T" nv_fs (Some nv_inst) [nv_inst] None false ["d.n"])]
                   [(VS "d", MiniPy.VD [])]) fill_src
     = Ok (VT [VR "Namespace" [];
               MiniPy.VD [(VS "d", MiniPy.VD [(VS "y", enc_value (VInt 3)); (VS "xs", MiniPy.VL [VS "a"]);
                                              (VS "t", enc_value (VTup [VInt 1]))])]])
  /\ fill_all_gen [nv_merged] (init_ca [nv_merged])
     = Ok [("d0", [("y", Defaults.VL (VInt 9))]); ("d1", [("y", Defaults.VL (VInt 7))])]
  /\ MiniPy.run (fill_env "ConflictResolution.ALWAYS_MERGE" "Namespace" [] (map abs_wrapper_gen [nv_merged]) (enc_ca (init_ca [nv_merged]))) fill_src
     = Ok (VT [VR "Namespace" [];
               MiniPy.VD [(VS "d0", MiniPy.VD [(VS "y", enc_value (VInt 9))]); (VS "d1", MiniPy.VD [(VS "y", enc_value (VInt 7))])]]).
Proof. exact pipeline_nonvacuous. Qed.
Print Assumptions C01_source_pipeline_nonvacuous.

(* The second half of the plumbing, under the same kind of theorem: `instantiate_src` and `create_src` are the asts of
   ArgumentParser._instantiate_dataclasses and of _create_dataclass_instance (the procedure the former calls), dumped by
   harness/translate/PipelineSrc.py on every run.  Run by the MiniPy interpreter on ANY mode, parser defaults, namespace, list of
   wrappers (nesting levels, destinations, defaults, Optional flag, default, parent, fields with their names and defaults), dict
   of constructor arguments and ANY table for the dataclass constructors (uninterpreted, may raise), they compute exactly the
   functional model Model/Pipeline.v instantiate_fn / create_fn: deepest wrappers first (stable), the type tag dropped, SUPPRESS
   wrappers kept as dicts or suppressed, the Optional-member guard ("no explicit default, every default None / SUPPRESS, every
   argument equal to the field's default" -> None), the value stored in the parent's constructor arguments or on the namespace
   (RuntimeError on a collision outside the parser defaults), `assert not constructor_arguments`.  No hypothesis. *)
From SPV Require Import Proofs.MiniPyInstantiate.
Theorem C01_source_instantiate_is_model : forall mode pd cls ns ws ca0,
  MiniPy.run (instantiate_env mode pd cls ns ws ca0) instantiate_src
  = match instantiate_fn (String.eqb mode Pipeline.MERGE) pd ws ns ca0 with Ok ns' => Ok (MiniPy.VR cls ns') | Err z => Err z end.
Proof. exact instantiate_is_model. Qed.
Print Assumptions C01_source_instantiate_is_model.

Theorem C01_source_create_is_model : forall w args, MiniPy.run (create_env w args) create_src = create_fn w args.
Proof. exact create_is_model. Qed.
Print Assumptions C01_source_create_is_model.

(* ---------- how defaults travel down the wrapper tree: the regenerated source (Gen/FactsWrapperSrc.v) ----------
   harness/translate/WrapperSrc.py dumps, statement by statement, (a) the property DataclassWrapper.defaults, (b) inside the field
   loop of DataclassWrapper.__init__ the choice of the default handed down for one field (partial keywords / dict / instance) and
   (c) the four-way split subparser-or-choice field / dataclass member / Optional-or-Union member / plain field.  The theorems say
   what the MiniPy interpreter computes from them for EVERY input; `*_is_child_default(s)` restate (a) and (b) in the vocabulary of
   Model/Defaults.v: they ARE child_defaults / root_defaults / child_default of the hand model (run_fld's recursion is the model's).
   Left open: self.parent.defaults is an arbitrary value (the same property of the parent); utils.default_value, utils.is_*,
   utils.contains_/get_dataclass_type_arg, dataclasses.is_dataclass, is_dataclass_instance are tables; FieldWrapper(..) /
   DataclassWrapper(..) build records that keep their arguments; `self` is a token.  Hypotheses: the field object has the attributes
   read (name / metadata / default), a functools.partial has a keywords dict, no record claims the class name "dict"; for the link,
   every non-None default of the parent is an instance that has the member (attr_ok). *)
From SPV Require Import Gen.FactsWrapperSrc Proofs.MiniPyWrapper.

Theorem C01_source_defaults_is_model : forall own field parent pdefs name dv,
  match defaults_fn own field parent pdefs name dv with
  | Err z => MiniPy.exec_block (df_env own field parent pdefs name dv) defaults_src = Err z
  | Ok v => exists r', MiniPy.exec_block (df_env own field parent pdefs name dv) defaults_src = Ok (r', Some v)
                       /\ MiniPy.lookup "self._defaults" r' = Some v
  end.
Proof. exact defaults_is_model. Qed.
Print Assumptions C01_source_defaults_is_model.

Theorem C01_source_defaults_is_child_defaults : forall srcs cd defs n cn cfs nd field parent dv,
  is_none_v field = false -> is_none_v parent = false ->
  tbl_call dv field = Ok (enc_dvalue (dvalue srcs cn cfs nd)) ->
  Forall (attr_ok n) defs ->
  defaults_fn (enc_own cd) field parent (map enc_vt defs) (MiniPy.VS n) dv
  = Ok (MiniPy.VL (map enc_vt (child_defaults srcs cd defs n cn cfs nd))).
Proof. exact defaults_is_child_defaults. Qed.
Print Assumptions C01_source_defaults_is_child_defaults.

Theorem C01_source_defaults_is_root_defaults : forall i parent pdefs name dv,
  defaults_fn (enc_own i) MiniPy.VNone parent pdefs name dv = Ok (MiniPy.VL (map enc_vt (root_defaults i))).
Proof. exact defaults_is_root_defaults. Qed.
Print Assumptions C01_source_defaults_is_root_defaults.

Theorem C01_source_field_default_is_model : forall dfn dflt fcls ffs n,
  MiniPy.rget "name" ffs = Some n -> partial_ok dfn = true -> record_not_dict dflt = true ->
  match pick_fn dfn dflt n with
  | Err z => MiniPy.exec_block (pk_env dfn dflt fcls ffs) field_default_src = Err z
  | Ok v => exists r1, MiniPy.exec_block (pk_env dfn dflt fcls ffs) field_default_src = Ok (r1, None)
                       /\ MiniPy.lookup "field_default" r1 = Some v
  end.
Proof. exact field_default_is_model. Qed.
Print Assumptions C01_source_field_default_is_model.

Theorem C01_source_partial_keyword_by_presence : forall dfn dflt n kw v,
  partial_kw dfn = Some (MiniPy.VD kw) -> MiniPy.dget n kw = Some v -> pick_fn dfn dflt n = Ok v.
Proof. exact pick_partial_present. Qed.
Print Assumptions C01_source_partial_keyword_by_presence.

Theorem C01_source_field_default_is_child_default : forall wd n,
  match wd with Some D => attr_ok n D /\ is_vnone D = false | None => True end ->
  exists v, pick_fn MiniPy.VNone (match wd with Some D => enc_vt D | None => MiniPy.VNone end) (MiniPy.VS n) = Ok v
            /\ option_map enc_vt (child_default wd n) = (if is_const_v "dataclasses.MISSING" v || is_none_v v then None else Some v).
Proof. exact field_default_is_child_default. Qed.
Print Assumptions C01_source_field_default_is_child_default.

Theorem C01_source_split_is_model : forall T ftype fcls ffs n m fdflt fd selfv prefix sprefix fields children,
  MiniPy.rget "name" ffs = Some n -> MiniPy.rget "metadata" ffs = Some (MiniPy.VD m) -> MiniPy.rget "default" ffs = Some fdflt ->
  match split_fn T ftype (MiniPy.VR fcls ffs) n m fdflt fd selfv prefix sprefix fields children with
  | Err z => MiniPy.exec_block (sp_env T ftype (MiniPy.VR fcls ffs) fd selfv prefix sprefix fields children) split_src = Err z
  | Ok (fl, ch) => exists r1, MiniPy.exec_block (sp_env T ftype (MiniPy.VR fcls ffs) fd selfv prefix sprefix fields children) split_src = Ok (r1, None)
                              /\ MiniPy.lookup "self.fields" r1 = Some (MiniPy.VL fl) /\ MiniPy.lookup "self._children" r1 = Some (MiniPy.VL ch)
  end.
Proof. exact split_is_model. Qed.
Print Assumptions C01_source_split_is_model.

(* non-vacuity: the dumped statements run.  A child named "opt" under a parent with defaults [None, Parent(opt=Child(x=1))];
   a partial with keyword lr=0 (falsy, still taken); the Optional member becomes an optional, not required child wrapper. *)
Definition NVW_INST : MiniPy.val := MiniPy.VR "Parent" [("opt", MiniPy.VR "Child" [("x", MiniPy.VN 1)])].
Definition NVW_FIELD : MiniPy.val := MiniPy.VR "Field" [("name", MiniPy.VS "opt"); ("metadata", MiniPy.VD []); ("default", MiniPy.VNone)].
Definition NVW_T : sp_tables :=
  mksp [(MiniPy.VC "Optional[Child]", MiniPy.VB false)] [(NVW_FIELD, MiniPy.VB false)] [(NVW_FIELD, MiniPy.VB false)]
       [(MiniPy.VC "Optional[Child]", MiniPy.VB true)] [(MiniPy.VC "Optional[Child]", MiniPy.VC "Child")]
       [(MiniPy.VC "Optional[Child]", MiniPy.VB false)] [].
Example C01_source_wrapper_nonvacuous :
  MiniPy.run (df_env [] NVW_FIELD (MiniPy.VC "parent") [MiniPy.VNone; NVW_INST] (MiniPy.VS "opt") []) defaults_src
  = Ok (MiniPy.VL [MiniPy.VNone; MiniPy.VR "Child" [("x", MiniPy.VN 1)]])
  /\ MiniPy.run (df_env [] NVW_FIELD (MiniPy.VC "parent") [] (MiniPy.VS "opt") [(NVW_FIELD, MiniPy.VNone)]) defaults_src
     = Ok (MiniPy.VL [MiniPy.VNone])
  /\ MiniPy.run (df_env [] NVW_FIELD (MiniPy.VC "parent") [] (MiniPy.VS "opt") [(NVW_FIELD, MISSING)]) defaults_src = Ok (MiniPy.VL [])
  /\ MiniPy.run (df_env [] NVW_FIELD (MiniPy.VC "parent") [MiniPy.VR "Other" []] (MiniPy.VS "opt") []) defaults_src = Err (Raise "AttributeError")
  /\ pick_fn (MiniPy.VR "functools.partial" [("func", MiniPy.VC "Opt"); ("keywords", MiniPy.VD [(MiniPy.VS "lr", MiniPy.VN 0)])])
             (MiniPy.VR "Opt" [("lr", MiniPy.VN 3)]) (MiniPy.VS "lr") = Ok (MiniPy.VN 0)
  /\ pick_fn MiniPy.VNone NVW_INST (MiniPy.VS "opt") = Ok (MiniPy.VR "Child" [("x", MiniPy.VN 1)])
  /\ pick_fn MiniPy.VNone (MiniPy.VD [(MiniPy.VS "other", MiniPy.VN 1)]) (MiniPy.VS "opt") = Ok MISSING
  /\ (exists r1, MiniPy.exec_block (pk_env MiniPy.VNone NVW_INST "Field" [("name", MiniPy.VS "opt")]) field_default_src = Ok (r1, None)
                 /\ MiniPy.lookup "field_default" r1 = Some (MiniPy.VR "Child" [("x", MiniPy.VN 1)]))
  /\ split_fn NVW_T (MiniPy.VC "Optional[Child]") NVW_FIELD (MiniPy.VS "opt") [] MiniPy.VNone MISSING (MiniPy.VC "self") (MiniPy.VS "") (MiniPy.VS "") [] []
     = Ok ([], [MiniPy.VR "DataclassWrapper" [("dataclass", MiniPy.VC "Child"); ("name", MiniPy.VS "opt"); ("default", MiniPy.VNone);
                                               ("parent", MiniPy.VC "self"); ("_field", NVW_FIELD); ("required", MiniPy.VB false); ("optional", MiniPy.VB true)]])
  /\ (exists r1, MiniPy.exec_block (sp_env NVW_T (MiniPy.VC "Optional[Child]") NVW_FIELD MISSING (MiniPy.VC "self") (MiniPy.VS "") (MiniPy.VS "") [] []) split_src = Ok (r1, None)
                 /\ MiniPy.lookup "self.fields" r1 = Some (MiniPy.VL [])).
Proof. repeat split; try (vm_compute; reflexivity); eexists; split; vm_compute; reflexivity. Qed.
Print Assumptions C01_source_wrapper_nonvacuous.
