(* Properties/C17.v — how a dataclass is written does not change its command line.
   Only statements closed by `exact`, each followed by Print Assumptions.  Which runtime path each one covers:
     C17_eval_render / C17_denote_render : every path (what Python builds from each spelling; what the spelling means)
     C17_norm        : `from __future__ import annotations` + get_type_hints succeeds + top-level types.UnionType
                       (get_field_type_from_annotations -> _replace_UnionType_with_typing_Union), the normal path on 3.10+
     C17_resolve / C17_renderings : DataclassWrapper.__init__ / FieldWrapper.type for all four styles
     C17_rewriter_*  : _get_old_style_annotation: the fallback of get_field_type_from_annotations (get_type_hints raised
                       TypeError) and evaluate_string_annotation (serialization helpers); never on the normal parse path
     C17_flatten_*   : dataclasses' field collection + _get_dataclass_fields + DataclassWrapper's filters *)
From SPV Require Import Base.Str Model.Annot Model.AnnotSpec Gen.FactsAnnot Proofs.AnnotProofs.
Open Scope list_scope.

(* ---------- spellings ---------- *)
(* the runtime object Python builds from each spelling of a CLI-grammar type is the one written down in `rt` *)
Theorem C17_eval_render : forall env sp c,
  env_ok env = true -> wf_cty c = true -> eval env (render sp c) = Ok (rt sp c).
Proof. exact eval_render. Qed.
Print Assumptions C17_eval_render.

(* all spellings of a type mean that type, and the type predicates see it in the object of every spelling *)
Theorem C17_denote_render : forall sp c, wf_cty c = true -> denote (render sp c) = c /\ canon (rt sp c) = c.
Proof. intros sp c H. split; [now apply denote_render|now apply canon_rt]. Qed.
Print Assumptions C17_denote_render.

(* ---------- (a) normalisation of the PEP 604 / builtin-generic runtime form ---------- *)
Definition norm_statement (c : cty) : Prop :=
  norm_gen (rt Sp604 c) = Ok (rt SpBuiltin c) /\ canon (rt SpBuiltin c) = canon (rt SpTyping c).

(* full strength, Tuple[X, ...] included: holds since the normaliser lets the Ellipsis argument through (the repair
   of the defect this check reported: postponed `a: tuple[int, ...] | None` raised NotImplementedError at set-up; the
   witness stays in corpus/C17 and in the generated stream, and NORM_HANDLES_ELLIPSIS_GEN is the regenerated fact) *)
Theorem C17_norm : forall c, wf_cty c = true -> norm_statement c.
Proof.
  intros c Hw. split; [now apply norm_rt604|]. now rewrite !canon_rt.
Qed.
Print Assumptions C17_norm.

Theorem C17_norm_handles_ellipsis : NORM_HANDLES_ELLIPSIS_GEN = true /\ norm_gen REllipsis = Ok REllipsis.
Proof. split; [exact ellipsis_handled|exact norm_dots]. Qed.
Print Assumptions C17_norm_handles_ellipsis.

(* ---------- the resolution pipeline of DataclassWrapper / FieldWrapper.type ---------- *)
Definition resolve_statement (sp : spelling) (postponed initvar : bool) (c : cty) : Prop :=
  exists r, resolve_gen postponed initvar (render sp c) = Ok r /\ canon r = c.

Theorem C17_resolve : forall sp postponed initvar c, wf_cty c = true -> resolve_statement sp postponed initvar c.
Proof. exact resolve_render. Qed.
Print Assumptions C17_resolve.

(* ---------- (b) the textual rewriter ---------- *)
Definition rewriter_statement (t : texp) : Prop :=
  exists s', old_style_gen (pr t) = Ok s' /\ exists t', parse s' = Some t' /\ denote t' = denote t.

(* full strength: false — `list[int] | None` ends in the assertion (the source says so itself: "BUG: Need to handle
   things like bob[int] | None") *)
Theorem C17_rewriter_refuted : exists t, names_ok t = true /\ shape_ok t = true /\ ~ rewriter_statement t.
Proof.
  exists (TBar [TSub "list" [TName "int"]; TName "None"]). split; [reflexivity|]. split; [reflexivity|].
  intros [s' [H _]]. vm_compute in H. discriminate H.
Qed.
Print Assumptions C17_rewriter_refuted.

Theorem C17_rewriter_partial : forall t,
  names_ok t = true -> shape_ok t = true -> rw_ok t = true -> rewriter_statement t.
Proof. exact rewriter_partial_parse. Qed.
Print Assumptions C17_rewriter_partial.

(* the exact text it produces on the sub-grammar, and that the parser reads any printed annotation back *)
Theorem C17_rewriter_text : forall t,
  names_ok t = true -> shape_ok t = true -> rw_ok t = true -> old_style_gen (pr t) = Ok (pr (to_old t)).
Proof. exact rewriter_partial. Qed.
Print Assumptions C17_rewriter_text.

Theorem C17_parse_print : forall t, names_ok t = true -> shape_ok t = true -> parse (pr t) = Some t.
Proof. exact parse_pr. Qed.
Print Assumptions C17_parse_print.

(* ---------- (c) inheritance chains ---------- *)
(* the last class of a chain has the fields of the flat class holding all declarations in order; this is the class the
   spec reads off the chain (first position, last declaration); without re-declarations it is the concatenation *)
Theorem C17_flatten : forall (chain : list (list (string * fdecl))),
  chain_fields chain = chain_fields [List.concat chain]
  /\ chain_fields chain = spec_flat chain
  /\ map (fun kv => (fst kv, f_ty (snd kv))) (wrapper_fields_gen (chain_fields chain)) = spec_cli_fields (spec_flat chain).
Proof.
  intros chain. split; [apply chain_is_flat|]. split; [apply flat_meets_spec|].
  rewrite wrapper_fields_spec. now rewrite flat_meets_spec.
Qed.
Print Assumptions C17_flatten.

Theorem C17_flatten_split : forall (chain : list (list (string * fdecl))),
  NoDup (map fst (List.concat chain)) -> chain_fields chain = List.concat chain.
Proof. exact chain_split. Qed.
Print Assumptions C17_flatten_split.

(* ---------- all renderings of a class give the wrapper field list the class denotes ---------- *)
Definition renderings_statement (sp : spelling) (postponed : bool) (chain : list (list (string * fdecl))) : Prop :=
  field_types_gen sp postponed (chain_fields chain) = Ok (spec_cli_fields (spec_flat chain)).

Theorem C17_renderings : forall sp postponed chain,
  forallb decl_wf (chain_fields chain) = true -> renderings_statement sp postponed chain.
Proof. exact chain_types_ok. Qed.
Print Assumptions C17_renderings.

(* ---------- the type predicates and the nested-group decision (utils.py / DataclassWrapper.__init__, regenerated) ---------- *)
(* whatever the spelling, the resolved type object answers is_union / is_optional / is_list / is_tuple / is_dict as the
   type the annotation denotes does *)
Theorem C17_predicates : forall sp postponed initvar c, wf_cty c = true ->
  exists sp', resolve_gen postponed initvar (render sp c) = Ok (rt sp' c)
  /\ is_union_gen (rt sp' c) = is_cunion c /\ is_optional_gen (rt sp' c) = is_coptional c
  /\ is_list_gen (rt sp' c) = is_clist c /\ is_tuple_gen (rt sp' c) = is_ctuple c /\ is_dict_gen (rt sp' c) = is_cdict c.
Proof.
  intros sp postponed initvar c Hw. destruct (resolve_render_rt sp postponed initvar c Hw) as [sp' H]. exists sp'.
  split; [exact H|]. split; [apply is_union_rt|]. split; [now apply is_optional_rt|].
  split; [now apply is_list_rt|]. split; [now apply is_tuple_rt|now apply is_dict_rt].
Qed.
Print Assumptions C17_predicates.

(* whatever the spelling, a member becomes an option / a nested group / an optional nested group as its meaning says *)
Theorem C17_wrapper_kind : forall dcs sp postponed initvar c dn,
  str_in "NoneType" dcs = false -> wf_cty c = true ->
  exists r, resolve_gen postponed initvar (render sp c) = Ok r
  /\ wrapper_kind_gen dcs r dn = match spec_wkind dcs c dn with Some k => Ok k | None => Err (Raise "NotImplementedError") end.
Proof.
  intros dcs sp postponed initvar c dn Hn Hw. destruct (resolve_render_rt sp postponed initvar c Hw) as [sp' H].
  exists (rt sp' c). split; [exact H|]. now apply wrapper_kind_rt.
Qed.
Print Assumptions C17_wrapper_kind.

(* ---------- non-vacuity ---------- *)
Example C17_nonvacuous :
  let c := CUnion [CList (CUnion [CAtom "int"; CAtom "str"]); CTupleVar (CAtom "E"); CNone] in
  let t := TSub "dict" [TName "str"; TBar [TName "int"; TName "None"]] in
  let chain := [[("a", mkf (CAtom "int") KField true true false); ("b", mkf (CAtom "str") KField true true false)];
                [("iv", mkf c KInitVar true true false); ("a", mkf c KField true true false); ("h", mkf (CAtom "int") KField true false false)]] in
  wf_cty c = true /\ has_variadic c = true
  /\ unchars (pr (render Sp604 c)) = "list[int | str] | tuple[E, ...] | None"%string
  /\ unchars (pr (render SpTyping c)) = "Optional[Union[List[Union[int, str]], Tuple[E, ...]]]"%string
  /\ norm_gen (rt Sp604 c) = Ok (rt SpBuiltin c)
  /\ names_ok t = true /\ shape_ok t = true /\ rw_ok t = true /\ has_bar t = true
  /\ option_map unchars (match old_style_gen (pr t) with Ok s => Some s | Err _ => None end) = Some "dict[str, Union[int, None]]"%string
  /\ forallb decl_wf (chain_fields chain) = true
  /\ field_types_gen Sp604 true (chain_fields chain) = Ok [("a", c); ("b", CAtom "str"); ("iv", c)]
  /\ wrapper_kind_gen ["In"] (rt Sp604 (CUnion [CAtom "In"; CNone])) true = Ok WOptChild
  /\ wrapper_kind_gen ["In"] (rt SpTyping (CAtom "In")) false = Ok WChild.
Proof. vm_compute. repeat split; reflexivity. Qed.
Print Assumptions C17_nonvacuous.
