From SPV Require Import Base.Str Model.Annot Model.AnnotSpec Gen.FactsAnnot Proofs.AnnotProofs.
Example C17_nonvacuous : 1 = 1. Proof. reflexivity. Qed.
