(* Properties/C12.v — boolean flags.  Only statements closed by `exact`, each followed by Print Assumptions. *)
From SPV Require Import Base.Str Model.BoolFlag Model.BoolFlagSpec Gen.FactsBool Proofs.BoolFlagProofs.

(* The model (with the vocabulary, negative prefix and __call__ table regenerated from the source) meets the
   spec for EVERY sequence of occurrences, every default, every set of negative option strings. *)
Theorem C12_flag_meets_spec : forall negs default ks os,
  all_consistent negs ks os = true ->
  meets (spec_flag default ks) (eval_flag_gen negs default (zip_occ ks os)).
Proof. exact flag_meets_spec. Qed.
Print Assumptions C12_flag_meets_spec.

Theorem C12_last_wins : forall negs default xs x c,
  eval_occs_gen negs None xs = Ok c ->
  eval_flag_gen negs default (xs ++ [x]) = match eval_occ_gen negs x with Ok b => Ok b | Err e => Err e end.
Proof. exact last_wins. Qed.
Print Assumptions C12_last_wins.

(* every case variant of every vocabulary word *)
Theorem C12_vocab_true : forall s, str_in (lower (strip s)) SPEC_TRUE = true -> str2bool_gen s = Some true.
Proof. exact vocab_true. Qed.
Print Assumptions C12_vocab_true.
Theorem C12_vocab_false : forall s,
  str_in (lower (strip s)) SPEC_FALSE = true -> str_in (lower (strip s)) SPEC_TRUE = false -> str2bool_gen s = Some false.
Proof. exact vocab_false. Qed.
Print Assumptions C12_vocab_false.
Theorem C12_vocab_nonword : forall s,
  str_in (lower (strip s)) SPEC_TRUE = false -> str_in (lower (strip s)) SPEC_FALSE = false -> str2bool_gen s = None.
Proof. exact vocab_nonword. Qed.
Print Assumptions C12_vocab_nonword.

(* each long positive spelling --P.n has the negative --P.<neg>n with the same path prefix *)
Theorem C12_negative_is_documented : forall kn pw path n,
  forallb wordok (path ++ [n]) = true -> wordok pw = true ->
  option_map fst (neg_of_option (dashes kn ++ pw) ("--" ++ join_dot (path ++ [n]))) =
  Some (spec_negative (dashes kn ++ pw) path n).
Proof. exact negative_is_documented. Qed.
Print Assumptions C12_negative_is_documented.

(* negatives of same-named fields at different destinations never collide *)
Theorem C12_negatives_injective : forall np path1 path2 n,
  forallb nodot (path1 ++ [lstrip_dashes np ++ n]) = true ->
  forallb nodot (path2 ++ [lstrip_dashes np ++ n]) = true ->
  path1 <> [] -> path2 <> [] ->
  spec_negative np path1 n = spec_negative np path2 n -> path1 = path2.
Proof. exact negatives_injective. Qed.
Print Assumptions C12_negatives_injective.

Theorem C12_negative_prefixed_differs : forall kn pw path n,
  path <> [] -> nodot pw = true -> nodot n = true ->
  spec_negative (dashes kn ++ pw) path n <> spec_negative (dashes kn ++ pw) [] n.
Proof. exact negative_prefixed_differs. Qed.
Print Assumptions C12_negative_prefixed_differs.

(* non-vacuity: a concrete sequence inside the theorem's domain, and what the model answers on it *)
Example C12_nonvacuous :
  all_consistent ["--a.noflag"] [PosVal "TRUE"; NegBare; PosVal "0"; PosBare] ["--a.flag"; "--a.noflag"; "--a.flag"; "--a.flag"] = true
  /\ eval_flag_gen ["--a.noflag"] (Some false)
       (zip_occ [PosVal "TRUE"; NegBare; PosVal "0"; PosBare] ["--a.flag"; "--a.noflag"; "--a.flag"; "--a.flag"]) = Ok true
  /\ option_map fst (neg_of_option DEFAULT_NEGATIVE_PREFIX "--a.b.flag") = Some "--a.b.noflag".
Proof. vm_compute. repeat split; reflexivity. Qed.
