(* Properties/C12.v — boolean flags.  Only statements closed by `exact`, each followed by Print Assumptions. *)
From SPV Require Import Base.Str Model.BoolFlag Model.BoolFlagSpec Gen.FactsBool Proofs.BoolFlagProofs.
From SPV Require Import Model.MiniPy Gen.FactsNegStrSrc Proofs.MiniPyNegStr.

(* The model (with the vocabulary, negative prefix and __call__ table regenerated from the source) meets the
   spec for EVERY sequence of occurrences, every default, every set of negative option strings. *)
Theorem C12_flag_meets_spec : forall negs default ks os,
  all_consistent negs ks os = true ->
  meets (spec_flag default ks) (eval_flag_gen negs default (zip_occ ks os)).
Proof. exact flag_meets_spec. Qed.
Print Assumptions C12_flag_meets_spec.

Theorem C12_last_wins : forall negs default xs x c,
  eval_occs_gen negs None xs = Ok c ->
  eval_flag_gen negs default (xs ++ [x]) = match eval_occ_gen negs x with Ok b => Ok b | Err e => Err e end.
Proof. exact last_wins. Qed.
Print Assumptions C12_last_wins.

(* every case variant of every vocabulary word *)
Theorem C12_vocab_true : forall s, str_in (lower (strip s)) SPEC_TRUE = true -> str2bool_gen s = Some true.
Proof. exact vocab_true. Qed.
Print Assumptions C12_vocab_true.
Theorem C12_vocab_false : forall s,
  str_in (lower (strip s)) SPEC_FALSE = true -> str_in (lower (strip s)) SPEC_TRUE = false -> str2bool_gen s = Some false.
Proof. exact vocab_false. Qed.
Print Assumptions C12_vocab_false.
Theorem C12_vocab_nonword : forall s,
  str_in (lower (strip s)) SPEC_TRUE = false -> str_in (lower (strip s)) SPEC_FALSE = false -> str2bool_gen s = None.
Proof. exact vocab_nonword. Qed.
Print Assumptions C12_vocab_nonword.

(* each long positive spelling --P.n has the negative --P.<neg>n with the same path prefix *)
Theorem C12_negative_is_documented : forall kn pw path n,
  forallb wordok (path ++ [n]) = true -> wordok pw = true ->
  option_map fst (neg_of_option (dashes kn ++ pw) ("--" ++ join_dot (path ++ [n]))) =
  Some (spec_negative (dashes kn ++ pw) path n).
Proof. exact negative_is_documented. Qed.
Print Assumptions C12_negative_is_documented.

(* negatives of same-named fields at different destinations never collide *)
Theorem C12_negatives_injective : forall np path1 path2 n,
  forallb nodot (path1 ++ [lstrip_dashes np ++ n]) = true ->
  forallb nodot (path2 ++ [lstrip_dashes np ++ n]) = true ->
  path1 <> [] -> path2 <> [] ->
  spec_negative np path1 n = spec_negative np path2 n -> path1 = path2.
Proof. exact negatives_injective. Qed.
Print Assumptions C12_negatives_injective.

Theorem C12_negative_prefixed_differs : forall kn pw path n,
  path <> [] -> nodot pw = true -> nodot n = true ->
  spec_negative (dashes kn ++ pw) path n <> spec_negative (dashes kn ++ pw) [] n.
Proof. exact negative_prefixed_differs. Qed.
Print Assumptions C12_negative_prefixed_differs.

(* The tie to the code for the negative option strings is a THEOREM, not a sample: `neg_strings_src` is the ast of the
   statements of BooleanOptionalAction.__init__ that compute self.negative_option_strings, dumped by
   harness/translate/NegStrSrc.py on every run (a syntax-to-syntax translation into the MiniPy fragment of Model/MiniPy.v);
   run by the MiniPy interpreter on any negative prefix, any explicit negative option or none, any conflict prefix that is
   empty or ends with "." (what the constructor asserts) and any list of option strings, it returns exactly what the
   functional model says: the list of negative option strings, or NotImplementedError for an option string without a
   leading dash. *)
Theorem C12_source_is_model : forall np nopt cp os,
  cp_ok cp = true ->
  run_src np nopt cp os =
  match negative_option_strings np nopt cp os with
  | Some l => Ok (VL (map VS l))
  | None => Err (Raise "NotImplementedError")
  end.
Proof. exact src_is_model. Qed.
Print Assumptions C12_source_is_model.

(* without an explicit negative option the conflict prefix plays no role *)
Theorem C12_source_is_model_generated : forall np cp os,
  run_src np None cp os =
  match neg_strings np os [] with
  | Some l => Ok (VL (map VS l))
  | None => Err (Raise "NotImplementedError")
  end.
Proof. exact src_is_model_generated. Qed.
Print Assumptions C12_source_is_model_generated.

(* the hypothesis above is exactly the constructor's assertion *)
Theorem C12_source_asserts_conflict_prefix : forall np n cp os,
  cp_ok cp = false -> run_src np (Some n) cp os = Err (Raise "AssertionError").
Proof. exact src_asserts_conflict_prefix. Qed.
Print Assumptions C12_source_asserts_conflict_prefix.

(* non-vacuity: a concrete sequence inside the theorem's domain, and what the model answers on it *)
Example C12_nonvacuous :
  all_consistent ["--a.noflag"] [PosVal "TRUE"; NegBare; PosVal "0"; PosBare] ["--a.flag"; "--a.noflag"; "--a.flag"; "--a.flag"] = true
  /\ eval_flag_gen ["--a.noflag"] (Some false)
       (zip_occ [PosVal "TRUE"; NegBare; PosVal "0"; PosBare] ["--a.flag"; "--a.noflag"; "--a.flag"; "--a.flag"]) = Ok true
  /\ option_map fst (neg_of_option DEFAULT_NEGATIVE_PREFIX "--a.b.flag") = Some "--a.b.noflag".
Proof. vm_compute. repeat split; reflexivity. Qed.
Print Assumptions C12_nonvacuous.
