(* Properties/C20.v — callable front-ends pass exactly the parsed values to the wrapped callable.
   Only statements closed by `exact`, each followed by Print Assumptions.  `facts_gen` is regenerated from the source. *)
From Coq Require Import Permutation.
(* the argparse engine first: where a name exists on both sides (lookup, spec_fields) the front-end's is meant below *)
From SPV Require Import Model.Namespace Model.LeafSpec Model.ArgparseM Model.ArgparseMSpec Model.ArgparsePos Model.ArgparsePosSpec
     Proofs.ArgparsePosProofs.
From SPV Require Import Base.Str Model.Front Model.FrontSpec Gen.FactsFront Proofs.FrontProofs Proofs.FrontPositional.

(* ---- decorators.main ------------------------------------------------------------------------------------------
   For EVERY well-formed signature and every map of parsed values: set-up succeeds, the callable is reached with
   exactly one call, inside it every parameter is bound to its parsed value (bind_call = CPython's binding), the
   positional-only parameters are passed positionally in signature order, every other parameter exactly once by
   keyword, and the synthesised field list is a permutation of the parameters with the required ones first.
   Side condition main_safe (boolean): no refused default (see C20_main_safe_full: only a dataclass-instance default is),
   and (no bool parameter OR nothing bogus is forwarded to the boolean action: C20_nothing_bogus_forwarded). *)
Theorem C20_main_partial : forall (V : Type) (s : sig V) (vals : string -> V),
  sig_wf s = true -> main_safe facts_gen s = true ->
  let c := main_call facts_gen s vals [] [] in
  main_run facts_gen s (Ok vals) [] [] = (Some c, Ok (map (fun p => (p_name p, vals (p_name p))) s))
  /\ c_pos c = map (fun p => vals (p_name p)) (filter is_po s)
  /\ Permutation (c_kw c) (map (fun p => (p_name p, vals (p_name p))) (filter (fun p => negb (is_po p)) s))
  /\ Permutation (main_fields facts_gen s) (map (main_field facts_gen) s)
  /\ order_ok false (main_fields facts_gen s) = true.
Proof. exact (@main_partial). Qed.
Print Assumptions C20_main_partial.

(* what main_safe excludes, for today's facts *)
Theorem C20_main_safe_plain : forall (V : Type) (s : sig V),
  existsb (fun p => is_bool_ann (p_ann p)) s = false -> existsb (fun p => has_def p && main_refuses facts_gen p) s = false ->
  main_safe facts_gen s = true.
Proof. exact (@main_safe_when_plain). Qed.
Print Assumptions C20_main_safe_plain.

(* ... and when nothing bogus is forwarded bool parameters are covered *)
Theorem C20_main_safe_when_fixed : forall (V : Type) (s : sig V),
  main_bogus facts_gen = [] -> existsb (fun p => has_def p && main_refuses facts_gen p) s = false -> main_safe facts_gen s = true.
Proof. exact (@main_safe_when_nothing_bogus). Qed.
Print Assumptions C20_main_safe_when_fixed.

(* defect #18 repaired (fix: commit in /repo): main forwards nothing to helpers.field beyond its named parameters.  If `name=` (or any
   other stray keyword) is ever forwarded again this regenerated fact, and with it bool parameters' coverage, stops holding. *)
Theorem C20_nothing_bogus_forwarded : main_bogus facts_gen = [].
Proof. exact eq_refl. Qed.
Print Assumptions C20_nothing_bogus_forwarded.

(* hence parameters of any supported type INCLUDING bool are inside C20_main_partial's domain *)
Theorem C20_main_safe_incl_bool : forall (V : Type) (s : sig V),
  existsb (fun p => has_def p && main_refuses facts_gen p) s = false -> main_safe facts_gen s = true.
Proof. exact (fun V s => @main_safe_when_nothing_bogus V s C20_nothing_bogus_forwarded). Qed.
Print Assumptions C20_main_safe_incl_bool.

(* list / dict / set defaults (fix: commits 4e8d91f, 91c405f in /repo) are wrapped into a deep-copying default_factory by both
   front-ends: regenerated facts.  Reverting either fix makes this theorem (and the two after it) stop holding. *)
Theorem C20_container_defaults_copied :
  f_main_copied facts_gen = [KList; KDict; KSet] /\ f_cf_copied facts_gen = [KList; KDict; KSet].
Proof. exact (conj gen_main_copied gen_cf_copied). Qed.
Print Assumptions C20_container_defaults_copied.

(* hence C20_main_partial covers EVERY signature whose defaults are hashable or list/dict/set (any parameter type, bool
   included); the only exclusion left is another unhashable default, i.e. an instance of a non-frozen dataclass *)
Theorem C20_main_safe_full : forall (V : Type) (s : sig V),
  existsb (fun p => has_def p && is_mut_other (p_mut p)) s = false -> main_safe facts_gen s = true.
Proof. exact (fun V s => @main_safe_full V s C20_nothing_bogus_forwarded). Qed.
Print Assumptions C20_main_safe_full.

(* the remaining counterexample (known finding): a dataclass-instance default, `def f(cfg: Cfg = Cfg())` *)
Theorem C20_main_refuted_dataclass_instance_default :
  main_run facts_gen [mkparam "cfg" PosOrKw ADc (Some "Cfg()") MutOther] (Ok (fun _ => "x")) [] []
  = (None, Err (Raise "ValueError")).
Proof. exact main_mutable_outcome. Qed.
Print Assumptions C20_main_refuted_dataclass_instance_default.
(* ... while a list default is inside the domain: set-up succeeds and the parameter receives its parsed value *)
Theorem C20_main_list_default_ok :
  main_run facts_gen [mkparam "xs" PosOrKw AList (Some "[1,2]") (MutC KList)] (Ok (fun _ => "[1,2]")) [] []
  = (Some (mkcall [] [("xs", "[1,2]")]), Ok [("xs", "[1,2]")]).
Proof. vm_compute. reflexivity. Qed.
Print Assumptions C20_main_list_default_ok.

(* the model's behaviour satisfies the executable spec the correspondence run evaluates on observed behaviour *)
Theorem C20_main_meets_spec : forall (V : Type) (veqb : V -> V -> bool) (s : sig V) (parsed : res (string -> V)),
  (forall v, veqb v v = true) -> sig_wf s = true -> main_safe facts_gen s = true ->
  spec_main veqb s parsed false (main_run facts_gen s parsed [] []) = true.
Proof. exact (@main_meets_spec_gen). Qed.
Print Assumptions C20_main_meets_spec.

(* ---- config_for -----------------------------------------------------------------------------------------------
   For EVERY signature, ignore list and default overrides: the fields are, up to order, exactly one per kept parameter
   (not ignored, and typeable) with the signature's default (or its override); required fields first; none positional. *)
Theorem C20_config_for : forall (V : Type) (s : sig V) (ignore : list string) (over : list (string * V)),
  let fs := cf_fields facts_gen ignore over s in
  Permutation (map (fun f => (fl_name f, fl_default f)) fs)
              (map (fun p => (p_name p, eff_default over p)) (filter (cf_keeps ignore over) s))
  /\ order_ok false fs = true
  /\ forallb (fun f => negb (fl_pos f)) fs = true.
Proof. exact (@config_for_fields). Qed.
Print Assumptions C20_config_for.

Theorem C20_config_for_typed : forall (V : Type) (s : sig V) (ignore : list string),
  forallb (fun p => negb (cf_untyped [] p)) s = true ->
  Permutation (map (fun f => (fl_name f, fl_default f)) (cf_fields facts_gen ignore [] s))
              (map (fun p => (p_name p, p_default p)) (filter (fun p => negb (str_in (p_name p) ignore)) s)).
Proof. exact (@config_for_fields_typed). Qed.
Print Assumptions C20_config_for_typed.

Theorem C20_config_for_meets_spec : forall (V : Type) (veqb : V -> V -> bool) (s : sig V) ignore over,
  (forall v, veqb v v = true) -> str_nodupb (map p_name s) = true ->
  spec_fields veqb s ignore over (Ok (map (fun f => (fl_name f, fl_default f)) (cf_fields facts_gen ignore over s))) = true.
Proof. exact (@config_for_fields_meet_spec). Qed.
Print Assumptions C20_config_for_meets_spec.

(* class creation succeeds unless a kept default is unhashable (config_for forwards nothing a boolean action refuses) *)
Theorem C20_config_for_setup : forall (V : Type) (s : sig V) ignore over,
  existsb (fun f => fl_has_def f && fl_mut f) (cf_fields facts_gen ignore over s) = false ->
  setup facts_gen (cf_fields facts_gen ignore over s) = Ok tt.
Proof. exact (@config_for_setup). Qed.
Print Assumptions C20_config_for_setup.

(* an un-annotated parameter is typed from its default: a default of builtin type T gets annotation T (a bool default stays
   bool although bool is a subclass of int), tuples element-wise - for EVERY default shape, over the regenerated head of
   infer_type_annotation_from_default *)
Theorem C20_inferred_annotation : forall d : dkind, infer (f_infer facts_gen) d = spec_ity d.
Proof. exact inferred_is_builtin_type. Qed.
Print Assumptions C20_inferred_annotation.
Theorem C20_inferred_bool_stays_bool :
  infer (f_infer facts_gen) DBool = IB TBool /\ infer (f_infer facts_gen) (DTuple [DBool; DInt]) = ITuple [IB TBool; IB TInt].
Proof. exact (conj (inferred_is_builtin_type DBool) (inferred_is_builtin_type (DTuple [DBool; DInt]))). Qed.
Print Assumptions C20_inferred_bool_stays_bool.

(* class creation succeeds for EVERY signature whose defaults are hashable or list/dict/set *)
Theorem C20_config_for_setup_full : forall (V : Type) (s : sig V) ignore over,
  existsb (fun p => has_def p && is_mut_other (p_mut p)) s = false ->
  setup facts_gen (cf_fields facts_gen ignore over s) = Ok tt.
Proof. exact (fun V s ignore over H => @config_for_setup V s ignore over (@cf_no_refusal V s ignore over H)). Qed.
Print Assumptions C20_config_for_setup_full.

(* the field of an ANNOTATED parameter takes the parameter's own annotation - whatever get_type_hints(cls) says under the
   same name (class targets) - and for an un-annotated one: the class-level hint, else the inferred type, else it is skipped.
   Over the regenerated if/elif chain of config_for. *)
Theorem C20_config_for_type_source : forall has_hint hint_same has_default,
  type_source (f_cf_type_chain facts_gen) true has_hint has_default = Some SrcParam
  /\ field_type_ok (f_cf_type_chain facts_gen) true has_hint hint_same has_default = true.
Proof. exact gen_annotated_param_wins. Qed.
Print Assumptions C20_config_for_type_source.
Theorem C20_config_for_type_source_unannotated : forall has_default,
  type_source (f_cf_type_chain facts_gen) false true has_default = Some SrcClass
  /\ type_source (f_cf_type_chain facts_gen) false false true = Some SrcInfer
  /\ type_source (f_cf_type_chain facts_gen) false false false = None.
Proof. exact gen_unannotated_sources. Qed.
Print Assumptions C20_config_for_type_source_unannotated.

(* ignore_args: the names the code ignores are the names the caller wrote (a str is ONE name, not its characters) *)
Theorem C20_config_for_ignore_names : forall i, ignore_names (f_cf_str_single facts_gen) i = spec_ignore_names i.
Proof. exact gen_ignore_names. Qed.
Print Assumptions C20_config_for_ignore_names.

(* main: run-time positionals given to the wrapper come after the parsed positional-only values *)
Theorem C20_main_runtime_positionals : forall (V : Type) (s : sig V) vals xp xk,
  c_pos (main_call facts_gen s vals xp xk)
  = (map (fun p => vals (p_name p)) (filter is_po (main_order facts_gen s)) ++ xp)%list.
Proof. exact (fun V s vals xp xk => @main_call_pos_runtime V facts_gen gen_pos_kinds gen_pos_keys s vals xp xk gen_parsed_pos_first). Qed.
Print Assumptions C20_main_runtime_positionals.

(* ---- Partial.__call__ -----------------------------------------------------------------------------------------
   For EVERY field list, values and call-site arguments: the callable is invoked with the call-site positionals and
   with exactly the field values updated by the call-site kwargs (the call site wins). *)
Theorem C20_call : forall (V : Type) (fs : list (fld V)) (vals : string -> V) call_pos call_kw,
  let c := partial_call facts_gen fs vals call_pos call_kw in
  c_pos c = call_pos
  /\ (forall k, lookup (c_kw c) k = match lookup call_kw k with
                                   | Some v => Some v
                                   | None => if str_in k (map fl_name fs) then Some (vals k) else None
                                   end)
  /\ keys (c_kw c) = (map fl_name fs ++ filter (fun k => negb (str_in k (map fl_name fs))) (keys call_kw))%list.
Proof. exact (@partial_call_gen). Qed.
Print Assumptions C20_call.

(* ... and every parameter ends up with the value the spec names (want_bindings), provided no positional-only
   parameter became a field *)
Theorem C20_call_binds_partial : forall (V : Type) (s : sig V) ignore over (vals : string -> V) call_kw,
  str_nodupb (map p_name s) = true ->
  existsb (fun f => fl_has_def f && fl_mut f) (cf_fields facts_gen ignore over s) = false ->
  no_po_field ignore over s = true ->
  call_kw_plain s call_kw = true ->
  forall w, want_bindings s (map fl_name (cf_fields facts_gen ignore over s)) vals call_kw = Some w ->
            snd (cf_run facts_gen s ignore over (Ok vals) [] call_kw) = Ok w.
Proof. exact (@partial_binds_partial). Qed.
Print Assumptions C20_call_binds_partial.

(* the whole observable behaviour of parse-then-call satisfies the executable spec (kwargs as a dict = field values
   updated by the call site; bindings as the spec names them), for any call-site positionals and keywords *)
Theorem C20_call_meets_spec : forall (V : Type) (veqb : V -> V -> bool) (s : sig V) ignore over parsed call_pos call_kw,
  (forall v, veqb v v = true) -> str_nodupb (map p_name s) = true ->
  existsb (fun f => fl_has_def f && fl_mut f) (cf_fields facts_gen ignore over s) = false ->
  str_nodupb (keys call_kw) = true -> no_po_field ignore over s = true ->
  spec_partial_call veqb s (map fl_name (cf_fields facts_gen ignore over s)) parsed call_pos call_kw
                    (cf_run facts_gen s ignore over parsed call_pos call_kw) = true.
Proof. exact (@partial_call_meets_spec_gen). Qed.
Print Assumptions C20_call_meets_spec.

(* without that side condition it is false: `def f(a: int, /)` - the field is passed by keyword *)
Theorem C20_call_binds_refuted : exists (s : sig string) (vals : string -> string),
  sig_wf s = true /\ call_kw_plain s [] = true /\
  ~ (forall w, want_bindings s (map fl_name (cf_fields facts_gen [] [] s)) vals [] = Some w ->
               snd (cf_run facts_gen s [] [] (Ok vals) [] []) = Ok w).
Proof. exact partial_binds_refuted. Qed.
Print Assumptions C20_call_binds_refuted.

(* ---- the class cache ------------------------------------------------------------------------------------------
   Once config_for has returned a class for hashable arguments, the same class is returned for them after ANY
   sequence of other requests. *)
Theorem C20_cached_partial : forall (V : Type) (veqb : V -> V -> bool) (s : sig V) st r st1 c rs st2 os,
  (forall v, veqb v v = true) -> rq_hashable r = true ->
  cf_request veqb facts_gen s st r = (st1, Ok c) ->
  cf_session veqb facts_gen s st1 rs = (st2, os) ->
  cf_request veqb facts_gen s st2 r = (st2, Ok c).
Proof. exact (@cached_partial). Qed.
Print Assumptions C20_cached_partial.

(* the cache is keyed by the callable OBJECT: whatever the history of requests over any family of callables (same name or
   not), a class returned for callable k is never returned for a different callable k' *)
Theorem C20_cached_distinct_callables :
  forall (V : Type) (veqb : V -> V -> bool) (sigs : nat -> sig V) steps st' outs k r k' r' c,
  p_session veqb facts_gen sigs ([], []) steps = (st', outs) ->
  In ((k, r), Ok c) (combine steps outs) -> In ((k', r'), Ok c) (combine steps outs) -> k = k'.
Proof. exact (fun V veqb sigs => @distinct_callables_distinct_classes V veqb facts_gen sigs). Qed.
Print Assumptions C20_cached_distinct_callables.

(* with ignore_args given as a list (unhashable) the cache is bypassed: two classes for the same arguments *)
Theorem C20_cached_refuted : exists (s : sig string) (r : cfreq string) st1 c c',
  cf_request String.eqb facts_gen s ([], 0) r = (st1, Ok c)
  /\ snd (cf_request String.eqb facts_gen s st1 r) = Ok c' /\ c <> c'.
Proof. exact cached_refuted. Qed.
Print Assumptions C20_cached_refuted.

(* ---- main composed with the argparse engine (Model/ArgparsePos.v) ---------------------------------------------
   main_acts_gen s = the argparse actions `main` registers, one per field IN THE ORDER OF THE SYNTHESISED DATACLASS
   (main_fields = the stable partition of the signature: C20_main_sort_is_stable_partition): a positional-only parameter is
   a positional taking one token, any other parameter the option --name (any nargs `ona`, converter `kof`, default `odflt`).
   For EVERY well-formed signature whose positional-only parameters have no default, every converter, and every command line
   made of well-formed option groups and runs of plain one-token blocks, one per positional-only parameter (segs_ok):
   the parse is the per-field specification (each option decided by its last group, each positional by its block), and when it
   succeeds the i-th block, converted, is the value the callable receives as its i-th positional-only argument - in
   SIGNATURE order - while every parameter is bound to the value the namespace holds under its name. *)
Theorem C20_main_sort_is_stable_partition : forall (V : Type) (s : sig V),
  main_order facts_gen s = (filter (fun p => negb (has_def p)) s ++ filter has_def s)%list.
Proof. exact (@main_sort_is_stable_partition_gen). Qed.
Print Assumptions C20_main_sort_is_stable_partition.

Theorem C20_main_positionals_in_signature_order :
  forall (V K : Type) (cvt : K -> string -> res V) (veqb : V -> V -> bool)
         (kof : string -> K) (ona : string -> nargs_t) (odflt : string -> stored V) (ab : bool)
         (s : sig (stored V)) (segs : list seg),
  sig_wf s = true -> po_required V s = true -> segs_ok ab (main_acts_gen kof ona odflt s) segs = true ->
  parse_argsP cvt veqb ab (main_acts_gen kof ona odflt s) (flatten_segs segs)
    = spec_groups cvt veqb (main_acts_gen kof ona odflt s) (as_groups (positionals (main_acts_gen kof ona odflt s)) segs)
  /\ forall l, parse_argsP cvt veqb ab (main_acts_gen kof ona odflt s) (flatten_segs segs) = Ok l ->
       Forall2 (fun p b => values_of cvt veqb (pos_act_gen kof ona odflt p) b = Ok (ns_vals V l (p_name p)))
               (filter is_po s) (all_blocks segs)
       /\ c_pos (main_call facts_gen s (ns_vals V l) [] []) = map (fun p => ns_vals V l (p_name p)) (filter is_po s)
       /\ bind_call s (main_call facts_gen s (ns_vals V l) [] []) = Ok (want_all s (ns_vals V l)).
Proof. exact (@main_positionals_in_signature_order_gen). Qed.
Print Assumptions C20_main_positionals_in_signature_order.

(* too few plain tokens (some positional-only parameter gets no block): exit status 2, the callable is not reached *)
Theorem C20_main_positionals_too_few_exit2 :
  forall (V K : Type) (cvt : K -> string -> res V) (veqb : V -> V -> bool) kof ona odflt ab (s : sig (stored V)) segs j more,
  sig_wf s = true -> po_required V s = true -> main_safe facts_gen s = true ->
  conv_exit2_only cvt (main_acts_gen kof ona odflt s) ->
  segs_rest ab (main_acts_gen kof ona odflt s) (positionals (main_acts_gen kof ona odflt s)) PStart segs = Some (j :: more) ->
  parse_argsP cvt veqb ab (main_acts_gen kof ona odflt s) (flatten_segs segs) = Err (Exit 2)
  /\ main_run facts_gen s (Err (Exit 2)) [] [] = (None, Err (Exit 2)).
Proof. exact (@main_positionals_too_few_safe_gen). Qed.
Print Assumptions C20_main_positionals_too_few_exit2.

(* non-vacuity: def f(a: int, b: str, /, c: str = 'c', *, d: int); fields a, b, d, c; argv 1 --d 4 zz --c x *)
Definition fp_sig : sig (stored ival) :=
  [mkparam "a" PosOnly AInt None Immut; mkparam "b" PosOnly AStr None Immut;
   mkparam "c" PosOrKw AStr (Some (SOne (VS "c"))) Immut; mkparam "d" KwOnly AInt None Immut].
Definition fp_kof (n : string) : iconv := if String.eqb n "a" || String.eqb n "d" then CInt else CStr.
Definition fp_acts := main_acts_gen fp_kof (fun _ => NaOne) (fun _ => SRaw "c") fp_sig.
Definition fp_segs : list seg := [SR [["1"]]; SG (mkgroup 2 "--d" ["4"]); SR [["zz"]]; SG (mkgroup 3 "--c" ["x"])].
Example C20_positionals_nonvacuous :
  sig_wf fp_sig = true /\ po_required ival fp_sig = true /\ main_safe facts_gen fp_sig = true
  /\ map a_dest fp_acts = ["a"; "b"; "d"; "c"] /\ positionals fp_acts = [0; 1]
  /\ flatten_segs fp_segs = ["1"; "--d"; "4"; "zz"; "--c"; "x"]
  /\ segs_ok true fp_acts fp_segs = true /\ all_blocks fp_segs = [["1"]; ["zz"]]
  /\ iparse_argsP true fp_acts (flatten_segs fp_segs)
     = Ok [("a", SOne (VI 1)); ("b", SOne (VS "zz")); ("d", SOne (VI 4)); ("c", SOne (VS "x"))]
  /\ segs_rest true fp_acts (positionals fp_acts) PStart [SR [["1"]]; SG (mkgroup 2 "--d" ["4"])] = Some [1]
  /\ iparse_argsP true fp_acts ["1"; "--d"; "4"] = Err (Exit 2).
Proof. vm_compute. repeat split; reflexivity. Qed.

(* non-vacuity: a signature with positional-only, defaulted and keyword-only parameters inside the theorems' domain *)
Example C20_nonvacuous :
  let s : sig string := [mkparam "a" PosOnly AInt None Immut; mkparam "b" PosOnly AFloat (Some "2.0") Immut;
                         mkparam "c" PosOrKw AStr (Some "c") Immut; mkparam "d" KwOnly AInt None Immut;
                         mkparam "e" KwOnly AInt (Some "5") Immut] in
  let vals := fun n => ("v_" ++ n)%string in
  sig_wf s = true /\ main_safe facts_gen s = true
  /\ map fl_name (main_fields facts_gen s) = ["a"; "d"; "b"; "c"; "e"]
  /\ main_run facts_gen s (Ok vals) [] []
     = (Some (mkcall ["v_a"; "v_b"] [("d", "v_d"); ("c", "v_c"); ("e", "v_e")]),
        Ok [("a", "v_a"); ("b", "v_b"); ("c", "v_c"); ("d", "v_d"); ("e", "v_e")])
  /\ map fl_name (cf_fields facts_gen ["a"; "b"] [] s) = ["d"; "c"; "e"]
  /\ cf_run facts_gen s ["a"; "b"] [] (Ok vals) ["given"] [("e", "site")]
     = (Some (mkcall ["given"] [("d", "v_d"); ("c", "v_c"); ("e", "site")]),
        Ok [("a", "given"); ("b", "2.0"); ("c", "v_c"); ("d", "v_d"); ("e", "site")]).
Proof. vm_compute. repeat split; reflexivity. Qed.
Print Assumptions C20_nonvacuous.
