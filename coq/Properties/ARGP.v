(* Properties/ARGP.v — auxiliary engine: the token-level argparse model satisfies the interface the SimpleParsing
   models assume (DESIGN section 2, I1-I6) and the composition theorem behind the per-field abstraction of
   Model/Leaf.v.  Only statements closed by `exact`, each followed by Print Assumptions.
   Everything holds for ANY value type V, converter description K, converter cvt and value equality veqb. *)
From Coq Require Import Permutation.
From SPV Require Import Base.Str Model.Namespace Model.LeafSpec Model.ArgparseM Model.ArgparseMSpec
     Proofs.ArgparseMProofs Proofs.ArgparsePipeline.
From SPV Require Import Model.ArgparsePos Model.ArgparsePosSpec Proofs.ArgparsePosProofs.

(* I1: empty argv yields the defaults, string defaults passed through the converter (not the choices);
   a missing required option is an error.  spec_empty is written per action, without the model's loops. *)
Theorem ARGP_I1_empty : forall V K (cvt : K -> string -> res V) veqb ab (acts : list (act V K)),
  NoDup (map a_dest acts) -> opts_dashed acts = true ->
  parse_args cvt veqb ab acts [] = spec_empty cvt veqb acts.
Proof. exact I1_empty. Qed.
Print Assumptions ARGP_I1_empty.

Theorem ARGP_I1_empty_known : forall V K (cvt : K -> string -> res V) veqb ab (acts : list (act V K)),
  NoDup (map a_dest acts) -> opts_dashed acts = true ->
  parse_known cvt veqb ab acts [] = match spec_empty cvt veqb acts with Ok n => Ok (n, []) | Err e => Err e end.
Proof. exact I1_empty_known. Qed.
Print Assumptions ARGP_I1_empty_known.

Theorem ARGP_I1_required : forall V K (cvt : K -> string -> res V) veqb ab (acts : list (act V K)) j a,
  NoDup (map a_dest acts) -> opts_dashed acts = true ->
  nth_error acts j = Some a -> a_req a = true -> exists e, parse_args cvt veqb ab acts [] = Err e.
Proof. exact I1_required. Qed.
Print Assumptions ARGP_I1_required.

(* I2: an exactly-spelled option followed by k argument-class tokens, k admissible for its nargs, the next token
   option-class or the end: exactly those tokens are consumed and only the option's destination is set *)
Theorem ARGP_I2_group_step : forall V K (cvt : K -> string -> res V) veqb (acts : list (act V K)) n seen ex i o a vs rest,
  nth_error acts i = Some a ->
  admissible (a_na a) (List.length vs) = true ->
  head_not_A rest ->
  run cvt veqb acts n seen ex 0 ((o, CO i o None) :: asA vs ++ rest) =
    match values_of cvt veqb a vs with
    | Ok v => run cvt veqb acts (set_ns n (a_dest a) v) (i :: seen) ex 0 rest
    | Err e => Err e
    end.
Proof. exact I2_group_step. Qed.
Print Assumptions ARGP_I2_group_step.

Theorem ARGP_I2_only_own_dest : forall V (n : ns (stored V)) d v d',
  d <> d' -> lookup d' (set_ns n d v) = lookup d' n.
Proof. exact I2_only_own_dest. Qed.
Print Assumptions ARGP_I2_only_own_dest.

(* the token-level reading of the hypotheses of I2: what the lexer makes of an exact option / plain tokens *)
Theorem ARGP_lex_exact : forall V K ab (acts : list (act V K)) o i,
  opts_dashed acts = true -> lookup_opt (all_opts 0 acts) o = Some i -> lex ab acts [o] = [(o, CO i o None)].
Proof. exact lex_exact. Qed.
Print Assumptions ARGP_lex_exact.
Theorem ARGP_lex_plain : forall V K ab (acts : list (act V K)) vs,
  tokens_plain ab acts vs = true -> lex ab acts vs = asA vs.
Proof. exact lex_plain. Qed.
Print Assumptions ARGP_lex_plain.

(* I3: `--opt=v` (or `-xv`) behaves as `--opt v` whenever the separate spelling would take exactly that token *)
Theorem ARGP_I3_eq_spelling : forall V K (cvt : K -> string -> res V) veqb (acts : list (act V K)) n seen ex t i o e a rest,
  nth_error acts i = Some a ->
  takes_one_of (a_na a) (count_A rest) = true ->
  run cvt veqb acts n seen ex 0 ((t, CO i o (Some e)) :: rest) =
  run cvt veqb acts n seen ex 0 ((o, CO i o None) :: (e, CA) :: rest).
Proof. exact I3_eq_spelling. Qed.
Print Assumptions ARGP_I3_eq_spelling.

(* I5: arity / converter / choices / required / leftovers => error *)
Theorem ARGP_I5_arity : forall V K (cvt : K -> string -> res V) veqb (acts : list (act V K)) n seen ex i o a rest,
  nth_error acts i = Some a -> count_for (a_na a) (count_A rest) = None ->
  run cvt veqb acts n seen ex 0 ((o, CO i o None) :: rest) = Err (Exit 2).
Proof. exact I5_arity. Qed.
Print Assumptions ARGP_I5_arity.
Theorem ARGP_I5_explicit_arity : forall V K (cvt : K -> string -> res V) veqb (acts : list (act V K)) n seen ex t i o e a rest,
  nth_error acts i = Some a -> count_for (a_na a) 1 <> Some 1 ->
  run cvt veqb acts n seen ex 0 ((t, CO i o (Some e)) :: rest) = Err (Exit 2).
Proof. exact I5_explicit_arity. Qed.
Print Assumptions ARGP_I5_explicit_arity.
Theorem ARGP_I5_converter : forall V K (cvt : K -> string -> res V) veqb (a : act V K) vs s e,
  In s vs -> cvt (a_cv a) s = Err e -> exists e', values_of cvt veqb a vs = Err e'.
Proof. exact I5_converter. Qed.
Print Assumptions ARGP_I5_converter.
Theorem ARGP_I5_exit2 : forall V K (cvt : K -> string -> res V) veqb (a : act V K) vs e,
  (forall s x, In s vs -> cvt (a_cv a) s = Err x -> x = Exit 2) -> values_of cvt veqb a vs = Err e -> e = Exit 2.
Proof. exact I5_exit2. Qed.
Print Assumptions ARGP_I5_exit2.
Theorem ARGP_I5_choices : forall V K (cvt : K -> string -> res V) veqb (a : act V K) s v,
  (a_na a = NaOne \/ a_na a = NaOpt) -> cvt (a_cv a) s = Ok v -> check_choice veqb a v = false ->
  values_of cvt veqb a [s] = Err (Exit 2).
Proof. exact I5_choices. Qed.
Print Assumptions ARGP_I5_choices.
Theorem ARGP_I5_required : forall V K (cvt : K -> string -> res V) veqb ab (acts : list (act V K)) gs j a,
  NoDup (map a_dest acts) -> opts_dashed acts = true -> forallb (group_ok ab acts) gs = true ->
  nth_error acts j = Some a -> a_req a = true -> ~ In j (map g_idx gs) ->
  exists e, parse_args cvt veqb ab acts (flatten gs) = Err e.
Proof. exact I5_required. Qed.
Print Assumptions ARGP_I5_required.
Theorem ARGP_I5_leftovers : forall V K (cvt : K -> string -> res V) veqb ab (acts : list (act V K)) argv n x ex,
  parse_known cvt veqb ab acts argv = Ok (n, x :: ex) -> parse_args cvt veqb ab acts argv = Err (Exit 2).
Proof. exact I5_leftovers. Qed.
Print Assumptions ARGP_I5_leftovers.

(* I6: a later occurrence of a destination overwrites the earlier one *)
Theorem ARGP_I6_overwrite : forall V K (cvt : K -> string -> res V) veqb (acts : list (act V K)) n seen ex i o1 o2 a vs1 vs2 rest,
  nth_error acts i = Some a ->
  admissible (a_na a) (List.length vs1) = true -> admissible (a_na a) (List.length vs2) = true ->
  head_not_A rest ->
  run cvt veqb acts n seen ex 0 (((o1, CO i o1 None) :: asA vs1) ++ ((o2, CO i o2 None) :: asA vs2) ++ rest) =
    match values_of cvt veqb a vs1 with
    | Err e => Err e
    | Ok _ => match values_of cvt veqb a vs2 with
              | Ok v2 => run cvt veqb acts (set_ns n (a_dest a) v2) (i :: i :: seen) ex 0 rest
              | Err e => Err e end
    end.
Proof. exact I6_overwrite. Qed.
Print Assumptions ARGP_I6_overwrite.

(* COMPOSITION.  Hypotheses: every option string of the parser starts with '-' (opts_dashed); every group g is
   well formed (group_ok): g_opt g is an option string of action number g_idx g spelled EXACTLY, the number of
   tokens is admissible for that action's nargs (count_for n k = Some k), and every token of g_toks g is
   argument-class for this parser (tokens_plain: classify gives CA; excluded are tokens that are or abbreviate
   an option string, `opt=...` spellings, glued `-xv`, unknown option-like tokens, and negative-number-like
   tokens when the parser has negative-number-like options).
   Conclusion: parse_args on the concatenation is the fold (Model/Namespace.v apply_all) of the per-group results
   over the initial namespace, followed by the final defaults/required loop; the first refused group ends the parse. *)
Theorem ARGP_composition : forall V K (cvt : K -> string -> res V) veqb ab (acts : list (act V K)) gs,
  opts_dashed acts = true ->
  forallb (group_ok ab acts) gs = true ->
  parse_args cvt veqb ab acts (flatten gs) =
    match group_values cvt veqb acts gs with
    | Err e => Err e
    | Ok occs => finish cvt 0 acts (rev (map g_idx gs)) (apply_all occs (init_ns acts)) false
    end.
Proof. exact composition. Qed.
Print Assumptions ARGP_composition.

Theorem ARGP_composition_known : forall V K (cvt : K -> string -> res V) veqb ab (acts : list (act V K)) gs,
  opts_dashed acts = true ->
  forallb (group_ok ab acts) gs = true ->
  parse_known cvt veqb ab acts (flatten gs) =
    match parse_args cvt veqb ab acts (flatten gs) with Ok n => Ok (n, []) | Err e => Err e end.
Proof. exact composition_known. Qed.
Print Assumptions ARGP_composition_known.

(* hence the per-field abstraction: with distinct destinations, each field's value is decided by its own last
   group (or its default); errors: written groups first, in argv order, then defaults, then "required" *)
Theorem ARGP_per_field : forall V K (cvt : K -> string -> res V) veqb ab (acts : list (act V K)) gs,
  NoDup (map a_dest acts) ->
  opts_dashed acts = true ->
  forallb (group_ok ab acts) gs = true ->
  parse_args cvt veqb ab acts (flatten gs) = spec_groups cvt veqb acts gs.
Proof. exact per_field. Qed.
Print Assumptions ARGP_per_field.

(* and permutation invariance for distinct destinations (NamespaceProofs.order_independent lifted) *)
Theorem ARGP_permutation_invariant : forall V K (cvt : K -> string -> res V) veqb ab (acts : list (act V K)) gs gs' n,
  opts_dashed acts = true ->
  forallb (group_ok ab acts) gs = true ->
  NoDup (dests_of acts gs) ->
  Permutation gs gs' ->
  parse_args cvt veqb ab acts (flatten gs) = Ok n ->
  exists n', parse_args cvt veqb ab acts (flatten gs') = Ok n' /\ forall d, lookup d n = lookup d n'.
Proof. exact permutation_invariant. Qed.
Print Assumptions ARGP_permutation_invariant.

(* which tokens are excluded: tokens_plain is implied by the syntactic condition of Model/LeafSpec.v
   (no leading '-' unless a plain negative number) when no option string looks like `-<digit>..` / `-.` *)
Theorem ARGP_tokens_plain_sufficient : forall V K ab (acts : list (act V K)) ts,
  opts_dashed acts = true -> digit_free_opts acts = true ->
  forallb token_plain ts = true -> tokens_plain ab acts ts = true.
Proof. exact tokens_plain_sufficient. Qed.
Print Assumptions ARGP_tokens_plain_sufficient.

(* I3 for a whole command line: rewriting `opt=v` / `-xv` groups into two tokens (where the separate spelling
   takes exactly that token: twin_ok) does not change parse_known_args *)
Theorem ARGP_I3_twin : forall V K (cvt : K -> string -> res V) veqb ab (acts : list (act V K)) argv argv',
  opts_dashed acts = true -> twin_ok ab acts argv argv' = true ->
  parse_known cvt veqb ab acts argv = parse_known cvt veqb ab acts argv'.
Proof. exact I3_twin. Qed.
Print Assumptions ARGP_I3_twin.

(* BRIDGE to Model/Leaf.v (C02/C04): for converters that do not depend on the token's position (everything but
   the heterogeneous-tuple converter KSeq), Leaf.take_values IS this model's value of one group *)
Theorem ARGP_bridge_take_values : forall str2bool enum_miss_cls (a : act value Leaf.conv) n k choices toks,
  a_na a = na_of n -> a_cv a = k -> a_choices a = choices_of choices -> idx_free str2bool enum_miss_cls k ->
  admissible (na_of n) (List.length toks) = true ->
  values_of (lcvt str2bool enum_miss_cls) value_eqb a toks = lift (Leaf.take_values str2bool enum_miss_cls n k choices toks).
Proof. exact bridge_take_values. Qed.
Print Assumptions ARGP_bridge_take_values.
Theorem ARGP_bridge_take_values_arity : forall str2bool enum_miss_cls n k choices toks,
  admissible (na_of n) (List.length toks) = false ->
  Leaf.take_values str2bool enum_miss_cls n k choices toks = Err (Exit 2).
Proof. exact bridge_take_values_arity. Qed.
Print Assumptions ARGP_bridge_take_values_arity.
Theorem ARGP_bridge_idx_free : forall str2bool enum_miss_cls k, no_seq k = true -> idx_free str2bool enum_miss_cls k.
Proof. exact no_seq_idx_free. Qed.
Print Assumptions ARGP_bridge_idx_free.
Theorem ARGP_bridge_group_step :
  forall str2bool enum_miss_cls (acts : list (act value Leaf.conv)) ns0 seen ex i o a n k choices toks rest,
  nth_error acts i = Some a ->
  a_na a = na_of n -> a_cv a = k -> a_choices a = choices_of choices -> idx_free str2bool enum_miss_cls k ->
  admissible (na_of n) (List.length toks) = true ->
  head_not_A rest ->
  run (lcvt str2bool enum_miss_cls) value_eqb acts ns0 seen ex 0 ((o, CO i o None) :: asA toks ++ rest) =
    match Leaf.take_values str2bool enum_miss_cls n k choices toks with
    | Ok r => run (lcvt str2bool enum_miss_cls) value_eqb acts (set_ns ns0 (a_dest a) (st_of r)) (i :: seen) ex 0 rest
    | Err e => Err e
    end.
Proof. exact bridge_group_step. Qed.
Print Assumptions ARGP_bridge_group_step.

(* PIPELINE: the per-field abstraction of CorrDefs/CorrC02.v (field_result / model_outcome) is a theorem about the
   token-level model.  fs: store fields (dest, Leaf.ty, default) with pairwise distinct dests; field_ok f: Leaf.arg_options
   gives a store action (no bool flag) whose converter is position-free (no_seq: no heterogeneous fixed tuple);
   cli_type is NOT needed.  acts_of_fields: one action `--dest`, nargs/converter/choices from Leaf.arg_options, not
   required, default as given (never an unconverted string).  Leaf.nargs has no `+`, so nargs `+` does not occur.
   gs: well-formed groups (group_ok: exact option, admissible count, tokens_plain).  leaf_outcome is written in Leaf
   vocabulary only: the first Err of Leaf.take_values over the groups in argv order, else for each field take_values
   of its LAST group, or its default when it is not mentioned.  For every str2bool / enum_miss_cls. *)
Theorem ARGP_leaf_pipeline : forall str2bool enum_miss_cls ab fs gs,
  NoDup (map lf_dest fs) ->
  forallb field_ok fs = true ->
  forallb (group_ok ab (acts_of_fields fs)) gs = true ->
  parse_args (lcvt str2bool enum_miss_cls) value_eqb ab (acts_of_fields fs) (flatten gs)
  = leaf_outcome str2bool enum_miss_cls fs gs.
Proof. exact leaf_pipeline. Qed.
Print Assumptions ARGP_leaf_pipeline.

Theorem ARGP_leaf_pipeline_field : forall str2bool enum_miss_cls ab fs gs n i f,
  NoDup (map lf_dest fs) -> forallb field_ok fs = true ->
  forallb (group_ok ab (acts_of_fields fs)) gs = true ->
  parse_args (lcvt str2bool enum_miss_cls) value_eqb ab (acts_of_fields fs) (flatten gs) = Ok n ->
  nth_error fs i = Some f ->
  exists x, leaf_field_result str2bool enum_miss_cls i f gs = Ok x /\ lookup (lf_dest f) n = Some (st_of x).
Proof. exact leaf_pipeline_field. Qed.
Print Assumptions ARGP_leaf_pipeline_field.

(* non-vacuity of the pipeline theorem: int, List[str], Optional[float]; a repeated option and negative numbers *)
Definition pl_fields : list lfield :=
  [ mklfield "lr" TInt (ROne (VInt 3)); mklfield "names" (TList TStr) (RMany []); mklfield "temp" (TOpt TFloat) RNone ].
Definition pl_groups : list group :=
  [ mkgroup 1 "--names" ["a"; "b c"]; mkgroup 2 "--temp" ["-2.5"]; mkgroup 0 "--lr" ["-5"]; mkgroup 1 "--names" ["z"] ].
Example ARGP_leaf_pipeline_nonvacuous :
  flatten pl_groups = ["--names"; "a"; "b c"; "--temp"; "-2.5"; "--lr"; "-5"; "--names"; "z"]
  /\ NoDup (map lf_dest pl_fields)
  /\ forallb field_ok pl_fields = true
  /\ forallb (fun f => cli_type (lf_ty f)) pl_fields = true
  /\ forallb (group_ok true (acts_of_fields pl_fields)) pl_groups = true
  /\ leaf_outcome (fun _ => None) "KeyError" pl_fields pl_groups =
       Ok [("lr", SOne (VInt (-5))); ("names", SMany [VStr "z"]); ("temp", SOne (VFlt true 2 "5"))]
  /\ parse_args (lcvt (fun _ => None) "KeyError") value_eqb true (acts_of_fields pl_fields) (flatten pl_groups) =
       Ok [("lr", SOne (VInt (-5))); ("names", SMany [VStr "z"]); ("temp", SOne (VFlt true 2 "5"))]
  /\ leaf_outcome (fun _ => None) "KeyError" pl_fields [mkgroup 0 "--lr" ["x"]; mkgroup 2 "--temp" ["1"]] = Err (Exit 2)
  /\ leaf_outcome (fun _ => None) "KeyError" pl_fields [] =
       Ok [("lr", SOne (VInt 3)); ("names", SMany []); ("temp", SNone)].
Proof.
  repeat split; try (vm_compute; reflexivity).
  apply str_nodupb_NoDup. vm_compute. reflexivity.
Qed.

(* non-vacuity: a realistic command line (repeated option, negative number, blank-containing token, list and
   fixed-arity options) satisfies every hypothesis, and the model answers what argparse answers on it *)
Definition ex_acts : list iact :=
  [ mkact ["--lr"; "-l"] "lr" NaOne CInt None (SRaw "3") false;
    mkact ["--names"] "names" NaStar CStr None (SMany []) false;
    mkact ["--seed"] "seed" NaOpt CInt None SNone true;
    mkact ["--shape"] "shape" (NaNum 2) CInt None SNone false;
    mkact ["--mode"] "mode" NaOne CStr (Some [VS "fast"; VS "slow"]) (SRaw "fast") false ].
Definition ex_groups : list group :=
  [ mkgroup 1 "--names" ["a"; "b c"]; mkgroup 2 "--seed" ["-5"]; mkgroup 3 "--shape" ["2"; "3"];
    mkgroup 1 "--names" ["z"]; mkgroup 4 "--mode" ["slow"] ].
Example ARGP_nonvacuous :
  flatten ex_groups = ["--names"; "a"; "b c"; "--seed"; "-5"; "--shape"; "2"; "3"; "--names"; "z"; "--mode"; "slow"]
  /\ opts_dashed ex_acts = true /\ digit_free_opts ex_acts = true
  /\ forallb (group_ok true ex_acts) ex_groups = true
  /\ forallb token_plain (List.concat (map g_toks ex_groups)) = true
  /\ NoDup (map a_dest ex_acts)
  /\ iparse_args true ex_acts (flatten ex_groups) =
       Ok [("lr", SOne (VI 3)); ("names", SMany [VS "z"]); ("seed", SOne (VI (-5))); ("shape", SMany [VI 2; VI 3]);
           ("mode", SOne (VS "slow"))]
  /\ recognise true ex_acts (flatten ex_groups) = Some ex_groups
  /\ iparse_args true ex_acts ["--seed"; "1"; "--mode"; "medium"] = Err (Exit 2).
Proof.
  repeat split; try (vm_compute; reflexivity).
  apply str_nodupb_NoDup. vm_compute. reflexivity.
Qed.
Print Assumptions ARGP_leaf_pipeline_nonvacuous.
Print Assumptions ARGP_nonvacuous.

(* ====================================================================== *)
(* POSITIONALS (Model/ArgparsePos.v: parse_knownP / parse_argsP)           *)
(* ====================================================================== *)
(* without positionals the extended model IS the model above: every theorem of this file holds for parse_argsP under
   the hypothesis no_positionals acts = true (composition, per_field, permutation_invariant, the pipeline theorems
   keep exactly that hypothesis; the statement that covers positionals is ARGP_positionals_in_order) *)
Theorem ARGP_no_positionals_same : forall V K (cvt : K -> string -> res V) veqb ab (acts : list (act V K)) argv,
  no_positionals acts = true -> parse_argsP cvt veqb ab acts argv = parse_args cvt veqb ab acts argv.
Proof. exact no_positionals_same. Qed.
Print Assumptions ARGP_no_positionals_same.
Theorem ARGP_no_positionals_same_known : forall V K (cvt : K -> string -> res V) veqb ab (acts : list (act V K)) argv,
  no_positionals acts = true -> parse_knownP cvt veqb ab acts argv = parse_known cvt veqb ab acts argv.
Proof. exact no_positionals_same_known. Qed.
Print Assumptions ARGP_no_positionals_same_known.

(* POSITIONALS IN ORDER.  acts: any mix of optionals and positionals with pairwise distinct destinations, every positional
   of fixed arity (nargs None or N >= 1: fixed_positionals).  segs: option groups (group_ok, as in ARGP_composition) and
   runs of blocks of argument-class tokens; segs_ok: the blocks, read left to right, have exactly the arities of the
   positionals in DECLARATION order and every positional gets one; a run stands at the start or right after a group
   whose option takes a fixed number of tokens (after a greedy ?/*/+ option the run would be eaten by the option), never
   after another run.  Conclusion: parse_args answers the per-field specification of the command line read as groups in
   which the i-th block belongs to the i-th positional (as_groups): each field is decided by its own last (pseudo-)group
   or its default; errors of segments first, in argv order. *)
Theorem ARGP_positionals_in_order : forall V K (cvt : K -> string -> res V) veqb ab (acts : list (act V K)) segs,
  NoDup (map a_dest acts) -> opts_dashed acts = true -> fixed_positionals acts = true ->
  segs_ok ab acts segs = true ->
  parse_argsP cvt veqb ab acts (flatten_segs segs) = spec_groups cvt veqb acts (as_groups (positionals acts) segs).
Proof. exact positionals_in_order. Qed.
Print Assumptions ARGP_positionals_in_order.

(* read field by field (usable for a positional j: its last pseudo-group is its block) *)
Theorem ARGP_spec_groups_lookup : forall V K (cvt : K -> string -> res V) veqb (acts : list (act V K)) gs l j a,
  NoDup (map a_dest acts) -> spec_groups cvt veqb acts gs = Ok l -> nth_error acts j = Some a ->
  exists v, lookup (a_dest a) l = Some v
            /\ match last_group j gs with
               | Some g => values_of cvt veqb a (g_toks g) = Ok v
               | None => a_req a = false /\ default_value cvt a = Ok v
               end.
Proof. exact spec_groups_lookup. Qed.
Print Assumptions ARGP_spec_groups_lookup.

(* too few blocks: some positional (required, as argparse derives for nargs None / N) did not get its block *)
Theorem ARGP_positionals_too_few : forall V K (cvt : K -> string -> res V) veqb ab (acts : list (act V K)) segs p rest,
  NoDup (map a_dest acts) -> opts_dashed acts = true -> fixed_positionals acts = true ->
  positionals_required acts = true ->
  segs_rest ab acts (positionals acts) PStart segs = Some (p :: rest) ->
  exists e, parse_argsP cvt veqb ab acts (flatten_segs segs) = Err e.
Proof. exact positionals_too_few. Qed.
Print Assumptions ARGP_positionals_too_few.
Theorem ARGP_positionals_too_few_exit2 : forall V K (cvt : K -> string -> res V) veqb ab (acts : list (act V K)) segs p rest,
  NoDup (map a_dest acts) -> opts_dashed acts = true -> fixed_positionals acts = true ->
  positionals_required acts = true -> conv_exit2_only cvt acts ->
  segs_rest ab acts (positionals acts) PStart segs = Some (p :: rest) ->
  parse_argsP cvt veqb ab acts (flatten_segs segs) = Err (Exit 2).
Proof. exact positionals_too_few_exit2. Qed.
Print Assumptions ARGP_positionals_too_few_exit2.

(* non-vacuity: two positionals (one token, two tokens) declared around two options; blocks at the start, after a
   fixed-arity group and at the end; the values land in declaration order *)
Definition px_acts : list iact :=
  [ mkact [] "src" NaOne CStr None SNone true;
    mkact ["--lr"] "lr" NaOne CInt None (SRaw "3") false;
    mkact [] "size" (NaNum 2) CInt None SNone true;
    mkact ["--names"] "names" NaStar CStr None (SMany []) false;
    mkact [] "dst" NaOne CStr None SNone true ].
Definition px_segs : list seg :=
  [ SR [["a.txt"]]; SG (mkgroup 1 "--lr" ["5"]); SR [["-2"; "7"]]; SG (mkgroup 3 "--names" ["x"; "y"]);
    SG (mkgroup 1 "--lr" ["6"]); SR [["b.txt"]] ].
Example ARGP_positionals_nonvacuous :
  flatten_segs px_segs = ["a.txt"; "--lr"; "5"; "-2"; "7"; "--names"; "x"; "y"; "--lr"; "6"; "b.txt"]
  /\ positionals px_acts = [0; 2; 4]
  /\ NoDup (map a_dest px_acts) /\ opts_dashed px_acts = true /\ fixed_positionals px_acts = true
  /\ positionals_required px_acts = true
  /\ segs_ok true px_acts px_segs = true
  /\ as_groups (positionals px_acts) px_segs =
       [mkgroup 0 "" ["a.txt"]; mkgroup 1 "--lr" ["5"]; mkgroup 2 "" ["-2"; "7"]; mkgroup 3 "--names" ["x"; "y"];
        mkgroup 1 "--lr" ["6"]; mkgroup 4 "" ["b.txt"]]
  /\ iparse_argsP true px_acts (flatten_segs px_segs) =
       Ok [("src", SOne (VS "a.txt")); ("lr", SOne (VI 6)); ("size", SMany [VI (-2); VI 7]); ("names", SMany [VS "x"; VS "y"]);
           ("dst", SOne (VS "b.txt"))]
  /\ recogniseP true px_acts (flatten_segs px_segs) = Some px_segs
  (* too few *)
  /\ segs_rest true px_acts (positionals px_acts) PStart [SR [["a.txt"]; ["1"; "2"]]; SG (mkgroup 1 "--lr" ["5"])] = Some [4]
  /\ iparse_argsP true px_acts ["a.txt"; "1"; "2"; "--lr"; "5"] = Err (Exit 2)
  (* too many: a leftover *)
  /\ iparse_argsP true px_acts ["a.txt"; "1"; "2"; "b.txt"; "extra"] = Err (Exit 2).
Proof.
  repeat split; try (vm_compute; reflexivity).
  apply str_nodupb_NoDup. vm_compute. reflexivity.
Qed.
Print Assumptions ARGP_positionals_nonvacuous.
