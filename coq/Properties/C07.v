(* Properties/C07.v — a subgroup / sub-command choice selects the type, its defaults and its options.
   Only statements closed by `exact`, each followed by Print Assumptions.  All of them are about the model
   instantiated with the facts regenerated from the source (round_gen, resolve_gen, final_gen, parse_gen,
   cmd_parse_gen), for EVERY subgroup tree (dc / sgfs / alts: any number of fields, alternatives, any nesting depth;
   proofs by mutual induction on the tree and induction on the fuel), every option table and every command line.

   Vocabulary.  `tb` maps a written option to the destination it is a spelling of (read from the implementation in
   the correspondence; arbitrary here).  `xgiven tb argv q` = the values written for destination q, options read
   exactly.  `intents_of tb argv` = the command line as (destination, value) pairs.  `sp_dc`/`spec` = the top-down
   specification (Model/SubgroupsSpec.v): spec_key = last key given else declared default, unknown key -> reject;
   value = what the chosen entry produces (type defaults / partial overrides / the frozen instance's values),
   overridden by exactly the options passed for that group; every written option must denote a leaf or a subgroup
   field of the selected configuration.  `no_abbrev tb argv root d fuel` = once the set-up is complete, every written
   option is a registered spelling or not a prefix of any registered spelling, i.e. the main parser reads nothing as
   an abbreviation (`plain tb argv`, nothing written is a proper prefix of any spelling in tb, is sufficient).
   argparse's prefix matching on the main parser is set aside by the property, hence the `_partial` statements. *)
From SPV Require Import Base.Str Model.Subgroups Model.SubgroupsSpec Gen.FactsSubgroups Proofs.SubgroupsProofs.

(* ---------- C07_fuel: the `itertools.count()` loop terminates; measure = nesting depth of what is unresolved ---------- *)
Theorem C07_fuel_measure : forall tb argv root d d',
  round_gen tb argv root d = Ok d' -> depth_dc d' <= Nat.pred (depth_dc d).
Proof. exact (round_measure sub_abbrev_gen inst_default_gen preset_wins_gen validates_gen). Qed.
Print Assumptions C07_fuel_measure.

Theorem C07_fuel_done : forall d, unres_dc d = false <-> depth_dc d = 0.
Proof. exact (proj1 unres_depth). Qed.
Print Assumptions C07_fuel_done.

(* (nesting depth) rounds suffice, and more fuel changes nothing *)
Theorem C07_fuel : forall tb argv root fuel d,
  depth_dc d <= fuel ->
  resolve_gen fuel tb argv root d <> Err OutOfFuel
  /\ resolve_gen fuel tb argv root d = resolve_gen (depth_dc d) tb argv root d.
Proof. exact (resolve_fuel sub_abbrev_gen inst_default_gen preset_wins_gen validates_gen setup_sees_argv_gen). Qed.
Print Assumptions C07_fuel.

(* ---------- C07_key: every subgroup, at any depth, gets the last key given for it, else its declared default;
   the declared tree is only annotated (erase_dc r = d), nothing stays unresolved ---------- *)
Theorem C07_key : forall tb argv root d fuel,
  declared_dc d = true -> wf_dc d = true -> str_nodupb (map fst tb) = true -> depth_dc d <= fuel ->
  forall r, resolve_gen fuel tb argv root d = Ok r ->
  erase_dc r = d /\ unres_dc r = false
  /\ forall i, In i (sg_info_dc root r) ->
       exists k, i_key i = Some k /\ spec_key (i_dflt i) (i_keys i) (xgiven tb argv (i_path i)) = Some k.
Proof. exact resolved_keys_spec. Qed.
Print Assumptions C07_key.

(* unknown key => Exit 2; required key missing => Exit 2 (and every other command line the specification rejects) *)
Theorem C07_key_rejected_partial : forall tb argv root d fuel,
  declared_dc d = true -> wf_dc d = true -> str_nodupb (map fst tb) = true -> depth_dc d <= fuel ->
  no_abbrev tb argv root d fuel = true ->
  spec d root (intents_of tb argv) = MustReject ->
  parse_gen fuel tb argv root d = Err (Exit 2).
Proof. exact rejected_partial. Qed.
Print Assumptions C07_key_rejected_partial.

(* ---------- C07_value, C07_namespace: a completed parse builds exactly the value the specification computes top-down
   over the declared tree, and `namespace.subgroups` is the list of (destination, chosen key), for every subgroup ---------- *)
Theorem C07_value_namespace_partial : forall tb argv root d fuel,
  declared_dc d = true -> wf_dc d = true -> str_nodupb (map fst tb) = true -> depth_dc d <= fuel ->
  forall r v rep, plain_for tb (registered_gen root r) argv = true ->
  resolve_gen fuel tb argv root d = Ok r -> final_gen tb argv root r = Ok (v, rep) ->
  rep = chosen_of (sg_info_dc root r)
  /\ exists lp soft, sp_dc (intents_of tb argv) root SType d = Some (v, rep, lp, soft).
Proof. exact value_namespace. Qed.
Print Assumptions C07_value_namespace_partial.

(* with abbreviations the statement is false of the code: `--mod kb` is ignored by the rounds (allow_abbrev=False)
   but read by the main parser, so `subgroups` reports a key that was not used to build the value *)
Theorem C07_namespace_refuted :
  exists tb argv root d fuel r v rep,
    declared_dc d = true /\ wf_dc d = true /\ str_nodupb (map fst tb) = true /\ depth_dc d <= fuel /\
    resolve_gen fuel tb argv root d = Ok r /\ final_gen tb argv root r = Ok (v, rep) /\
    rep <> chosen_of (sg_info_dc root r).
Proof. exact namespace_refuted. Qed.
Print Assumptions C07_namespace_refuted.

(* ---------- the model meets the specification on every declared tree and every command line the main parser reads
   without abbreviations (argparse's prefix matching is set aside by the property) ---------- *)
Theorem C07_meets_spec_partial : forall tb argv root d fuel,
  declared_dc d = true -> wf_dc d = true -> str_nodupb (map fst tb) = true -> depth_dc d <= fuel ->
  no_abbrev tb argv root d fuel = true ->
  expect_allows (spec d root (intents_of tb argv)) (parse_gen fuel tb argv root d) = true.
Proof. exact meets_spec_partial. Qed.
Print Assumptions C07_meets_spec_partial.

Theorem C07_plain_no_abbrev : forall tb argv root d fuel, plain tb argv = true -> no_abbrev tb argv root d fuel = true.
Proof. exact plain_no_abbrev. Qed.
Print Assumptions C07_plain_no_abbrev.

(* ... and a parse ends with a value or with argparse's error, never with an exception - on EVERY declared tree,
   every table and every command line.  (Before the repair of DataclassWrapper this needed the side condition "no
   frozen-instance entry has a defaulted subgroup field directly inside": the round's own assertion failed there;
   the witness W_CRASH is now part of C07_nonvacuous and of corpus/C07.) *)
Theorem C07_no_crash : forall tb argv root d fuel,
  declared_dc d = true -> wf_dc d = true -> str_nodupb (map fst tb) = true -> depth_dc d <= fuel ->
  (exists x, parse_gen fuel tb argv root d = Ok x) \/ parse_gen fuel tb argv root d = Err (Exit 2).
Proof. exact no_crash. Qed.
Print Assumptions C07_no_crash.

(* ---------- C07_foreign_rejected: an option that no registered spelling starts with is refused, for every resolved
   tree and every table - in particular the options that exist only in an unchosen alternative, since the model
   registers exactly `registered root r` (the leaves and subgroup fields of the chosen entries) ---------- *)
Theorem C07_foreign_rejected : forall tb argv root r o v,
  In (o, v) argv ->
  (forall e, In e tb -> prefixb o (fst e) = true -> ~ In (snd e) (registered_gen root r)) ->
  final_gen tb argv root r = Err (Exit 2).
Proof. exact foreign_rejected. Qed.
Print Assumptions C07_foreign_rejected.

(* why the hypothesis speaks of prefixes and not only of "not registered": `--lr` exists only in the unchosen Sgd, the
   chosen Adam registers `--lrd`, and the main parser reads `--lr 5` as `--lrd 5` - argparse's documented prefix
   matching, which the property sets aside (not a defect; the specification is silent about such command lines) *)
Theorem C07_foreign_prefix_witness :
  exists tb argv root d fuel r o v q x,
    declared_dc d = true /\ wf_dc d = true /\ str_nodupb (map fst tb) = true /\ depth_dc d <= fuel /\
    resolve_gen fuel tb argv root d = Ok r /\ In (o, v) argv /\ exact tb o = Some q /\ ~ In q (registered_gen root r) /\
    final_gen tb argv root r = Ok x.
Proof. exact foreign_exact_refuted. Qed.
Print Assumptions C07_foreign_prefix_witness.

(* ---------- Union[A, B] fields: sub-command names as keys.  PARTIAL: how argparse cuts the command line at the
   sub-command token (everything after it goes to the member's own parser) is an input of the model here and is
   covered by the correspondence only. ---------- *)
Theorem C07_cmd_selects_partial : forall ptab stabs cname pleaves cf before k after c l,
  forallb (flat_ok main_abbrev_gen ptab) before = true ->
  assoc_str k (cf_table cf) = Some (c, l) ->
  forallb (flat_ok main_abbrev_gen (match assoc_str k stabs with Some s => s | None => [] end)) after = true ->
  cmd_parse_gen cname pleaves cf ptab stabs before (Some k) after =
  Ok (V cname (flat_val main_abbrev_gen ptab before pleaves)
        (VCons (cf_name cf)
               (V c (flat_val main_abbrev_gen (match assoc_str k stabs with Some s => s | None => [] end) after l) VNil) VNil)).
Proof. exact cmd_selects. Qed.
Print Assumptions C07_cmd_selects_partial.

Theorem C07_cmd_unknown_partial : forall ptab stabs cname pleaves cf before k after,
  assoc_str k (cf_table cf) = None ->
  cmd_parse_gen cname pleaves cf ptab stabs before (Some k) after = Err (Exit 2).
Proof. exact cmd_unknown. Qed.
Print Assumptions C07_cmd_unknown_partial.

Theorem C07_cmd_required_partial : forall ptab stabs cname pleaves cf before,
  cf_default cf = None ->
  cmd_parse_gen cname pleaves cf ptab stabs before None [] = Err (Exit 2).
Proof. exact cmd_required. Qed.
Print Assumptions C07_cmd_required_partial.

(* the chosen member's options are only valid after the sub-command token, another member's nowhere *)
Theorem C07_cmd_foreign_after_partial : forall ptab stabs cname pleaves cf before k after o v,
  In (o, v) after ->
  (forall e, In e (match assoc_str k stabs with Some s => s | None => [] end) -> prefixb o (fst e) = false) ->
  cmd_parse_gen cname pleaves cf ptab stabs before (Some k) after = Err (Exit 2).
Proof. exact cmd_foreign_after. Qed.
Print Assumptions C07_cmd_foreign_after_partial.

Theorem C07_cmd_foreign_before_partial : forall ptab stabs cname pleaves cf before name after o v,
  In (o, v) before -> (forall e, In e ptab -> prefixb o (fst e) = false) ->
  cmd_parse_gen cname pleaves cf ptab stabs before name after = Err (Exit 2).
Proof. exact cmd_foreign_before. Qed.
Print Assumptions C07_cmd_foreign_before_partial.

(* ---------- non-vacuity: a depth-2 tree with the three kinds of entries, inside every hypothesis above ---------- *)
Definition NV_TREE : dc :=
  Dc "Cfg" [("seed", 0%Z)]
     (SUn "model" None
          (ACons "big" (SPartial [("width", 9%Z)])
                 (Dc "Big" [("width", 5%Z); ("lr", 6%Z)]
                     (SUn "opt" (Some "sgd")
                          (ACons "sgd" SType (Dc "Sgd" [("lr", 1%Z); ("mom", 2%Z)] SNil)
                          (ACons "adam" (SInst [("lr", 11%Z); ("beta", 22%Z)]) (Dc "Adam" [("lr", 10%Z); ("beta", 20%Z)] SNil) ANil))
                          SNil))
          (ACons "small" SType (Dc "Sgd" [("lr", 1%Z); ("mom", 2%Z)] SNil) ANil))
          SNil).
Definition NV_TB : optab :=
  [("--seed", ["c"; "seed"]); ("--model", ["c"; "model"]); ("--width", ["c"; "model"; "width"]);
   ("--model.lr", ["c"; "model"; "lr"]); ("--opt", ["c"; "model"; "opt"]); ("--opt.lr", ["c"; "model"; "opt"; "lr"]);
   ("--beta", ["c"; "model"; "opt"; "beta"]); ("--mom", ["c"; "model"; "opt"; "mom"])].
Definition NV_ARGV : list tok :=
  [("--model", "small"); ("--opt", "adam"); ("--model", "big"); ("--beta", "3"); ("--model.lr", "4")].

Example C07_nonvacuous :
  declared_dc NV_TREE = true /\ wf_dc NV_TREE = true
  /\ str_nodupb (map fst NV_TB) = true /\ no_abbrev NV_TB NV_ARGV ["c"] NV_TREE 2 = true /\ depth_dc NV_TREE = 2
  /\ parse_gen 2 NV_TB NV_ARGV ["c"] NV_TREE =
     Ok (V "Cfg" [("seed", 0%Z)]
           (VCons "model"
                  (V "Big" [("width", 9%Z); ("lr", 4%Z)]
                     (VCons "opt" (V "Adam" [("lr", 11%Z); ("beta", 3%Z)] VNil) VNil)) VNil),
         [(["c"; "model"], "big"); (["c"; "model"; "opt"], "adam")])
  /\ spec NV_TREE ["c"] (intents_of NV_TB NV_ARGV) =
     MustBe (V "Cfg" [("seed", 0%Z)]
               (VCons "model"
                      (V "Big" [("width", 9%Z); ("lr", 4%Z)]
                         (VCons "opt" (V "Adam" [("lr", 11%Z); ("beta", 3%Z)] VNil) VNil)) VNil))
            [(["c"; "model"], "big"); (["c"; "model"; "opt"], "adam")]
  (* an unknown key, a missing required key and an option of the unchosen `small` are specification-rejected and end
     with Exit 2; one round is not enough for this tree *)
  /\ spec NV_TREE ["c"] (intents_of NV_TB [("--model", "huge")]) = MustReject
  /\ parse_gen 2 NV_TB [("--model", "huge")] ["c"] NV_TREE = Err (Exit 2)
  /\ parse_gen 2 NV_TB [] ["c"] NV_TREE = Err (Exit 2)
  /\ parse_gen 2 NV_TB [("--model", "small"); ("--width", "3")] ["c"] NV_TREE = Err (Exit 2)
  /\ resolve_gen 1 NV_TB NV_ARGV ["c"] NV_TREE = Err OutOfFuel
  (* the former crash witness: a frozen-instance entry whose class has a defaulted subgroup field *)
  /\ parse_gen 2 [("--m", ["c"; "m"]); ("--inner", ["c"; "m"; "inner"])] [] ["c"] W_CRASH =
     Ok (V "T" [] (VCons "m" (V "A" [("x", 7%Z)] (VCons "inner" (V "L" [("y", 2%Z)] VNil) VNil)) VNil),
         [(["c"; "m"], "ia"); (["c"; "m"; "inner"], "i1")])
  /\ cmd_parse_gen "Par" [("x", 9%Z)] (mkcmd "cmd" [("alpha", ("Alpha", [("lr", 1%Z)])); ("beta", ("Beta", [("mom", 2%Z)]))] None)
                   [("--x", "x")] [("alpha", [("--lr", "lr")]); ("beta", [("--mom", "mom")])]
                   [("--x", "4")] (Some "beta") [("--mom", "5")]
     = Ok (V "Par" [("x", 4%Z)] (VCons "cmd" (V "Beta" [("mom", 5%Z)] VNil) VNil)).
Proof. vm_compute. repeat split; reflexivity. Qed.
Print Assumptions C07_nonvacuous.

(* ---------- the regenerated source (Gen/FactsSubgroupsSrc.v, dumped by harness/translate/SubgroupsSrc.py) ----------
   Two straight-line pieces of simple_parsing/parsing.py are dumped statement by statement into MiniPy and executed
   by the MiniPy interpreter; the theorems say what they compute for EVERY namespace / table.
   (a) `_remove_subgroups_from_namespace` (whole method): every subgroup destination moves from the namespace into
       namespace.subgroups, in order; `_get_subgroup_fields` is an uninterpreted table.
   (b) the per-field classification inside `_resolve_subgroups` (from `subgroup_dict = ...` to the last assert):
       the key left in the namespace by the throw-away parser is looked up in the choice table exactly like
       Subgroups.find_alt (unknown key -> AssertionError, as in round_sg), and (default, dataclass_fn, dataclass_type)
       handed to `_add_arguments` are determined as stated by classify_fn.  is_dataclass_instance, is_dataclass_type,
       callable, type are uninterpreted tables; functools.partial(dataclasses.replace, d) is a record.
   The round loop itself (parse_known_args, wrapper construction, parent._children) is NOT dumped: SubgroupsSrc.py
   only pins its shape (one parse_known_args(args=args, namespace=namespace) on never re-bound parameters, the
   itertools.count() loop with its single `if not unresolved_subgroups: break`). *)
From SPV Require Import Model.MiniPy Gen.FactsSubgroupsSrc Proofs.MiniPySubgroups.

Theorem C07_source_remove_subgroups_is_model : forall wrappers table cls ns ds,
  dget wrappers table = Some (VL (map VS ds)) ->
  final_ns (exec_block (rm_env (VR "ArgumentParser" [("_wrappers", wrappers)]) table cls ns) remove_subgroups_src)
  = match remove_fn cls ns ds with Ok ns' => Ok (VR cls ns') | Err z => Err z end.
Proof. exact remove_subgroups_is_model. Qed.
Print Assumptions C07_source_remove_subgroups_is_model.

Theorem C07_source_classify_is_model : forall T choices types cls ns dest,
  match classify_fn T choices types ns dest with
  | Err z => exec_block (cl_env T choices types cls ns dest) classify_src = Err z
  | Ok (dflt, fn, ty) =>
      exists r1, exec_block (cl_env T choices types cls ns dest) classify_src = Ok (r1, None)
                 /\ lookup "default" r1 = Some dflt /\ lookup "dataclass_fn" r1 = Some fn /\ lookup "dataclass_type" r1 = Some ty
  end.
Proof. exact classify_is_model. Qed.
Print Assumptions C07_source_classify_is_model.

Theorem C07_source_classify_key_is_find_alt : forall entry T types ns dest k t,
  rget dest ns = Some (VS k) ->
  match find_alt k t with
  | None => classify_fn T (enc_alts entry t) types ns dest = Err (Raise "AssertionError")
  | Some (s, d) => classify_fn T (enc_alts entry t) types ns dest = classify_fn T [(VS k, entry s d)] types ns dest
  end.
Proof. exact classify_key_is_find_alt. Qed.
Print Assumptions C07_source_classify_key_is_find_alt.

(* non-vacuity: the dumped statements run.  A namespace with two subgroup destinations; a choice table with a
   dataclass type ("small") and a frozen instance ("big"); an unknown key is the AssertionError. *)
Definition NVS_T : cl_tables :=
  mktabs [(VC "Small", VB false); (VR "Big" [("w", VN 3)], VB true)]
         [(VC "Small", VB true); (VC "Big", VB true)]
         [(VC "Small", VB true); (VR "functools.partial" [("func", VC "dataclasses.replace"); ("arg", VR "Big" [("w", VN 3)])], VB true)]
         [(VR "Big" [("w", VN 3)], VC "Big")].
Definition NVS_CHOICES : list (MiniPy.val * MiniPy.val) := [(VS "small", VC "Small"); (VS "big", VR "Big" [("w", VN 3)])].
Definition NVS_TYPES : list (MiniPy.val * MiniPy.val) := [(VS "small", VC "Small"); (VS "big", VC "Big")].
Example C07_source_nonvacuous :
  final_ns (exec_block (rm_env (VR "ArgumentParser" [("_wrappers", VS "ws")]) [(VS "ws", VL [VS "c.m"; VS "c.o"])] "Namespace"
                               [("c.m", VS "small"); ("x", VN 1); ("c.o", VS "adam")]) remove_subgroups_src)
  = Ok (VR "Namespace" [("x", VN 1); ("subgroups", VD [(VS "c.m", VS "small"); (VS "c.o", VS "adam")])])
  /\ final_ns (exec_block (rm_env (VR "ArgumentParser" [("_wrappers", VS "ws")]) [(VS "ws", VL [])] "Namespace"
                               [("x", VN 1)]) remove_subgroups_src)
  = Ok (VR "Namespace" [("x", VN 1)])
  /\ final_ns (exec_block (rm_env (VR "ArgumentParser" [("_wrappers", VS "ws")]) [(VS "ws", VL [VS "c.m"])] "Namespace"
                               [("x", VN 1)]) remove_subgroups_src)
  = Err (Raise "AttributeError")
  /\ classify_fn NVS_T NVS_CHOICES NVS_TYPES [("c.m", VS "small")] "c.m" = Ok (VNone, VC "Small", VC "Small")
  /\ classify_fn NVS_T NVS_CHOICES NVS_TYPES [("c.m", VS "big")] "c.m"
     = Ok (VR "Big" [("w", VN 3)], VR "functools.partial" [("func", VC "dataclasses.replace"); ("arg", VR "Big" [("w", VN 3)])], VC "Big")
  /\ classify_fn NVS_T NVS_CHOICES NVS_TYPES [("c.m", VS "huge")] "c.m" = Err (Raise "AssertionError")
  /\ exec_block (cl_env NVS_T NVS_CHOICES NVS_TYPES "Namespace" [("c.m", VS "huge")] "c.m") classify_src = Err (Raise "AssertionError")
  /\ (exists r1, exec_block (cl_env NVS_T NVS_CHOICES NVS_TYPES "Namespace" [("c.m", VS "big")] "c.m") classify_src = Ok (r1, None)
                 /\ lookup "dataclass_type" r1 = Some (VC "Big")).
Proof. repeat split; try (vm_compute; reflexivity). eexists. split; vm_compute; reflexivity. Qed.
Print Assumptions C07_source_nonvacuous.
