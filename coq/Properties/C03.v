(* Properties/C03.v — conflict resolution.  Statements only; `opts` (how a field wrapper's option strings are
   computed from its prefix) is universally quantified, the resolver's constants are the regenerated facts. *)
From SPV Require Import Base.Str Model.OptStr Gen.FactsConflicts Proofs.ConflictsProofs.

(* set-up succeeded => every registered option string belongs to exactly one field wrapper *)
Theorem C03_resolved_options_unique : forall opts m fs fs',
  resolve_gen opts m fs = Ok fs' -> NoDup (List.concat (map opts fs')).
Proof. exact resolve_ok_nodup. Qed.
Print Assumptions C03_resolved_options_unique.

(* resolution only ever changes prefixes: same leaves, same order, same names and destinations *)
Theorem C03_frame : forall opts m fs fs',
  resolve_gen opts m fs = Ok fs' -> map shape fs' = map shape fs.
Proof. exact resolve_frame. Qed.
Print Assumptions C03_frame.

(* NONE raises exactly when a clash exists, otherwise leaves the wrappers untouched *)
Theorem C03_none_iff_clash : forall opts fs,
  resolve_gen opts CRNone fs = match get_conflict opts fs with None => Ok fs | Some _ => Err CRE end.
Proof. exact none_iff_clash. Qed.
Print Assumptions C03_none_iff_clash.

(* a reported conflict is real: the option string is registered, by at least two holders *)
Theorem C03_conflict_is_real : forall opts fs o ids,
  get_conflict opts fs = Some (o, ids) -> In o (List.concat (map opts fs)) /\ 1 < List.length ids.
Proof. exact conflict_is_real. Qed.
Print Assumptions C03_conflict_is_real.

(* the only way set-up fails is a ConflictResolutionError (any mode, any user prefixes, any fuel) *)
Theorem C03_errors_are_CRE : forall opts m fuel fs e, loop_gen opts m fuel fs = Err e -> e = CRE.
Proof. exact errors_are_CRE. Qed.
Print Assumptions C03_errors_are_CRE.

(* absent user prefixes, every final prefix consists of the last k words of the destination path ... *)
Theorem C03_auto_suffix : forall opts m fs fs',
  Forall (fun f => pfx f = "") fs -> resolve_gen opts m fs = Ok fs' -> Forall Inv fs'.
Proof. exact auto_suffix. Qed.
Print Assumptions C03_auto_suffix.

(* ... so every generated name is a dotted suffix of the field's destination path *)
Theorem C03_suffix_name : forall f, suffix_pfx f ->
  exists ws, (exists pre, path f = (pre ++ ws)%list) /\ pfx f ++ name f = join_dot (ws ++ [name f]).
Proof. exact suffix_name. Qed.
Print Assumptions C03_suffix_name.

(* EXPLICIT: no prefix or the full destination path, nothing in between *)
Theorem C03_explicit_full : forall opts fs fs',
  Forall (fun f => pfx f = "") fs -> resolve_gen opts CRExplicit fs = Ok fs' -> Forall Full fs'.
Proof. exact explicit_full. Qed.
Print Assumptions C03_explicit_full.

(* an option string of a successfully set-up parser belongs to exactly one field wrapper (so passing it addresses one leaf:
   with Model/Namespace.v's store semantics, C02_mentioned_gets_value / C02_unmentioned_keeps_default, nothing else changes) *)
Theorem C03_option_identifies_field : forall opts m fs fs' i j o,
  resolve_gen opts m fs = Ok fs' ->
  In o (nth i (map opts fs') []) -> In o (nth j (map opts fs') []) -> i = j.
Proof. exact option_identifies_field. Qed.
Print Assumptions C03_option_identifies_field.

(* Absent user-supplied prefixes, a field whose name clashes with nothing keeps its bare name: for every forest of plain fields
   (no aliases, not positional, dot-free names), under the parser's default spelling configuration, any resolution mode. *)
Theorem C03_unclashed_keeps_bare_name : forall m fs fs' i,
  Forall (fun f => pfx f = "") fs -> Forall wf_fw fs -> Forall plainfw fs -> Forall (fun f => nodot (name f) = true) fs ->
  (forall j, j <> i -> j < List.length fs -> name (nth_fw fs j) <> name (nth_fw fs i)) ->
  resolve_gen (option_strings default_cfg_parser) m fs = Ok fs' ->
  pfx (nth_fw fs' i) = "".
Proof. exact unclashed_bare_default. Qed.
Print Assumptions C03_unclashed_keeps_bare_name.

(* non-vacuity: two destinations sharing a nested class; AUTO resolves it with one lineage word *)
Example C03_nonvacuous :
  let fs := [mkfw ["a"; "m"] "x" "" [] false; mkfw ["b"; "m"] "x" "" [] false; mkfw ["b"] "y" "" [] false] in
  option_map (map pfx) (match resolve_gen (option_strings default_cfg_parser) CRAuto fs with Ok r => Some r | Err _ => None end)
  = Some ["a.m."; "b.m."; ""]
  /\ Forall (fun f => pfx f = "") fs.
Proof. split; [vm_compute; reflexivity | repeat constructor]. Qed.
Print Assumptions C03_nonvacuous.
