(* Properties/C03.v — conflict resolution.  Statements only; `opts` (how a field wrapper's option strings are
   computed from its prefix) is universally quantified, the resolver's constants are the regenerated facts. *)
From SPV Require Import Model.Namespace Model.ArgparseM Model.ArgparseMSpec.
From SPV Require Import Base.Str Model.OptStr Gen.FactsConflicts Proofs.ConflictsProofs.
From SPV Require Import Proofs.OptionEffect.

(* set-up succeeded => every registered option string belongs to exactly one field wrapper *)
Theorem C03_resolved_options_unique : forall opts m fs fs',
  resolve_gen opts m fs = Ok fs' -> NoDup (List.concat (map opts fs')).
Proof. exact resolve_ok_nodup. Qed.
Print Assumptions C03_resolved_options_unique.

(* resolution only ever changes prefixes: same leaves, same order, same names and destinations *)
Theorem C03_frame : forall opts m fs fs',
  resolve_gen opts m fs = Ok fs' -> map shape fs' = map shape fs.
Proof. exact resolve_frame. Qed.
Print Assumptions C03_frame.

(* NONE raises exactly when a clash exists, otherwise leaves the wrappers untouched *)
Theorem C03_none_iff_clash : forall opts fs,
  resolve_gen opts CRNone fs = match get_conflict opts fs with None => Ok fs | Some _ => Err CRE end.
Proof. exact none_iff_clash. Qed.
Print Assumptions C03_none_iff_clash.

(* a reported conflict is real: the option string is registered, by at least two holders *)
Theorem C03_conflict_is_real : forall opts fs o ids,
  get_conflict opts fs = Some (o, ids) -> In o (List.concat (map opts fs)) /\ 1 < List.length ids.
Proof. exact conflict_is_real. Qed.
Print Assumptions C03_conflict_is_real.

(* the only way set-up fails is a ConflictResolutionError (any mode, any user prefixes, any fuel) *)
Theorem C03_errors_are_CRE : forall opts m fuel fs e, loop_gen opts m fuel fs = Err e -> e = CRE.
Proof. exact errors_are_CRE. Qed.
Print Assumptions C03_errors_are_CRE.

(* absent user prefixes, every final prefix consists of the last k words of the destination path ... *)
Theorem C03_auto_suffix : forall opts m fs fs',
  Forall (fun f => pfx f = "") fs -> resolve_gen opts m fs = Ok fs' -> Forall Inv fs'.
Proof. exact auto_suffix. Qed.
Print Assumptions C03_auto_suffix.

(* ... so every generated name is a dotted suffix of the field's destination path *)
Theorem C03_suffix_name : forall f, suffix_pfx f ->
  exists ws, (exists pre, path f = (pre ++ ws)%list) /\ pfx f ++ name f = join_dot (ws ++ [name f]).
Proof. exact suffix_name. Qed.
Print Assumptions C03_suffix_name.

(* EXPLICIT: no prefix or the full destination path, nothing in between *)
Theorem C03_explicit_full : forall opts fs fs',
  Forall (fun f => pfx f = "") fs -> resolve_gen opts CRExplicit fs = Ok fs' -> Forall Full fs'.
Proof. exact explicit_full. Qed.
Print Assumptions C03_explicit_full.

(* an option string of a successfully set-up parser belongs to exactly one field wrapper (so passing it addresses one leaf:
   with Model/Namespace.v's store semantics, C02_mentioned_gets_value / C02_unmentioned_keeps_default, nothing else changes) *)
Theorem C03_option_identifies_field : forall opts m fs fs' i j o,
  resolve_gen opts m fs = Ok fs' ->
  In o (nth i (map opts fs') []) -> In o (nth j (map opts fs') []) -> i = j.
Proof. exact option_identifies_field. Qed.
Print Assumptions C03_option_identifies_field.

(* Absent user-supplied prefixes, a field whose name clashes with nothing keeps its bare name: for every forest of plain fields
   (no aliases, not positional, dot-free names), under the parser's default spelling configuration, any resolution mode. *)
Theorem C03_unclashed_keeps_bare_name : forall m fs fs' i,
  Forall (fun f => pfx f = "") fs -> Forall wf_fw fs -> Forall plainfw fs -> Forall (fun f => nodot (name f) = true) fs ->
  (forall j, j <> i -> j < List.length fs -> name (nth_fw fs j) <> name (nth_fw fs i)) ->
  resolve_gen (option_strings default_cfg_parser) m fs = Ok fs' ->
  pfx (nth_fw fs' i) = "".
Proof. exact unclashed_bare_default. Qed.
Print Assumptions C03_unclashed_keeps_bare_name.

(* ACROSS THE TWO ENGINES (resolver model + token-level argparse model, Model/ArgparseM.v).  The wrappers of a resolved forest fs'
   are registered as argparse store actions (acts_of_forest: option strings `opts f`, destination = the dotted destination, nargs None,
   converter k, string default d0, not required).  For every mode, forest, field number i, option string o of that field and value
   token v: `o v` parses; the addressed leaf holds the converted token; every other leaf holds the converted default; and against the
   namespace n0 of the empty command line NO key other than that destination differs.
   Side conditions: forest_dashed (every registered option string starts with '-'), destinations of the input forest pairwise distinct,
   v lexes as an argument for this parser (tok_plain, as in ARGP), the converter accepts v and d0. *)
Theorem C03_option_changes_exactly_its_leaf :
  forall (V K : Type) (cvt : K -> string -> res V) (veqb : V -> V -> bool) (opts : fw -> list string) (k : K) (d0 : string)
         (m : crmode) (fs fs' : list fw),
  resolve_gen opts m fs = Ok fs' ->
  forest_dashed opts fs' = true ->
  NoDup (map dest fs) ->
  forall (ab : bool) (i : nat) (o v : string) (cv cd : V),
  In o (nth i (map opts fs') []) ->
  tok_plain ab (acts_of_forest V K opts k d0 fs') v = true ->
  cvt k v = Ok cv -> cvt k d0 = Ok cd ->
  exists n n0,
    parse_args cvt veqb ab (acts_of_forest V K opts k d0 fs') [o; v] = Ok n
    /\ parse_args cvt veqb ab (acts_of_forest V K opts k d0 fs') [] = Ok n0
    /\ lookup (dest (nth_fw fs' i)) n = Some (SOne cv)
    /\ (forall j, j <> i -> j < List.length fs' -> lookup (dest (nth_fw fs' j)) n = Some (SOne cd))
    /\ (forall d, d <> dest (nth_fw fs' i) -> lookup d n = lookup d n0).
Proof. exact option_changes_exactly_its_leaf. Qed.
Print Assumptions C03_option_changes_exactly_its_leaf.

(* the same for the one-token spelling `o=v` (any registered option string without '=' in it, single or double dash),
   provided the whole token is not itself a registered option string *)
Theorem C03_option_changes_exactly_its_leaf_eq_spelling :
  forall (V K : Type) (cvt : K -> string -> res V) (veqb : V -> V -> bool) (opts : fw -> list string) (k : K) (d0 : string)
         (m : crmode) (fs fs' : list fw),
  resolve_gen opts m fs = Ok fs' ->
  forest_dashed opts fs' = true ->
  NoDup (map dest fs) ->
  forall (ab : bool) (i : nat) (o v : string) (cv cd : V),
  In o (nth i (map opts fs') []) ->
  tok_plain ab (acts_of_forest V K opts k d0 fs') v = true ->
  cvt k v = Ok cv -> cvt k d0 = Ok cd ->
  has_char "="%char o = false ->
  str_in (o ++ "=" ++ v) (List.concat (map opts fs')) = false ->
  exists n n0,
    parse_args cvt veqb ab (acts_of_forest V K opts k d0 fs') [o ++ "=" ++ v] = Ok n
    /\ parse_args cvt veqb ab (acts_of_forest V K opts k d0 fs') [] = Ok n0
    /\ lookup (dest (nth_fw fs' i)) n = Some (SOne cv)
    /\ (forall j, j <> i -> j < List.length fs' -> lookup (dest (nth_fw fs' j)) n = Some (SOne cd))
    /\ (forall d, d <> dest (nth_fw fs' i) -> lookup d n = lookup d n0).
Proof. exact option_changes_exactly_its_leaf_eq_spelling. Qed.
Print Assumptions C03_option_changes_exactly_its_leaf_eq_spelling.

(* with the GENERATED option strings (Model/OptStr.v, any spelling configuration c) the first two hypotheses are theorems:
   no positional field => every option string starts with '-'; dot-free path words and names with pairwise distinct
   (path, name) pairs => pairwise distinct destinations (resolution keeps paths and names: C03_frame) *)
Theorem C03_generated_option_changes_exactly_its_leaf :
  forall (V K : Type) (cvt : K -> string -> res V) (veqb : V -> V -> bool) (c : cfg) (k : K) (d0 : string)
         (m : crmode) (fs fs' : list fw) (ab : bool) (i : nat) (o v : string) (cv cd : V),
  resolve_gen (option_strings c) m fs = Ok fs' ->
  no_positional fs = true ->
  forallb words_nodot fs = true ->
  NoDup (map (fun f => (path f, name f)) fs) ->
  In o (nth i (map (option_strings c) fs') []) ->
  tok_plain ab (acts_of_forest V K (option_strings c) k d0 fs') v = true ->
  cvt k v = Ok cv -> cvt k d0 = Ok cd ->
  exists n n0,
    parse_args cvt veqb ab (acts_of_forest V K (option_strings c) k d0 fs') [o; v] = Ok n
    /\ parse_args cvt veqb ab (acts_of_forest V K (option_strings c) k d0 fs') [] = Ok n0
    /\ lookup (dest (nth_fw fs' i)) n = Some (SOne cv)
    /\ (forall j, j <> i -> j < List.length fs' -> lookup (dest (nth_fw fs' j)) n = Some (SOne cd))
    /\ (forall d, d <> dest (nth_fw fs' i) -> lookup d n = lookup d n0).
Proof. exact generated_option_changes_exactly_its_leaf. Qed.
Print Assumptions C03_generated_option_changes_exactly_its_leaf.

Theorem C03_generated_option_changes_exactly_its_leaf_eq_spelling :
  forall (V K : Type) (cvt : K -> string -> res V) (veqb : V -> V -> bool) (c : cfg) (k : K) (d0 : string)
         (m : crmode) (fs fs' : list fw) (ab : bool) (i : nat) (o v : string) (cv cd : V),
  resolve_gen (option_strings c) m fs = Ok fs' ->
  no_positional fs = true ->
  forallb words_nodot fs = true ->
  NoDup (map (fun f => (path f, name f)) fs) ->
  In o (nth i (map (option_strings c) fs') []) ->
  tok_plain ab (acts_of_forest V K (option_strings c) k d0 fs') v = true ->
  cvt k v = Ok cv -> cvt k d0 = Ok cd ->
  has_char "="%char o = false ->
  str_in (o ++ "=" ++ v) (List.concat (map (option_strings c) fs')) = false ->
  exists n n0,
    parse_args cvt veqb ab (acts_of_forest V K (option_strings c) k d0 fs') [o ++ "=" ++ v] = Ok n
    /\ parse_args cvt veqb ab (acts_of_forest V K (option_strings c) k d0 fs') [] = Ok n0
    /\ lookup (dest (nth_fw fs' i)) n = Some (SOne cv)
    /\ (forall j, j <> i -> j < List.length fs' -> lookup (dest (nth_fw fs' j)) n = Some (SOne cd))
    /\ (forall d, d <> dest (nth_fw fs' i) -> lookup d n = lookup d n0).
Proof. exact generated_option_changes_exactly_its_leaf_eq_spelling. Qed.
Print Assumptions C03_generated_option_changes_exactly_its_leaf_eq_spelling.

(* non-vacuity of the cross-engine theorems: the forest of C03_nonvacuous below, AUTO, the parser's default spelling, type=int with
   default "3"; every hypothesis holds for field 0, its option `--a.m.x` and the token `-5`, in both spellings *)
Example C03_effect_nonvacuous :
  let fs := [mkfw ["a"; "m"] "x" "" [] false; mkfw ["b"; "m"] "x" "" [] false; mkfw ["b"] "y" "" [] false] in
  let fs' := [mkfw ["a"; "m"] "x" "a.m." [] false; mkfw ["b"; "m"] "x" "b.m." [] false; mkfw ["b"] "y" "" [] false] in
  let c := default_cfg_parser in
  let acts := acts_of_forest ival iconv (option_strings c) CInt "3" fs' in
  resolve_gen (option_strings c) CRAuto fs = Ok fs'
  /\ no_positional fs = true /\ forallb words_nodot fs = true
  /\ NoDup (map (fun f => (path f, name f)) fs)
  /\ map (option_strings c) fs' = [["-a.m.x"; "--a.m.x"]; ["-b.m.x"; "--b.m.x"]; ["-y"; "--y"]]
  /\ In "--a.m.x" (nth 0 (map (option_strings c) fs') [])
  /\ tok_plain true acts "-5" = true
  /\ icvt CInt "-5" = Ok (VI (-5)) /\ icvt CInt "3" = Ok (VI 3)
  /\ has_char "="%char "--a.m.x" = false
  /\ str_in ("--a.m.x" ++ "=" ++ "-5") (List.concat (map (option_strings c) fs')) = false
  /\ iparse_args true acts [] = Ok [("a.m.x", SOne (VI 3)); ("b.m.x", SOne (VI 3)); ("b.y", SOne (VI 3))]
  /\ iparse_args true acts ["--a.m.x"; "-5"] = Ok [("a.m.x", SOne (VI (-5))); ("b.m.x", SOne (VI 3)); ("b.y", SOne (VI 3))]
  /\ iparse_args true acts ["--a.m.x=-5"] = Ok [("a.m.x", SOne (VI (-5))); ("b.m.x", SOne (VI 3)); ("b.y", SOne (VI 3))].
Proof.
  cbv zeta. repeat split; try (vm_compute; reflexivity).
  - apply NoDup_cons; [|apply NoDup_cons; [|apply NoDup_cons; [|apply NoDup_nil]]]; cbn; intuition discriminate.
  - vm_compute. right. left. reflexivity.
Qed.
Print Assumptions C03_effect_nonvacuous.

(* non-vacuity: two destinations sharing a nested class; AUTO resolves it with one lineage word *)
Example C03_nonvacuous :
  let fs := [mkfw ["a"; "m"] "x" "" [] false; mkfw ["b"; "m"] "x" "" [] false; mkfw ["b"] "y" "" [] false] in
  option_map (map pfx) (match resolve_gen (option_strings default_cfg_parser) CRAuto fs with Ok r => Some r | Err _ => None end)
  = Some ["a.m."; "b.m."; ""]
  /\ Forall (fun f => pfx f = "") fs.
Proof. split; [vm_compute; reflexivity | repeat constructor]. Qed.
Print Assumptions C03_nonvacuous.

(* The tie to the code for the conflict resolver, as THEOREMS about the regenerated source (harness/translate/ConflictsSrc.py
   dumps ConflictResolver.get_conflict, _fix_conflict_explicit, _fix_conflict_auto, _conflict_exists and the loop of
   resolve_and_flatten on every run).  The FieldWrapper objects live in ONE store (key = position in the flat list = the model's
   identity); a reference is a key; `field_wrapper.option_strings` runs the dump of FieldWrapper.option_strings itself, so these
   theorems compose with C10_source_is_model.  Proved so far: get_conflict (against the dict-of-lists function get_conflict_fn:
   insertion order of the option strings, first one held by two references) and _fix_conflict_auto (against Model/OptStr.v
   fix_auto instantiated with the regenerated facts).  Hypotheses: the references are in range and pairwise distinct (refs_ok:
   what `assert len(field_wrappers) == len(set(field_wrappers))` checks), and a conflict has at least two holders. *)
From SPV Require Import Model.MiniPy Gen.FactsConflictsSrc Proofs.MiniPyConflicts.
Theorem C03_source_get_conflict_refs : forall c fs selfv ids,
  refs_ok (List.length fs) ids = true ->
  exists r1, MiniPy.exec_block (gc_env c fs selfv (VL (map VN ids))) get_conflict_src = Ok (r1, Some (enc_conflict (get_conflict_fn c fs ids))).
Proof. exact get_conflict_refs. Qed.
Print Assumptions C03_source_get_conflict_refs.

Theorem C03_source_get_conflict_wrappers : forall c fs selfv gs,
  refs_ok (List.length fs) (List.concat gs) = true ->
  exists r1, MiniPy.exec_block (gc_env c fs selfv (VL (map enc_group gs))) get_conflict_src
             = Ok (r1, Some (enc_conflict (get_conflict_fn c fs (List.concat gs)))).
Proof. exact get_conflict_groups. Qed.
Print Assumptions C03_source_get_conflict_wrappers.

Theorem C03_source_fix_auto_is_model : forall c fs selfv o ids,
  refs_ok (List.length fs) ids = true -> 2 <= List.length ids ->
  final_store (MiniPy.exec_block (fa_env c fs selfv o ids) fix_conflict_auto_src)
  = match fix_auto auto_index_gen exhausted_err_gen skip_first_strict_gen fs ids with
    | Ok fs' => Ok (store c fs')
    | Err e => Err (enc_err e)
    end.
Proof. exact fix_auto_is_model. Qed.
Print Assumptions C03_source_fix_auto_is_model.

(* the loop of resolve_and_flatten, as a term over the dumped methods (a syntactic pin: the semantic composition is still open) *)
Theorem C03_source_loop_skeleton :
  resolve_src =
  [gc_call "conflict" (EVar "wrappers_flat");
   SAssign "cur_attempts" (ENat 0);
   SWhile resolver_max_attempts (EVar "conflict")
     [SIf (mode_is "ConflictResolution.NONE") [SRaise "ConflictResolutionError"]
        [SIf (mode_is "ConflictResolution.EXPLICIT") [fix_call fix_conflict_explicit_src]
           [SIf (mode_is "ConflictResolution.ALWAYS_MERGE") [SRaise "MergeNotModelled"]
              [SIf (mode_is "ConflictResolution.AUTO") [fix_call fix_conflict_auto_src] []]]];
      gc_call "conflict" (EVar "wrappers_flat");
      SAssign "cur_attempts" (EAdd (EVar "cur_attempts") (ENat 1));
      SIf (EEq (EVar "cur_attempts") (EAttr (EVar "self") "max_attempts")) [SRaise "ConflictResolutionError"] []];
   SCallRet "result of self._conflict_exists" conflict_exists_src
     [("FIELDS", EVar "FIELDS"); ("self", EVar "self"); ("all_wrappers", EVar "wrappers_flat")] [];
   SAssert (ENot (EVar "result of self._conflict_exists"));
   SReturn (EVar "wrappers_flat")]
  /\ resolver_max_attempts = max_attempts_gen.
Proof. exact resolve_skeleton. Qed.
Print Assumptions C03_source_loop_skeleton.

(* ---- the whole resolver: the C03 theorems above are about the regenerated source ---- *)
From SPV Require Import Proofs.MiniPyOptStr Proofs.MiniPyResolve.
(* get_conflict_fn (what the dumped get_conflict returns) on all positions in order IS the model's get_conflict *)
Theorem C03_source_get_conflict_is_model : forall c fs,
  get_conflict_fn c fs (seq 0 (List.length fs)) = get_conflict (option_strings c) fs.
Proof. exact get_conflict_fn_all. Qed.
Print Assumptions C03_source_get_conflict_is_model.

Theorem C03_source_fix_explicit_is_model : forall c fs selfv o ids,
  refs_ok (List.length fs) ids = true ->
  final_store (MiniPy.exec_block (fa_env c fs selfv o ids) fix_conflict_explicit_src)
  = match fix_explicit (option_strings c) fs o ids with
    | Ok fs' => Ok (store c fs')
    | Err e => Err (enc_err e)
    end.
Proof. exact fix_explicit_is_model. Qed.
Print Assumptions C03_source_fix_explicit_is_model.

(* resolve_and_flatten from its first get_conflict on, run by the MiniPy interpreter in the environment FIELDS (the flat list of
   field wrappers as a store), self (conflict_resolution = the mode, max_attempts = the regenerated fact), wrappers_flat (dataclass
   wrappers whose `fields` are the positions 0..n-1 in order: flat_ok): it returns wrappers_flat and leaves exactly the store the
   model resolve_gen computes - or raises ConflictResolutionError exactly when the model says Err CRE (a clash in NONE mode, an
   unfixable conflict, exhaustion of max_attempts).  The final `assert not self._conflict_exists(..)` never fires; the fuel of
   the while loop is never exhausted (OutOfFuel is not a possible outcome). *)
Theorem C03_source_is_model : forall c m fs gs,
  flat_ok (List.length fs) gs = true ->
  match resolve_gen (option_strings c) m fs with
  | Ok fs' => exists r1, MiniPy.exec_block (resolve_env c m fs gs) resolve_src = Ok (r1, Some (VL (map enc_group gs)))
                         /\ lookup "FIELDS" r1 = Some (store c fs')
  | Err e => MiniPy.exec_block (resolve_env c m fs gs) resolve_src = Err (enc_err e)
  end.
Proof. exact resolve_src_is_model. Qed.
Print Assumptions C03_source_is_model.

Theorem C03_source_resolved_options_unique : forall c m fs gs r1 v,
  flat_ok (List.length fs) gs = true ->
  MiniPy.exec_block (resolve_env c m fs gs) resolve_src = Ok (r1, v) ->
  exists fs', lookup "FIELDS" r1 = Some (store c fs') /\ resolve_gen (option_strings c) m fs = Ok fs'
              /\ NoDup (List.concat (map (option_strings c) fs'))
              /\ Forall (fun f => run_src c f = Ok (VL (map VS (option_strings c f)))) fs'.
Proof. exact source_resolved_options_unique. Qed.
Print Assumptions C03_source_resolved_options_unique.

Theorem C03_source_none_iff_clash : forall c fs gs,
  flat_ok (List.length fs) gs = true ->
  match get_conflict (option_strings c) fs with
  | None => exists r1, MiniPy.exec_block (resolve_env c CRNone fs gs) resolve_src = Ok (r1, Some (VL (map enc_group gs)))
                       /\ lookup "FIELDS" r1 = Some (store c fs)
  | Some _ => MiniPy.exec_block (resolve_env c CRNone fs gs) resolve_src = Err cre
  end.
Proof. exact source_none_iff_clash. Qed.
Print Assumptions C03_source_none_iff_clash.

Example C03_source_nonvacuous :
  let fs := [mkfw ["a"] "x" "" [] false; mkfw ["b"] "x" "" [] false; mkfw ["b"] "y" "" [] false] in
  flat_ok 3 [[0]; [1; 2]] = true
  /\ match MiniPy.exec_block (resolve_env default_cfg_parser CRAuto fs [[0]; [1; 2]]) resolve_src with
     | Ok (r1, _) => lookup "FIELDS" r1
     | Err _ => None
     end = Some (store default_cfg_parser [mkfw ["a"] "x" "a." [] false; mkfw ["b"] "x" "b." [] false; mkfw ["b"] "y" "" [] false])
  /\ MiniPy.exec_block (resolve_env default_cfg_parser CRNone fs [[0]; [1; 2]]) resolve_src = Err cre.
Proof. vm_compute. repeat split; reflexivity. Qed.
Print Assumptions C03_source_nonvacuous.
