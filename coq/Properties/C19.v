(* Properties/C19.v — a field's help text comes from its own documentation, by fixed precedence.
   Only statements closed by `exact`, each followed by Print Assumptions. *)
From SPV Require Import Base.Str Model.DocScan Model.DocScanSpec Gen.FactsDoc Proofs.DocScanProofs.

(* Printer/scanner round trip, for EVERY well-formed layout (any number of fields, any blank lines, comment
   blocks, inline comments, one-line / multi-line docstrings in either quote style, any header lines that are
   not field definitions and carry no comment): the scanner (with the literals regenerated from the source)
   returns exactly the documentation written for the queried field - nothing from another field, nothing
   invented - and None exactly when the class does not declare the field.
   wf_layout is a boolean predicate: docstring texts without '#', ':', '=', quote characters, newlines; comment
   texts (block above, inline) without newlines ('#', ':', '=', quote characters, whole triple-quote tokens allowed)
   and non-empty; no
   white space at the ends of a text; identifiers as field names; annotation text
   without '#', ':', '='; DEFAULT-VALUE text arbitrary as long as every '#' in it is inside a closed string
   literal (single, double or triple quotes, escaped quotes and backslashes: the predicate `closed`, computed
   with the regenerated loop body of _split_at_comment). *)
Theorem C19_scan_render : forall L f,
  wf_layout L = true -> scan_lines_gen (render L) f = option_map triple (docs L f).
Proof. exact scan_render. Qed.
Print Assumptions C19_scan_render.

(* the same for _get_attribute_docstring on a class whose source (class docstring cut out) is the printed
   layout; the class-docstring entry is the oracle's (docstring_parser) answer for that very field, and a class
   that does not declare the field still answers with that entry alone *)
Theorem C19_scan_class_render : forall k L f,
  wf_layout L = true -> code_lines k = Some (render L) ->
  scan_class_gen k f = scan_of (docs L f, last_assoc f (k_args k) "").
Proof. exact scan_class_render. Qed.
Print Assumptions C19_scan_class_render.

(* help precedence: the regenerated or-chain of FieldWrapper.help IS the documented order
   (help=, docstring below, comment above, inline comment, class-docstring entry; nothing -> no help) *)
Theorem C19_precedence : forall explicit d, help_gen explicit d = spec_help explicit (parts_prov d).
Proof. exact help_precedence. Qed.
Print Assumptions C19_precedence.

(* ... and the help= the argparse action finally receives (regenerated: the if-chain of FieldWrapper.get_arg_options,
   overlaid with field(help=..) by FieldWrapper.arg_options) is that text, whichever way the explicit help= was given
   (custom: field(help=..), explicit: dataclasses metadata); a field without documentation gets no help, or the
   placeholder that the help formatter erases again.  Side condition: the help= given to field() is not the EMPTY string *)
Theorem C19_shown_help_partial : forall custom explicit d has_default,
  custom_ok custom = true ->
  final_help_gen custom (action_help_gen (help_gen explicit d) has_default)
  = match spec_help (explicit_help custom explicit) (parts_prov d) with
    | Some s => Some s
    | None => if has_default then Some PLACEHOLDER else None
    end.
Proof. exact shown_help_spec. Qed.
Print Assumptions C19_shown_help_partial.

(* field(help="") replaces the documentation by an empty help *)
Theorem C19_shown_help_refuted :
  exists custom explicit d hd,
    final_help_gen custom (action_help_gen (help_gen explicit d) hd)
    <> match spec_help (explicit_help custom explicit) (parts_prov d) with
       | Some s => Some s
       | None => if hd then Some PLACEHOLDER else None
       end.
Proof. exact shown_help_refuted. Qed.
Print Assumptions C19_shown_help_refuted.

Theorem C19_help_string_chain : HELP_STRING_CHAIN = HELP_CHAIN.
Proof. exact help_string_chain_same. Qed.
Print Assumptions C19_help_string_chain.

(* MRO accumulation: every part is the first non-empty one among the classes of the chain, nearest first *)
Theorem C19_accumulation : forall scans p,
  get_part p (result_of (acc_pure_gen scans None)) = nearest_part p scans.
Proof. exact nearest_class. Qed.
Print Assumptions C19_accumulation.

(* against the spec, full strength: each kind of documentation comes from the nearest class of the chain that
   PROVIDES it - next to its own declaration, or in its class docstring whether or not it re-declares the field.
   chain: per class (documentation next to the declaration or None, class-docstring entry). *)
Theorem C19_nearest_class : forall chain,
  parts_prov (result_of (acc_pure_gen (map scan_of chain) None)) = spec_parts (map prov_of chain).
Proof. exact nearest_class_spec. Qed.
Print Assumptions C19_nearest_class.

(* the lru_cache: a query is the pure accumulation over the MRO ... *)
Theorem C19_query_pure : forall scan mro,
  fst (get_doc_gen scan mro []) = result_of (acc_pure_gen (map scan mro) None).
Proof. exact get_doc_pure. Qed.
Print Assumptions C19_query_pure.

(* ... and answers are history independent: any classes, any hierarchy (multiple inheritance included), any order
   of earlier queries - the accumulated object is a copy, cached objects are never modified *)
Theorem C19_history_independent : forall scan qs,
  run_queries_gen scan qs [] = map (fun mro => fst (get_doc_gen scan mro [])) qs.
Proof. exact history_independent. Qed.
Print Assumptions C19_history_independent.

(* non-vacuity: a concrete layout inside the theorem's domain, what it prints and what the scanner answers *)
Definition demo : layout :=
  mklayout ["@dataclass(frozen=True)"; "class Opt(Base):  # noqa"; "    """""""; """"""""] 4
    [ mkfld "lr" "float" (Some "1e-3") 0 ["learning rate: see #12"; "use """""" or ''' here, it's fine"] (Some "inline lr = base # x") None;
      mkfld "lr_decay" "float" None 1 [] None (Some (DMulti Sq "" ["decay of lr"; ""; "more"] ""));
      mkfld "name" "str" (Some """run #1""") 2 ["above name"] (Some "which run") (Some (DOne Dq "doc of name"));
      mkfld "pat" "str" (Some "'it\'s #' + '''a#b'''") 0 [] None None ] 1.

Example C19_nonvacuous :
  wf_layout demo = true
  /\ render demo = ["@dataclass(frozen=True)"; "class Opt(Base):  # noqa"; "    """""""; """""""";
                    "    # learning rate: see #12"; "    # use """""" or ''' here, it's fine"; "    lr: float = 1e-3  # inline lr = base # x";
                    ""; "    lr_decay: float"; "    '''"; "    decay of lr"; "    "; "    more"; "    '''";
                    ""; ""; "    # above name"; "    name: str = ""run #1""  # which run"; "    """"""doc of name""""""";
                    "    pat: str = 'it\'s #' + '''a#b'''"; ""]
  /\ scan_lines_gen (render demo) "lr" = Some (join_text ["learning rate: see #12"; "use """""" or ''' here, it's fine"], "inline lr = base # x", "")
  /\ scan_lines_gen (render demo) "lr_decay" = Some ("", "", join_text [""; "decay of lr"; ""; "more"; ""])
  /\ scan_lines_gen (render demo) "name" = Some ("above name", "which run", "doc of name")
  /\ scan_lines_gen (render demo) "pat" = Some ("", "", "")
  /\ scan_lines_gen (render demo) "l" = None
  (* the former counterexamples, now positive instances: B(A) documents inherited x only in its class docstring *)
  /\ p_cls (result_of (acc_pure_gen (map scan_of [(None, "entry in B"); (Some (mkfdoc "" "" ""), "entry in A")]) None))
     = "entry in B"
  (* D(A, X) queried before A: A.x does not show X's docstring *)
  /\ p_below (nth 1 (run_queries_gen
                       (fun k => if String.eqb k "A" then Some (mkparts "" "inline of A.x" "" "")
                                 else if String.eqb k "X" then Some (mkparts "" "" "below of X.x" "") else None)
                       [["D"; "A"; "X"]; ["A"]] []) EMPTY_PARTS) = "".
Proof. vm_compute. repeat split; reflexivity. Qed.
Print Assumptions C19_nonvacuous.

(* ---------- the regenerated source of the scanner's helpers (Gen/FactsDocSrc.v, dumped by harness/translate/DocSrc.py) ----------
   Each helper of simple_parsing/docstring.py is dumped statement by statement into MiniPy and executed by the MiniPy interpreter
   (Model/MiniPy.v; a call of another helper runs the callee's dumped body).  The theorems say that, for EVERY line / list of lines,
   the result is the corresponding function of the hand model Model/DocScan.v instantiated with the regenerated facts: the fields
   v_isdef, v_empty, v_iscomment, v_defname, v_comment, v_inline of `view_gen`.  `_split_at_comment` is the character loop with the
   quote state: the source's while loop equals split_run split_step_gen (hypothesis: the line is no longer than the loop bound
   doc_while_fuel = 4096 of the dump).  Strings are byte strings; strip / isidentifier are their ASCII readings.
   The two line loops are bridged further down (Proofs/MiniPyDocScan.v): `_get_docstring_starting_at_line` = doc_open and
   `_get_comment_ending_at_line` = comment_above, by induction over the lines; the enumerate / filter loop of
   `_get_attribute_docstring` itself (inspect.getsource, dp_parse, str.replace, splitlines) is NOT dumped. *)
From SPV Require Import Model.MiniPy Gen.FactsDocSrc Proofs.MiniPyDoc.

Theorem C19_source_contains_field_definition_is_model : forall line,
  MiniPy.run [("line", VS line)] contains_field_definition_src = Ok (VB (contains_def_gen line)).
Proof. exact contains_field_definition_is_model. Qed.
Print Assumptions C19_source_contains_field_definition_is_model.

Theorem C19_source_is_empty_is_model : forall line,
  MiniPy.run [("line_str", VS line)] is_empty_src = Ok (VB (v_empty (view_gen line))).
Proof. exact is_empty_is_model. Qed.
Print Assumptions C19_source_is_empty_is_model.

Theorem C19_source_is_comment_is_model : forall line,
  MiniPy.run [("line_str", VS line)] is_comment_src = Ok (VB (v_iscomment (view_gen line))).
Proof. exact is_comment_is_model. Qed.
Print Assumptions C19_source_is_comment_is_model.

Theorem C19_source_split_at_comment_is_model : forall line,
  String.length line <= doc_while_fuel ->
  MiniPy.run [("line", VS line)] split_at_comment_src = Ok (enc_split line (split_run split_step_gen line None false)).
Proof. exact split_at_comment_is_model. Qed.
Print Assumptions C19_source_split_at_comment_is_model.

Theorem C19_source_line_contains_definition_for_is_model : forall line f,
  MiniPy.run [("line", VS line); ("field_name", VS f)] line_contains_definition_for_src
  = Ok (VB (match v_defname (view_gen line) with Some n => String.eqb n f | None => false end)).
Proof. exact line_contains_definition_for_is_model. Qed.
Print Assumptions C19_source_line_contains_definition_for_is_model.

Theorem C19_source_get_comment_at_line_is_model : forall lines n,
  MiniPy.run [("code_lines", VL (map VS lines)); ("line", VN n)] get_comment_at_line_src
  = match nth_error lines n with
    | None => Err (Raise "IndexError")
    | Some l => if v_isdef (view_gen l) then Err (Raise "AssertionError") else Ok (VS (v_comment (view_gen l)))
    end.
Proof. exact get_comment_at_line_is_model. Qed.
Print Assumptions C19_source_get_comment_at_line_is_model.

Theorem C19_source_get_inline_comment_at_line_is_model : forall lines n,
  Forall (fun l => String.length l <= doc_while_fuel) lines ->
  MiniPy.run [("code_lines", VL (map VS lines)); ("line", VN n)] get_inline_comment_at_line_src
  = match nth_error lines n with
    | None => Err (Raise "AssertionError")
    | Some l => if v_isdef (view_gen l) then Ok (VS (v_inline (view_gen l))) else Err (Raise "AssertionError")
    end.
Proof. exact get_inline_comment_at_line_is_model. Qed.
Print Assumptions C19_source_get_inline_comment_at_line_is_model.

(* one round of the upward walk of `_get_comment_ending_at_line` (the body of its while loop at line k+1): it breaks exactly when
   the model's walk stops there (walk_stop with the regenerated facts), otherwise it moves one line up.  The induction over the
   rounds and the collecting loop below it are not bridged. *)
Theorem C19_source_comment_walk_round_is_model : forall r lines k l,
  MiniPy.lookup "code_lines" r = Some (VL (map VS lines)) -> MiniPy.lookup "start_line" r = Some (VN (S k)) -> nth_error lines (S k) = Some l ->
  exists r', MiniPy.exec_block r gcel_walk_body
             = Ok (r', if walk_stop FIX_WALK walk_stops_at_quote_lines_gen (view_gen l) then Some BRK else None)
             /\ MiniPy.lookup "code_lines" r' = Some (VL (map VS lines))
             /\ (walk_stop FIX_WALK walk_stops_at_quote_lines_gen (view_gen l) = false -> MiniPy.lookup "start_line" r' = Some (VN k)).
Proof. exact comment_walk_round_is_model. Qed.
Print Assumptions C19_source_comment_walk_round_is_model.

(* non-vacuity: the dumped helpers run; a '#' inside a string literal is not a comment (fix df5cd15) *)
Example C19_source_nonvacuous :
  MiniPy.run [("line", VS "    x: int = 3  # c")] contains_field_definition_src = Ok (VB true)
  /\ MiniPy.run [("line", VS "class A(B):")] contains_field_definition_src = Ok (VB false)
  /\ MiniPy.run [("line", VS "color: str = ""#ff0000""  # the colour")] split_at_comment_src
     = Ok (VT [VS "color: str = ""#ff0000""  "; VS " the colour"])
  /\ MiniPy.run [("line", VS "color: str = ""#ff0000""")] split_at_comment_src = Ok (VT [VS "color: str = ""#ff0000"""; VNone])
  /\ MiniPy.run [("code_lines", VL [VS "class A:"; VS "    color: str = '#f'  # shade "]); ("line", VN 1)] get_inline_comment_at_line_src
     = Ok (VS "shade")
  /\ MiniPy.run [("code_lines", VL [VS "class A:"; VS "    # above "]); ("line", VN 1)] get_comment_at_line_src = Ok (VS "above")
  /\ MiniPy.run [("line", VS "  x : int"); ("field_name", VS "x")] line_contains_definition_for_src = Ok (VB true).
Proof. vm_compute. repeat split; reflexivity. Qed.
Print Assumptions C19_source_nonvacuous.

(* ---------- the two line loops and the per-class scan ---------- *)
From SPV Require Import Proofs.MiniPyDocScan.

(* the downward scan with the triple-quote token state = doc_open on the lines from n on (bound: at most doc_while_fuel lines) *)
Theorem C19_source_docstring_below_is_model : forall lines n,
  List.length lines <= doc_while_fuel ->
  MiniPy.run [("code_lines", VL (map VS lines)); ("line", VN n)] get_docstring_starting_at_line_src
  = Ok (VS (doc_open (map view_gen (skipn n lines)))).
Proof. exact get_docstring_starting_at_line_is_model. Qed.
Print Assumptions C19_source_docstring_below_is_model.

(* the upward walk and the join of the collected comments = comment_above on the lines m, m-1, ..., 0 *)
Theorem C19_source_comment_above_is_model : forall lines m,
  m < List.length lines -> m <= doc_while_fuel ->
  MiniPy.run [("code_lines", VL (map VS lines)); ("line", VN m)] get_comment_ending_at_line_src
  = Ok (VS (comment_above FIX_WALK walk_stops_at_quote_lines_gen (map view_gen (rev (firstn (S m) lines))))).
Proof. exact get_comment_ending_at_line_is_model. Qed.
Print Assumptions C19_source_comment_above_is_model.

(* the per-class part: when line S m is the first one that defines f (the test bridged by C19_source_contains_field_definition /
   C19_source_line_contains_definition_for), the three dumped helpers called at S m - 1, S m, S m + 1 return the triple of
   scan_lines_gen, i.e. what C19_scan_render is about *)
Theorem C19_source_scan_is_model : forall lines f m l,
  nth_error lines (S m) = Some l -> defines f (view_gen l) = true ->
  Forall (fun x => defines f (view_gen x) = false) (firstn (S m) lines) ->
  List.length lines <= doc_while_fuel -> Forall (fun l => String.length l <= doc_while_fuel) lines ->
  exists above inline below,
    MiniPy.run [("code_lines", VL (map VS lines)); ("line", VN m)] get_comment_ending_at_line_src = Ok (VS above)
    /\ MiniPy.run [("code_lines", VL (map VS lines)); ("line", VN (S m))] get_inline_comment_at_line_src = Ok (VS inline)
    /\ MiniPy.run [("code_lines", VL (map VS lines)); ("line", VN (S (S m)))] get_docstring_starting_at_line_src = Ok (VS below)
    /\ scan_lines_gen lines f = Some (above, inline, below).
Proof. exact scan_parts_is_model. Qed.
Print Assumptions C19_source_scan_is_model.

Definition NVD_LINES : list string :=
  ["class A:"; "    x: int = 1"; ""; "    # the colour"; "    # of it"; "    color: str = ""#f""  # shade"; "    """"""the doc"; "    more"""""""; "    y: int = 2"].
Example C19_source_scan_nonvacuous :
  MiniPy.run [("code_lines", VL (map VS NVD_LINES)); ("line", VN 4)] get_comment_ending_at_line_src = Ok (VS ("the colour" ++ String (Ascii.ascii_of_nat 10) "of it"))
  /\ MiniPy.run [("code_lines", VL (map VS NVD_LINES)); ("line", VN 6)] get_docstring_starting_at_line_src = Ok (VS ("the doc" ++ String (Ascii.ascii_of_nat 10) "more"))
  /\ scan_lines_gen NVD_LINES "color" = Some ("the colour" ++ String (Ascii.ascii_of_nat 10) "of it", "shade", "the doc" ++ String (Ascii.ascii_of_nat 10) "more").
Proof. vm_compute. repeat split; reflexivity. Qed.
Print Assumptions C19_source_scan_nonvacuous.
