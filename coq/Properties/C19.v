(* Properties/C19.v — a field's help text comes from its own documentation, by fixed precedence.
   Only statements closed by `exact`, each followed by Print Assumptions. *)
From SPV Require Import Base.Str Model.DocScan Model.DocScanSpec Gen.FactsDoc Proofs.DocScanProofs.

(* Printer/scanner round trip, for EVERY well-formed layout (any number of fields, any blank lines, comment
   blocks, inline comments, one-line / multi-line docstrings in either quote style, any header lines that are
   not field definitions and carry no comment): the scanner (with the literals regenerated from the source)
   returns exactly the documentation written for the queried field - nothing from another field, nothing
   invented - and None exactly when the class does not declare the field.
   wf_layout is a boolean predicate: docstring texts without '#', ':', '=', quote characters, newlines; comment
   texts (block above, inline) without newlines ('#', ':', '=', quote characters, whole triple-quote tokens allowed)
   and non-empty; no
   white space at the ends of a text; identifiers as field names; annotation text
   without '#', ':', '='; DEFAULT-VALUE text arbitrary as long as every '#' in it is inside a closed string
   literal (single, double or triple quotes, escaped quotes and backslashes: the predicate `closed`, computed
   with the regenerated loop body of _split_at_comment). *)
Theorem C19_scan_render : forall L f,
  wf_layout L = true -> scan_lines_gen (render L) f = option_map triple (docs L f).
Proof. exact scan_render. Qed.
Print Assumptions C19_scan_render.

(* the same for _get_attribute_docstring on a class whose source (class docstring cut out) is the printed
   layout; the class-docstring entry is the oracle's (docstring_parser) answer for that very field, and a class
   that does not declare the field still answers with that entry alone *)
Theorem C19_scan_class_render : forall k L f,
  wf_layout L = true -> code_lines k = Some (render L) ->
  scan_class_gen k f = scan_of (docs L f, last_assoc f (k_args k) "").
Proof. exact scan_class_render. Qed.
Print Assumptions C19_scan_class_render.

(* help precedence: the regenerated or-chain of FieldWrapper.help IS the documented order
   (help=, docstring below, comment above, inline comment, class-docstring entry; nothing -> no help) *)
Theorem C19_precedence : forall explicit d, help_gen explicit d = spec_help explicit (parts_prov d).
Proof. exact help_precedence. Qed.
Print Assumptions C19_precedence.

(* ... and the help= the argparse action finally receives (regenerated: the if-chain of FieldWrapper.get_arg_options,
   overlaid with field(help=..) by FieldWrapper.arg_options) is that text, whichever way the explicit help= was given
   (custom: field(help=..), explicit: dataclasses metadata); a field without documentation gets no help, or the
   placeholder that the help formatter erases again.  Side condition: the help= given to field() is not the EMPTY string *)
Theorem C19_shown_help_partial : forall custom explicit d has_default,
  custom_ok custom = true ->
  final_help_gen custom (action_help_gen (help_gen explicit d) has_default)
  = match spec_help (explicit_help custom explicit) (parts_prov d) with
    | Some s => Some s
    | None => if has_default then Some PLACEHOLDER else None
    end.
Proof. exact shown_help_spec. Qed.
Print Assumptions C19_shown_help_partial.

(* field(help="") replaces the documentation by an empty help *)
Theorem C19_shown_help_refuted :
  exists custom explicit d hd,
    final_help_gen custom (action_help_gen (help_gen explicit d) hd)
    <> match spec_help (explicit_help custom explicit) (parts_prov d) with
       | Some s => Some s
       | None => if hd then Some PLACEHOLDER else None
       end.
Proof. exact shown_help_refuted. Qed.
Print Assumptions C19_shown_help_refuted.

Theorem C19_help_string_chain : HELP_STRING_CHAIN = HELP_CHAIN.
Proof. exact help_string_chain_same. Qed.
Print Assumptions C19_help_string_chain.

(* MRO accumulation: every part is the first non-empty one among the classes of the chain, nearest first *)
Theorem C19_accumulation : forall scans p,
  get_part p (result_of (acc_pure_gen scans None)) = nearest_part p scans.
Proof. exact nearest_class. Qed.
Print Assumptions C19_accumulation.

(* against the spec, full strength: each kind of documentation comes from the nearest class of the chain that
   PROVIDES it - next to its own declaration, or in its class docstring whether or not it re-declares the field.
   chain: per class (documentation next to the declaration or None, class-docstring entry). *)
Theorem C19_nearest_class : forall chain,
  parts_prov (result_of (acc_pure_gen (map scan_of chain) None)) = spec_parts (map prov_of chain).
Proof. exact nearest_class_spec. Qed.
Print Assumptions C19_nearest_class.

(* the lru_cache: a query is the pure accumulation over the MRO ... *)
Theorem C19_query_pure : forall scan mro,
  fst (get_doc_gen scan mro []) = result_of (acc_pure_gen (map scan mro) None).
Proof. exact get_doc_pure. Qed.
Print Assumptions C19_query_pure.

(* ... and answers are history independent: any classes, any hierarchy (multiple inheritance included), any order
   of earlier queries - the accumulated object is a copy, cached objects are never modified *)
Theorem C19_history_independent : forall scan qs,
  run_queries_gen scan qs [] = map (fun mro => fst (get_doc_gen scan mro [])) qs.
Proof. exact history_independent. Qed.
Print Assumptions C19_history_independent.

(* non-vacuity: a concrete layout inside the theorem's domain, what it prints and what the scanner answers *)
Definition demo : layout :=
  mklayout ["@dataclass(frozen=True)"; "class Opt(Base):  # noqa"; "    """""""; """"""""] 4
    [ mkfld "lr" "float" (Some "1e-3") 0 ["learning rate: see #12"; "use """""" or ''' here, it's fine"] (Some "inline lr = base # x") None;
      mkfld "lr_decay" "float" None 1 [] None (Some (DMulti Sq "" ["decay of lr"; ""; "more"] ""));
      mkfld "name" "str" (Some """run #1""") 2 ["above name"] (Some "which run") (Some (DOne Dq "doc of name"));
      mkfld "pat" "str" (Some "'it\'s #' + '''a#b'''") 0 [] None None ] 1.

Example C19_nonvacuous :
  wf_layout demo = true
  /\ render demo = ["@dataclass(frozen=True)"; "class Opt(Base):  # noqa"; "    """""""; """""""";
                    "    # learning rate: see #12"; "    # use """""" or ''' here, it's fine"; "    lr: float = 1e-3  # inline lr = base # x";
                    ""; "    lr_decay: float"; "    '''"; "    decay of lr"; "    "; "    more"; "    '''";
                    ""; ""; "    # above name"; "    name: str = ""run #1""  # which run"; "    """"""doc of name""""""";
                    "    pat: str = 'it\'s #' + '''a#b'''"; ""]
  /\ scan_lines_gen (render demo) "lr" = Some (join_text ["learning rate: see #12"; "use """""" or ''' here, it's fine"], "inline lr = base # x", "")
  /\ scan_lines_gen (render demo) "lr_decay" = Some ("", "", join_text [""; "decay of lr"; ""; "more"; ""])
  /\ scan_lines_gen (render demo) "name" = Some ("above name", "which run", "doc of name")
  /\ scan_lines_gen (render demo) "pat" = Some ("", "", "")
  /\ scan_lines_gen (render demo) "l" = None
  (* the former counterexamples, now positive instances: B(A) documents inherited x only in its class docstring *)
  /\ p_cls (result_of (acc_pure_gen (map scan_of [(None, "entry in B"); (Some (mkfdoc "" "" ""), "entry in A")]) None))
     = "entry in B"
  (* D(A, X) queried before A: A.x does not show X's docstring *)
  /\ p_below (nth 1 (run_queries_gen
                       (fun k => if String.eqb k "A" then Some (mkparts "" "inline of A.x" "" "")
                                 else if String.eqb k "X" then Some (mkparts "" "" "below of X.x" "") else None)
                       [["D"; "A"; "X"]; ["A"]] []) EMPTY_PARTS) = "".
Proof. vm_compute. repeat split; reflexivity. Qed.
Print Assumptions C19_nonvacuous.
