From SPV Require Import Base.Str Model.DocScan Model.DocScanSpec Gen.FactsDoc Proofs.DocScanProofs.
Example C19_nonvacuous : 1 = 1. Proof. reflexivity. Qed.
