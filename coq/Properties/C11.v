(* Properties/C11.v — ALWAYS_MERGE distributes one shared option over all merged destinations.
   Only statements closed by `exact`, each followed by Print Assumptions. *)
From SPV Require Import Base.Str Model.Merge Model.MergeSpec Gen.FactsBool Gen.FactsMerge Proofs.MergeProofs.

(* Scalar kinds (int, float, str, bool, enum), EVERY n >= 2, EVERY token list, every layout in which the first registered
   wrapper is among the least nested (flat registrations, members of a registered class, ...): the model - instantiated with
   the regenerated chains of duplicate_if_needed / FieldWrapper.default / get_arg_options / merge - meets the spec:
   absent -> every destination its default (no default: rejected); one value -> all get it; n values -> the i-th registered
   destination gets the i-th; any other count -> InconsistentArgumentError; an unreadable token -> exit 2. *)
Theorem C11_scalar : forall dests k cd cli,
  layout_ok dests -> 2 <= List.length dests -> scalar_kind k = true ->
  (level (hd "" dests) <> 1 -> cd <> None) ->
  (forall d, cd = Some d -> typed_default k d = true) ->
  meets (spec_expect k (repeat cd (List.length dests)) cli)
        (run_gen dests k cd (repeat None (List.length dests)) cli).
Proof. exact scalar_meets_spec. Qed.
Print Assumptions C11_scalar.

(* the same rule on the values that reached the action, by case analysis on their number - no bound on n *)
Theorem C11_scalar_count_rule : forall n k vals,
  2 <= n -> scalar_kind k = true -> forallb scalar_val vals = true ->
  duplicate_gen n k vals =
  match vals with
  | [v] => Ok (repeat v n)
  | _ => if Nat.eqb (List.length vals) n then Ok vals else Err Inconsistent
  end.
Proof. exact scalar_count_rule. Qed.
Print Assumptions C11_scalar_count_rule.

(* destinations stay in registration order through _fix_conflict_merge / DataclassWrapper.merge *)
Theorem C11_merge_order : forall d0 rest,
  NoDup (d0 :: rest) -> (forall d, In d rest -> level d0 <= level d) ->
  fix_conflict_merge_gen (d0 :: rest) = Ok (d0 :: rest).
Proof. exact merge_order. Qed.
Print Assumptions C11_merge_order.

(* ... but only when the first registered wrapper is among the least nested: otherwise set-up raises ValueError (defect #20) *)
Theorem C11_merge_order_refuted :
  exists dests, NoDup dests /\ fix_conflict_merge_gen dests = Err (Raise "ValueError").
Proof. exact merge_order_refuted. Qed.
Print Assumptions C11_merge_order_refuted.

(* container kinds: the full-strength statement is FALSE of the faithful model *)
Theorem C11_container_full_refuted : ~ container_full_statement.
Proof. exact container_full_refuted. Qed.
Print Assumptions C11_container_full_refuted.

(* the witnesses, one theorem each (so that a repair invalidates exactly its own).  The witness of defect #4 (a list
   default of length n dealt element-wise) is retired with the repair of FieldWrapper.default; corpus/C11/01-* replays it. *)
(* - defect #5: `--xs 7` delivers the scalar 7 to a List[int] field *)
Theorem C11_refuted_bare_scalar :
  ~ meets (spec_expect (KList EInt) [Some (VList []); Some (VList [])] (Some [t7])) w_bare.
Proof. exact refuted_bare_scalar. Qed.
Print Assumptions C11_refuted_bare_scalar.
(* - defect #5: `--t 3 4` with n = 2 raises TypeError *)
Theorem C11_refuted_tuple_typeerror :
  ~ meets (spec_expect (KTuple EInt None) [Some (VTuple []); Some (VTuple [])] (Some [t3; t4])) w_type.
Proof. exact refuted_tuple_typeerror. Qed.
Print Assumptions C11_refuted_tuple_typeerror.
(* - defect #5: `--t (3,4,5)` is accepted for Tuple[int,int] *)
Theorem C11_refuted_tuple_arity :
  ~ meets (spec_expect (KTuple EInt (Some 2)) [Some (VTuple [VInt 1; VInt 2]); Some (VTuple [VInt 1; VInt 2])] (Some [t345])) w_arity.
Proof. exact refuted_tuple_arity. Qed.
Print Assumptions C11_refuted_tuple_arity.

(* container kinds, what does hold: bracketed literals of the item type (right arity for fixed tuples), and a default that
   the packaging treats as one value: `default_safe` is selected by the regenerated packaging chain - with the `single_value`
   test of the repaired FieldWrapper.default it is `true` for every default; without it a list default of length n is excluded *)
Theorem C11_container_partial : forall dests k cd cli,
  layout_ok dests -> 2 <= List.length dests -> scalar_kind k = false ->
  (level (hd "" dests) <> 1 -> cd <> None) ->
  (forall d, cd = Some d -> typed_default k d = true) ->
  (level (hd "" dests) = 1 -> forall d, cd = Some d -> default_safe (List.length dests) k d = true) ->
  cli_bracketed k cli = true ->
  meets (spec_expect k (repeat cd (List.length dests)) cli)
        (run_gen dests k cd (repeat None (List.length dests)) cli).
Proof. exact container_partial. Qed.
Print Assumptions C11_container_partial.

(* `meets` is what the correspondence run evaluates on the implementation's observed behaviour *)
Theorem C11_meets_is_checked : forall e r, meets e r -> expect_allows e r = true.
Proof. exact meets_allows. Qed.
Print Assumptions C11_meets_is_checked.

(* non-vacuity: concrete inputs inside the theorems' domains, and what the model answers on them *)
Example C11_nonvacuous :
  (* three members of one registered class, an int field: 3 values go to the 3 destinations in registration order *)
  run_gen ["t.m0"; "t.m1"; "t.m2"] KInt (Some (VInt 5)) [None; None; None]
          (Some [mktok "1" (Some (LInt 1)); mktok "-2" (Some (LInt (-2))); mktok "30" (Some (LInt 30))])
    = Ok [VInt 1; VInt (-2); VInt 30]
  /\ scalar_kind KInt = true /\ typed_default KInt (VInt 5) = true
  (* two values for three destinations *)
  /\ run_gen ["d0"; "d1"; "d2"] KBool (Some (VBool false)) [None; None; None]
             (Some [mktok "Yes" None; mktok "0" (Some (LInt 0))]) = Err Inconsistent
  (* a bracketed list per destination, default of length 3 <> n = 2 *)
  /\ run_gen ["d0"; "d1"] (KList EInt) (Some (VList [VInt 1; VInt 2; VInt 3])) [None; None]
             (Some [mktok "[7,8]" (Some (LSeq false [LInt 7; LInt 8])); mktok "[]" (Some (LSeq false []))])
       = Ok [VList [VInt 7; VInt 8]; VList []]
  /\ cli_bracketed (KList EInt) (Some [mktok "[7,8]" (Some (LSeq false [LInt 7; LInt 8])); mktok "[]" (Some (LSeq false []))]) = true
  /\ default_safe 2 (KList EInt) (VList [VInt 1; VInt 2; VInt 3]) = true
  /\ fix_conflict_merge_gen ["top"; "t.m0"; "t.m1"] = Ok ["top"; "t.m0"; "t.m1"].
Proof. vm_compute. repeat split; reflexivity. Qed.
Print Assumptions C11_nonvacuous.

(* The tie to the code for duplicate_if_needed is a THEOREM, not a sample: `duplicate_src` is the ast of
   FieldWrapper.duplicate_if_needed dumped by harness/translate/DupSrc.py on every run (a syntax-to-syntax translation into
   the MiniPy fragment of Model/MiniPy.v).  Run by the MiniPy interpreter with any n >= 2 destinations, any field kind and
   any python list of parsed values (scalars, lists, tuples, nested at any depth) it returns a sequence whose items are
   exactly the model's answer `duplicate_gen` - or raises InconsistentArgumentError exactly when the model says so.
   Lists and tuples are represented structurally (enc); the method never looks inside any other value, so the theorem holds
   for EVERY representation `atom` of the other values as non-sequences. *)
From SPV Require Import Model.MiniPy Gen.FactsDupSrc Proofs.MiniPyDup.
Theorem C11_source_is_model : forall (atom : Merge.val -> MiniPy.val),
  (forall v, is_seq (atom v) = false) ->
  forall ds k util_is_list name pv,
  Nat.ltb 1 (List.length ds) = true ->
  items_res (MiniPy.run (MiniPyDup.env_of ds true (is_tuple_kind k) (is_list_kind k) util_is_list name (VL (map (enc atom) pv)))
                        duplicate_src)
  = match duplicate_gen (List.length ds) k pv with
    | Ok l => Ok (map (enc atom) l)
    | Err Inconsistent => Err (Raise "InconsistentArgumentError")
    | Err e => Err e
    end.
Proof. exact MiniPyDup.src_is_model. Qed.
Print Assumptions C11_source_is_model.

(* the two hypotheses above are exactly the method's assertions *)
Theorem C11_source_asserts_reused : forall ds is_tup is_lst util_is_list name parsed,
  MiniPy.run (MiniPyDup.env_of ds false is_tup is_lst util_is_list name parsed) duplicate_src = Err (Raise "AssertionError").
Proof. exact src_asserts_reused. Qed.
Print Assumptions C11_source_asserts_reused.
Theorem C11_source_asserts_several : forall ds is_tup is_lst util_is_list name parsed,
  Nat.ltb 1 (List.length ds) = false ->
  MiniPy.run (MiniPyDup.env_of ds true is_tup is_lst util_is_list name parsed) duplicate_src = Err (Raise "AssertionError").
Proof. exact src_asserts_several. Qed.
Print Assumptions C11_source_asserts_several.
