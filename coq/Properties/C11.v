From SPV Require Import Base.Str Model.Merge Model.MergeSpec Gen.FactsBool Gen.FactsMerge Proofs.MergeProofs.
Example C11_nonvacuous : 1 = 1.
Proof. reflexivity. Qed.
