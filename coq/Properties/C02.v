(* Properties/C02.v — a value written on the command line is the value the field receives. *)
From Coq Require Import Permutation.
From SPV Require Import Base.Str Model.Leaf Model.LeafSpec Model.Namespace Gen.FactsBool Gen.FactsLeaf
                        Proofs.LeafProofs Proofs.FloatProofs Proofs.LeafRoundtrip Proofs.NamespaceProofs.

(* One field, EVERY type of the CLI grammar (int, float, str, bool, Path, Enum, Literal, lists, fixed and variadic tuples,
   Optional of these), every well-typed value in normal form: the canonical tokens written after the option come back as
   exactly that value (same constructor = same Python type).  `value_wf` only says that floats are exact decimals in normal
   form (no trailing zero digit, no negative zero).  The model is instantiated with the regenerated vocabulary and converters. *)
Theorem C02_leaf_roundtrip : forall t v toks,
  cli_type t = true -> value_wf v = true -> has_type v t = true -> canon t v = Some toks ->
  leaf_parse_gen t toks = Ok v.
Proof. exact leaf_roundtrip. Qed.
Print Assumptions C02_leaf_roundtrip.

(* the int() and float() round trips underneath: every integer of any size, every exact decimal *)
Theorem C02_int_roundtrip : forall z, py_int (show_int z) = Some z.
Proof. exact py_int_show. Qed.
Print Assumptions C02_int_roundtrip.
Theorem C02_float_roundtrip : forall neg ip frac,
  flt_wf neg ip frac -> py_float (show_float neg ip frac) = Some (VFlt neg ip frac).
Proof. exact py_float_show. Qed.
Print Assumptions C02_float_roundtrip.

(* exponent spellings (what repr prints for very small / large floats) are covered by instances and by the correspondence *)
Example C02_float_instances :
  py_float "1.5" = Some (VFlt false 1 "5") /\ py_float "-0.25" = Some (VFlt true 0 "25")
  /\ py_float "1e-05" = Some (VFlt false 0 "00001") /\ py_float (show_float false 12345 "678") = Some (VFlt false 12345 "678")
  /\ py_float "1e+16" = Some (VFlt false 10000000000000000 "") /\ py_float "-2.5e-07" = Some (VFlt true 0 "00000025").
Proof. vm_compute. repeat split; reflexivity. Qed.

(* The full statement over the property's grammar ("Optional of these" includes Optional[Literal]) is FALSE of the
   faithful model: an Optional[Literal[..]] / List[Literal[..]] field rejects its own members (known finding). *)
Theorem C02_optional_literal_refuted :
  exists t v toks, has_type v t = true /\ canon t v = Some toks /\ leaf_parse_gen t toks = Err (Exit 2).
Proof. exists (TOpt (TLit [LStr "a"; LStr "b"])), (VStr "b"), ["b"]. vm_compute. repeat split; reflexivity. Qed.
Print Assumptions C02_optional_literal_refuted.

(* several fields: each written once; the result does not depend on the order of the options ... *)
Theorem C02_order_independent : forall (V : Type) (occs occs' : list (string * V)) n d,
  NoDup (map fst occs) -> Permutation occs occs' -> lookup d (apply_all occs n) = lookup d (apply_all occs' n).
Proof. exact order_independent. Qed.
Print Assumptions C02_order_independent.

(* ... every mentioned field gets its value, every field not mentioned keeps its default *)
Theorem C02_mentioned_gets_value : forall (V : Type) (occs : list (string * V)) n d v,
  NoDup (map fst occs) -> In (d, v) occs -> lookup d (apply_all occs n) = Some v.
Proof. exact mentioned_gets_value. Qed.
Print Assumptions C02_mentioned_gets_value.
Theorem C02_unmentioned_keeps_default : forall (V : Type) (occs : list (string * V)) n d,
  ~ In d (map fst occs) -> lookup d (apply_all occs n) = lookup d n.
Proof. exact unmentioned_keeps_default. Qed.
Print Assumptions C02_unmentioned_keeps_default.

Example C02_nonvacuous :
  let t := TOpt (TTupFix [TInt; TStr; TEnum ["RED"; "GREEN"]; TFloat]) in
  let v := VTup [VInt (-12345678901234567890); VStr "x y"; VEnum "GREEN"; VFlt true 0 "25"] in
  cli_type t = true /\ value_wf v = true /\ has_type v t = true
  /\ canon t v = Some ["-12345678901234567890"; "x y"; "GREEN"; "-0.25"]
  /\ leaf_parse_gen t ["-12345678901234567890"; "x y"; "GREEN"; "-0.25"] = Ok v.
Proof. vm_compute. repeat split; reflexivity. Qed.
Print Assumptions C02_float_instances.
Print Assumptions C02_nonvacuous.
