(* Properties/C02.v — a value written on the command line is the value the field receives. *)
From Coq Require Import Permutation.
From SPV Require Import Base.Str Model.Leaf Model.LeafSpec Model.Namespace Gen.FactsBool Gen.FactsLeaf
                        Proofs.LeafProofs Proofs.FloatProofs Proofs.LeafRoundtrip Proofs.NamespaceProofs.

(* One field, EVERY type of the CLI grammar (int, float, str, bool, Path, Enum, Literal, lists, fixed and variadic tuples,
   Optional of these), every well-typed value in normal form: the canonical tokens written after the option come back as
   exactly that value (same constructor = same Python type).  `value_wf` only says that floats are exact decimals in normal
   form (no trailing zero digit, no negative zero).  The model is instantiated with the regenerated vocabulary and converters. *)
Theorem C02_leaf_roundtrip : forall t v toks,
  cli_type t = true -> value_wf v = true -> has_type v t = true -> canon t v = Some toks ->
  leaf_parse_gen t toks = Ok v.
Proof. exact leaf_roundtrip. Qed.
Print Assumptions C02_leaf_roundtrip.

(* the int() and float() round trips underneath: every integer of any size, every exact decimal *)
Theorem C02_int_roundtrip : forall z, py_int (show_int z) = Some z.
Proof. exact py_int_show. Qed.
Print Assumptions C02_int_roundtrip.
Theorem C02_float_roundtrip : forall neg ip frac,
  flt_wf neg ip frac -> py_float (show_float neg ip frac) = Some (VFlt neg ip frac).
Proof. exact py_float_show. Qed.
Print Assumptions C02_float_roundtrip.

(* exponent spellings (what repr prints for very small / large floats) are covered by instances and by the correspondence *)
Example C02_float_instances :
  py_float "1.5" = Some (VFlt false 1 "5") /\ py_float "-0.25" = Some (VFlt true 0 "25")
  /\ py_float "1e-05" = Some (VFlt false 0 "00001") /\ py_float (show_float false 12345 "678") = Some (VFlt false 12345 "678")
  /\ py_float "1e+16" = Some (VFlt false 10000000000000000 "") /\ py_float "-2.5e-07" = Some (VFlt true 0 "00000025").
Proof. vm_compute. repeat split; reflexivity. Qed.

(* The full statement over the property's grammar ("Optional of these" includes Optional[Literal]) is FALSE of the
   faithful model: an Optional[Literal[..]] / List[Literal[..]] field rejects its own members (known finding). *)
Theorem C02_optional_literal_refuted :
  exists t v toks, has_type v t = true /\ canon t v = Some toks /\ leaf_parse_gen t toks = Err (Exit 2).
Proof. exists (TOpt (TLit [LStr "a"; LStr "b"])), (VStr "b"), ["b"]. vm_compute. repeat split; reflexivity. Qed.
Print Assumptions C02_optional_literal_refuted.

(* several fields: each written once; the result does not depend on the order of the options ... *)
Theorem C02_order_independent : forall (V : Type) (occs occs' : list (string * V)) n d,
  NoDup (map fst occs) -> Permutation occs occs' -> lookup d (apply_all occs n) = lookup d (apply_all occs' n).
Proof. exact order_independent. Qed.
Print Assumptions C02_order_independent.

(* ... every mentioned field gets its value, every field not mentioned keeps its default *)
Theorem C02_mentioned_gets_value : forall (V : Type) (occs : list (string * V)) n d v,
  NoDup (map fst occs) -> In (d, v) occs -> lookup d (apply_all occs n) = Some v.
Proof. exact mentioned_gets_value. Qed.
Print Assumptions C02_mentioned_gets_value.
Theorem C02_unmentioned_keeps_default : forall (V : Type) (occs : list (string * V)) n d,
  ~ In d (map fst occs) -> lookup d (apply_all occs n) = lookup d n.
Proof. exact unmentioned_keeps_default. Qed.
Print Assumptions C02_unmentioned_keeps_default.

Example C02_nonvacuous :
  let t := TOpt (TTupFix [TInt; TStr; TEnum ["RED"; "GREEN"]; TFloat]) in
  let v := VTup [VInt (-12345678901234567890); VStr "x y"; VEnum "GREEN"; VFlt true 0 "25"] in
  cli_type t = true /\ value_wf v = true /\ has_type v t = true
  /\ canon t v = Some ["-12345678901234567890"; "x y"; "GREEN"; "-0.25"]
  /\ leaf_parse_gen t ["-12345678901234567890"; "x y"; "GREEN"; "-0.25"] = Ok v.
Proof. vm_compute. repeat split; reflexivity. Qed.
Print Assumptions C02_float_instances.
Print Assumptions C02_nonvacuous.

(* ---------- three helper bodies that harness/translate/Leaf.py only pins, as regenerated source (Gen/FactsLeafSrc.v) ----------
   harness/translate/LeafSrc.py dumps utils.is_homogeneous_tuple_type, utils.get_container_nargs and FieldWrapper.postprocess
   statement by statement into MiniPy; the theorems say that the MiniPy interpreter computes from them what Model/Leaf.v says.
   Annotations are values (enc_ty, injective on what ty_eqb compares); is_tuple / is_list / get_type_arguments are uninterpreted
   tables that answer on the encodings as the model reads the annotation (tables_ok).  Deviations stated as hypotheses:
   - container_nargs (TTupFix []) is NNum 0 in the model, the source answers "*" for an un-parametrised Tuple: ts <> [];
   - the source compares annotation OBJECTS (len(set(args)) == 1); ty_eqb never equates Literal / fixed-tuple items with
     themselves: the first item must be one that ty_eqb equates with itself (or be the only item);
   - postprocess: the attributes and helpers it reads are the explicit abstraction post_env t r; r ranges over the raw values
     raw_ok t r (what take_values produces: a member name for an Enum, a key for a Literal, a list for containers, ..).
     `tuple(x)`, `type(..)`, isinstance(x, key_type) and the try / except around self.type(raw) are uninterpreted tables of post_env. *)
From SPV Require Import Model.MiniPy Gen.FactsLeafSrc Proofs.MiniPyLeaf.

Theorem C02_source_container_nargs_is_model : forall T t,
  tables_ok T t -> (forall ts, t = TTupFix ts -> ts <> [] /\ Forall (tables_ok T) ts) -> is_container t = true ->
  MiniPy.run (ty_env T "container_type" t) get_container_nargs_src = Ok (enc_nargs (container_nargs t)).
Proof. exact get_container_nargs_is_model. Qed.
Print Assumptions C02_source_container_nargs_is_model.

Theorem C02_source_homogeneous_is_model : forall T t,
  tables_ok T t -> (forall t0 r, t = TTupFix (t0 :: r) -> r = [] \/ ty_eqb t0 t0 = true) ->
  MiniPy.run (ty_env T "t" t) is_homogeneous_tuple_type_src = Ok (MiniPy.VB (hom_model t)).
Proof. exact is_homogeneous_tuple_type_is_model. Qed.
Print Assumptions C02_source_homogeneous_is_model.

(* hom_model is the test Leaf.parsing_fn makes *)
Theorem C02_source_homogeneous_is_parsing_fn_test : forall t0 r,
  parsing_fn (TTupFix (t0 :: r)) = if hom_model (TTupFix (t0 :: r)) then parsing_fn t0 else KSeq (map parsing_fn (t0 :: r)).
Proof. reflexivity. Qed.
Print Assumptions C02_source_homogeneous_is_parsing_fn_test.

Theorem C02_source_postprocess_is_model : forall t r,
  raw_ok t r = true -> MiniPy.run (post_env t r) postprocess_src = Ok (DefaultsPipeline.enc_value (postprocess t r)).
Proof. exact postprocess_is_model. Qed.
Print Assumptions C02_source_postprocess_is_model.

(* non-vacuity: concrete tables for Tuple[int, str], Tuple[int, int], Tuple[int, List[int]]; the dumped statements run *)
Definition NVL_TYS : list ty := [TInt; TStr; TList TInt; TTupFix [TInt; TStr]; TTupFix [TInt; TInt]; TTupFix [TInt; TList TInt]; TTupVar TStr].
Definition NVL_T : ty_tables :=
  mktt (map (fun u => (enc_ty u, MiniPy.VB (is_tup_ty u))) NVL_TYS) (map (fun u => (enc_ty u, MiniPy.VB (is_list_ty u))) NVL_TYS)
       (map (fun u => (enc_ty u, MiniPy.VT (args_of u))) NVL_TYS).
Example C02_source_nonvacuous :
  Forall (tables_ok NVL_T) NVL_TYS
  /\ MiniPy.run (ty_env NVL_T "container_type" (TTupFix [TInt; TStr])) get_container_nargs_src = Ok (MiniPy.VN 2)
  /\ MiniPy.run (ty_env NVL_T "container_type" (TTupFix [TInt; TList TInt])) get_container_nargs_src = Ok (MiniPy.VS "*")
  /\ MiniPy.run (ty_env NVL_T "container_type" (TTupVar TStr)) get_container_nargs_src = Ok (MiniPy.VS "*")
  /\ MiniPy.run (ty_env NVL_T "container_type" TInt) get_container_nargs_src = Err (Raise "NotImplementedError")
  /\ MiniPy.run (ty_env NVL_T "t" (TTupFix [TInt; TInt])) is_homogeneous_tuple_type_src = Ok (MiniPy.VB true)
  /\ MiniPy.run (ty_env NVL_T "t" (TTupFix [TInt; TStr])) is_homogeneous_tuple_type_src = Ok (MiniPy.VB false)
  /\ MiniPy.run (post_env (TEnum ["RED"; "BLUE"]) (ROne (VStr "BLUE"))) postprocess_src = Ok (DefaultsPipeline.enc_value (VEnum "BLUE"))
  /\ MiniPy.run (post_env (TLit [LStr "a"; LInt 3]) (ROne (VStr "3"))) postprocess_src = Ok (DefaultsPipeline.enc_value (VInt 3))
  /\ MiniPy.run (post_env (TTupFix [TInt; TStr]) (RMany [VInt 1; VStr "x"])) postprocess_src = Ok (DefaultsPipeline.enc_value (VTup [VInt 1; VStr "x"]))
  /\ MiniPy.run (post_env (TTupVar TInt) RNone) postprocess_src = Ok MiniPy.VNone
  /\ MiniPy.run (post_env (TOpt (TTupVar TInt)) (RMany [VInt 1])) postprocess_src = Ok (DefaultsPipeline.enc_value (VTup [VInt 1]))
  /\ raw_ok (TLit [LStr "a"]) (ROne (VStr "b")) = false.
Proof. split; [repeat constructor|]. vm_compute. repeat split; reflexivity. Qed.
Print Assumptions C02_source_nonvacuous.
