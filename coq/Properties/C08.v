(* Properties/C08.v — a parser's result depends only on its own definition and the argv of that call.
   Statements only; `facts_gen` are the behaviour switches regenerated from the source on this run.

   Machine (Model/History.v): operations Construct / AddArgs / Parse / PrintHelp / FormatHelp on a pool of parsers;
   `obs_from f files init ops` = what each operation of the history answers; `def_at f files ops k i` = the
   definition (settings, config-path flag, dataclasses added so far) parser i has just before operation k;
   `fresh f files d argv` = what a fresh interpreter answers for definition d and argv. *)
From SPV Require Import Base.Str Model.OptStr Model.History Model.HistorySpec Gen.FactsHistory Proofs.HistoryProofs.

(* The full statement (C08_history): EVERY parse of EVERY history answers what a fresh interpreter answers. *)
Theorem C08_history_statement : forall f files,
  history_full f files <->
  (forall ops k i argv d,
     nth_error ops k = Some (Parse i argv) -> def_at f files ops k i = Some d ->
     nth_error (obs_from f files init ops) k = Some (OParse (fresh f files d argv))).
Proof. exact (fun f files => iff_refl _). Qed.
Print Assumptions C08_history_statement.

(* It is FALSE of the code as it stands.  One minimal history per defect; each refutation holds for every
   setting of the other switches, i.e. repairing the other defects does not make this one go away. *)

(* #10: [Construct 0 DASH; AddArgs 0 {my_x:int}; Construct 1 (defaults); Parse 0 --my-x 4]  -> exit 2, fresh: my_x=4 *)
Theorem C08_history_refuted_spelling : reasserts facts_gen = false ->
  ~ (forall ops k i argv d,
       nth_error ops k = Some (Parse i argv) -> def_at facts_gen FILES ops k i = Some d ->
       nth_error (obs_from facts_gen FILES init ops) k = Some (OParse (fresh facts_gen FILES d argv))).
Proof. exact (refuted_spelling facts_gen). Qed.
Print Assumptions C08_history_refuted_spelling.

(* #11: [Construct 0 (config-path argument); AddArgs 0 ..; Parse 0 []; Parse 0 []]  -> ArgumentError *)
Theorem C08_history_refuted_config_path_arg : cfgarg_every_parse facts_gen = true -> ~ history_full facts_gen FILES.
Proof. exact (refuted_cfgarg facts_gen). Qed.
Print Assumptions C08_history_refuted_config_path_arg.

(* #12: [Construct 0; AddArgs 0 {pair:Tuple[int,str]}; Parse 0 --pair 3 x; Parse 0 --pair 3 x]  -> IndexError *)
Theorem C08_history_refuted_tuple_counter :
  setup_cached facts_gen = true -> tuple_counter_persists facts_gen = true -> ~ history_full facts_gen FILES.
Proof. exact (refuted_tuple facts_gen). Qed.
Print Assumptions C08_history_refuted_tuple_counter.

(* #13: [Construct 0; AddArgs 0 {model: subgroups(ma|mb)}; Parse 0 --model mb; Parse 0 --model ma]  -> still MB *)
Theorem C08_history_refuted_frozen_by_argv : setup_cached facts_gen = true -> ~ history_full facts_gen FILES.
Proof. exact (refuted_frozen_by_argv facts_gen). Qed.
Print Assumptions C08_history_refuted_frozen_by_argv.

(* #13: [...; PrintHelp 0; Parse 0 --model mb]  -> the default group MA, frozen by print_help() *)
Theorem C08_history_refuted_frozen_by_help : setup_cached facts_gen = true -> ~ history_full facts_gen FILES.
Proof. exact (refuted_frozen_by_help facts_gen). Qed.
Print Assumptions C08_history_refuted_frozen_by_help.

(* #5': [Construct 0 (config-path argument); AddArgs 0 ..; Parse 0 --config_path c1.json nofile.json; Parse 0 []]
        -> my_x=7 from c1.json, read by the call that failed *)
Theorem C08_history_refuted_config_defaults : defaults_persist facts_gen = true -> ~ history_full facts_gen FILES.
Proof. exact (refuted_defaults facts_gen). Qed.
Print Assumptions C08_history_refuted_config_defaults.

(* seeded change C08-03: were `_preprocessing_done = True` assigned BEFORE the work, a set-up that raised would never be
   redone: [Construct 0; AddArgs 0 {model: subgroups(ma|mb)}; Parse 0 --model zz (exit 2); Parse 0 []] -> AttributeError,
   and [Construct 0 (NONE); AddArgs 0 {my_x}; AddArgs 0 {my_x}; Parse 0 [] (ConflictResolutionError); Parse 0 []] -> a Namespace *)
Theorem C08_history_refuted_failed_setup :
  setup_cached facts_gen = true -> done_after_work facts_gen = false -> ~ history_full facts_gen FILES.
Proof. exact (refuted_failed_setup facts_gen). Qed.
Print Assumptions C08_history_refuted_failed_setup.
Theorem C08_history_refuted_failed_setup_conflict :
  setup_cached facts_gen = true -> done_after_work facts_gen = false -> ~ history_full facts_gen FILES.
Proof. exact (refuted_failed_setup_cre facts_gen). Qed.
Print Assumptions C08_history_refuted_failed_setup_conflict.

(* As the code stands (flag assigned last) a failed set-up leaves the parser as it was: a parser that was not set up
   is set up after a parse / print_help only if that very set-up succeeded *)
Theorem C08_failed_setup_leaves_parser : forall f files g p argv,
  done_after_work f = true -> p_setup p = None ->
  match p_setup (snd (fst (parse_step f files g p argv))) with
  | None => True
  | Some su => exists live args, setup_in f g p live args = Ok su
  end.
Proof. exact failed_setup_leaves_parser. Qed.
Print Assumptions C08_failed_setup_leaves_parser.
Theorem C08_failed_help_leaves_parser : forall f g p,
  done_after_work f = true -> p_setup p = None ->
  match p_setup (snd (fst (help_step f g p))) with
  | None => True
  | Some su => setup_in f g p (p_live p) [] = Ok su
  end.
Proof. exact failed_help_leaves_parser. Qed.
Print Assumptions C08_failed_help_leaves_parser.

(* seeded change C08-04: were the module-level registry of Enum parsing functions (`_parsing_fns`, written by parse_enum)
   keyed by "<module>.<qualname>" instead of by the class object, a second dataclass with its own same-named Enum would be
   parsed with the first one's function: [Construct 0; AddArgs 0 {modes: List[Mode{FAST=1,SLOW=2}]}; Parse 0 --modes FAST SLOW;
   Construct 1; AddArgs 1 {modes: List[Mode{SLOW=1,SAFE=2}]}; Parse 1 --modes SLOW] -> SLOW=2 of the other class *)
Theorem C08_history_refuted_registry : reg_by_class facts_gen = false -> ~ history_full facts_gen FILES.
Proof. exact (refuted_registry facts_gen). Qed.
Print Assumptions C08_history_refuted_registry.

(* As the code stands (class keys) the registry is UNOBSERVABLE: whatever it holds, a parse answers the same and leaves
   its parser in the same state; set-up always sees the parser's own dataclasses *)
Theorem C08_registry_unobservable : forall f files c r1 r2 p argv,
  reg_by_class f = true ->
  snd (parse_step f files (mkglob c r1) p argv) = snd (parse_step f files (mkglob c r2) p argv)
  /\ snd (fst (parse_step f files (mkglob c r1) p argv)) = snd (fst (parse_step f files (mkglob c r2) p argv)).
Proof. exact registry_unobservable. Qed.
Print Assumptions C08_registry_unobservable.
Theorem C08_registry_by_class_is_identity : forall reg adds, resolve_adds true reg adds = adds.
Proof. exact resolve_by_class. Qed.
Print Assumptions C08_registry_by_class_is_identity.

(* /repo 0277e53: did the help-only --config_path action keep the default of the call that ADDED it (the state after fix
   492a48c), the `config_path` attribute of a later result would be the first call's:
   [Construct 0 (config-path argument); AddArgs 0 {my_x}; Parse 0 --config_path c1.json --my_x 3; Parse 0 --my_x 3]
   -> config_path=[c1.json], fresh: None *)
Theorem C08_history_refuted_config_path_attr : cfgarg_refreshed facts_gen = false -> ~ history_full facts_gen FILES.
Proof. exact (refuted_cfgattr facts_gen). Qed.
Print Assumptions C08_history_refuted_config_path_attr.
(* As the code stands (refreshed on every call) that attribute is a function of THIS call's argv alone *)
Theorem C08_config_path_attr_of_this_call : forall f p argv,
  cfgarg_refreshed f = true -> cfg_default f p argv = cfg_attr argv.
Proof. exact cfg_attr_of_this_call. Qed.
Print Assumptions C08_config_path_attr_of_this_call.

(* seeded change C03-06: were the three lines that re-install the parser's own settings placed AFTER conflict resolution,
   the resolver would read the settings of the parser constructed last:
   [Construct 0; AddArgs 0 {my_x,name} a; AddArgs 0 {my_x,name} b; Construct 1 (NESTED); Parse 0 []] -> ArgumentError *)
Theorem C08_history_refuted_reinstall_after_resolver :
  reasserts facts_gen = true -> reassert_first facts_gen = false -> ~ history_full facts_gen FILES.
Proof. exact (refuted_reinstall_late facts_gen). Qed.
Print Assumptions C08_history_refuted_reinstall_after_resolver.

(* seeded change C08-06: did set_defaults / _add_arguments test FieldWrapper.nested_mode instead of self.nested_mode,
   [Construct 0 (WITHOUT_ROOT, config-path argument); AddArgs 0 {my_x,name} a; Construct 1 (); Parse 0 --config_path r1.json]
   (r1.json = {"my_x": 17}) would leave my_x at 1 (and a stray top-level my_x) where a fresh interpreter returns 17 *)
Theorem C08_history_refuted_nested_mode_of_set_defaults :
  defaults_own_mode facts_gen = false -> ~ history_full facts_gen FILES.
Proof. exact (refuted_rootmode facts_gen). Qed.
Print Assumptions C08_history_refuted_nested_mode_of_set_defaults.

(* What IS true, for histories of any length over any number of parsers: under `benign` - a decidable predicate
   whose clauses (b_spelling, b_registry, b_cfgarg, b_cfgattr, b_tuple, b_frozen, b_defaults, b_rootmode, b_wrappers in Model/History.v) name exactly the
   situations above, each guarded by its switch - every parse answers what a fresh interpreter answers.
   Proved by induction over the operation list; holds for every setting of the switches. *)
Theorem C08_history_partial : forall f files ops k i argv d,
  benign f files ops = true ->
  nth_error ops k = Some (Parse i argv) ->
  def_at f files ops k i = Some d ->
  nth_error (obs_from f files init ops) k = Some (OParse (fresh f files d argv)).
Proof. exact history_partial. Qed.
Print Assumptions C08_history_partial.

(* the instance for the code as it stands *)
Theorem C08_history_partial_gen : forall files ops k i argv d,
  benign_gen files ops = true ->
  nth_error ops k = Some (Parse i argv) ->
  def_at facts_gen files ops k i = Some d ->
  nth_error (obs_from facts_gen files init ops) k = Some (OParse (fresh_gen files d argv)).
Proof. exact (history_partial facts_gen). Qed.
Print Assumptions C08_history_partial_gen.

(* the invariant behind it: every operation keeps "a cached set-up holds the actions generated from the parser's
   own settings" for every parser of the pool - operations write only their own parser's state *)
Theorem C08_invariant_step : forall f files s o,
  Inv s -> op_benign f files s o = true -> Inv (fst (step f files s o)).
Proof. exact step_inv. Qed.
Print Assumptions C08_invariant_step.

(* every clause of `benign` disappears with its defect: once all five switches are in the repaired position
   every history is benign and the full statement holds *)
Theorem C08_benign_when_repaired : forall f files, all_repaired f = true -> forall ops, benign f files ops = true.
Proof. exact (fun f files H ops => benign_when_repaired f files H ops init). Qed.
Print Assumptions C08_benign_when_repaired.

Theorem C08_history_when_repaired : forall f files, all_repaired f = true -> history_full f files.
Proof. exact history_full_when_repaired. Qed.
Print Assumptions C08_history_when_repaired.

(* non-vacuity: three parsers with different settings, interleaved; a config file, a subgroup choice, a tuple,
   print_help/format_help, and a second parse of parser 0 after two other parsers were constructed *)
Example C08_nonvacuous :
  let ops := [Construct 0 cfg_dash CRAuto false; AddArgs 0 K2 "a"; Parse 0 ["--my-x"; "4"];
              Construct 1 init_cfg CRAuto true; AddArgs 1 K4 "a"; AddArgs 1 L1 "b";
              Parse 1 ["--config_path"; "c1.json"; "--model"; "mb"; "--size_b"; "9"];
              Construct 2 cfg_nested CRAuto false; AddArgs 2 K3 "a"; PrintHelp 2; Parse 2 ["--a.pair"; "3"; "x"];
              FormatHelp 0; Parse 0 ["--name"; "w"; "--my-x"; "5"]] in
  benign_gen FILES ops = true
  /\ nth_error (obs_from facts_gen FILES init ops) 6
     = Some (OParse (Ok [("a.my_x", "int:7"); ("a.model", "dc:MB"); ("a.model.size_b", "int:9");
                         ("b.other_y", "int:2"); ("subgroups:a.model", "str:mb");
                         ("+config_path", "list(path:c1.json)")]))
  /\ nth_error (obs_from facts_gen FILES init ops) 10
     = Some (OParse (Ok [("a.my_x", "int:1"); ("a.pair", "tuple(int:3,str:x)")]))
  /\ nth_error (obs_from facts_gen FILES init ops) 12
     = Some (OParse (Ok [("a.my_x", "int:5"); ("a.name", "str:w")])).
Proof. vm_compute. repeat split; reflexivity. Qed.
Print Assumptions C08_nonvacuous.
