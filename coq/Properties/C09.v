(* Properties/C09.v — plain argparse arguments behave as in argparse; the namespace stays clean.
   Only statements closed by `exact`, each followed by Print Assumptions.
   AP (argparse itself) is universally quantified everywhere: nothing is assumed about it. *)
From SPV Require Import Base.Str Model.Coexist Model.CoexistSpec Gen.FactsCoexist Proofs.CoexistProofs.

(* parse_known_args = post (AP (own declarations [+ parents] ++ generated) argv): it rejects exactly when argparse rejects;
   when argparse accepts (and no destination is occupied, the subgroup choices are present) it accepts with the same
   leftovers and every entry whose name is disjoint from the dataclass world is untouched. *)
Theorem C09_frame : forall AP parents plain forest argv,
  match AP (sp_actions parents_site_gen parents plain (generated_gen forest)) argv with
  | Err e => sp_known_gen AP None parents plain forest argv = Err e
  | Ok (n, ex) =>
      post_clean_gen forest (default_keys_gen (sp_actions parents_site_gen parents plain (generated_gen forest))) n = true ->
      exists n', sp_known_gen AP None parents plain forest argv = Ok (n', ex)
        /\ forall ks, names_disjoint ks forest = true -> restrict ks n' = restrict ks n
  end.
Proof. exact frame. Qed.
Print Assumptions C09_frame.

(* every dotted dest set-up registered is popped by post-processing: the three field loops (FieldWrapper creation,
   add_argument, namespace clean-up) range over the same lists and every skip test of the clean-up is covered *)
Theorem C09_no_leak : forall AP pre parents plain forest argv n' ex,
  sp_known_gen AP pre parents plain forest argv = Ok (n', ex) ->
  dotted_apart forest = true ->
  forall a, In a (generated_gen forest) -> ~ In (a_dest a) (keys n').
Proof. exact no_leak. Qed.
Print Assumptions C09_no_leak.

(* the key set of the result: what argparse produced minus the generated dests, plus `subgroups` when subgroups are
   used, plus the add_arguments destinations (each one present unless registered with default=SUPPRESS) *)
Theorem C09_keys : forall AP pre parents plain forest argv n' ex,
  sp_known_gen AP pre parents plain forest argv = Ok (n', ex) ->
  dotted_apart forest = true -> ~ In "subgroups" (field_dests_gen forest) ->
  exists n, AP (sp_actions parents_site_gen parents plain (generated_gen forest)) argv = Ok (n, ex)
    /\ (forall k, In k (keys n') ->
          (In k (keys n) /\ ~ In k (reg_dests_gen forest)) \/ In k (sg_key_gen forest) \/ In k (top_dests forest))
    /\ (forall k, In k (sg_key_gen forest) -> In k (keys n'))
    /\ (forall w d, In (w, d) (top_pairs forest) -> w_suppress w = false -> In d (keys n'))
    /\ (forall ks, names_disjoint ks forest = true -> restrict ks n' = restrict ks n).
Proof. exact keys_result. Qed.
Print Assumptions C09_keys.

(* a namespace entry sitting at a dataclass destination (e.g. a plain dest of the same name) raises RuntimeError,
   unless the destination is a key of parser._defaults (set_defaults) -- that case is accepted by C09_frame *)
Theorem C09_collision : forall AP parents plain forest argv n ex w d,
  AP (sp_actions parents_site_gen parents plain (generated_gen forest)) argv = Ok (n, ex) ->
  In (w, d) (top_pairs forest) -> w_suppress w = false ->
  In d (keys n) -> ~ In d (field_dests_gen forest) ->
  str_in (hd "" (w_dests w)) (default_keys_gen (sp_actions parents_site_gen parents plain (generated_gen forest))) = false ->
  str_nodupb (subgroup_dests_gen forest) && forallb (fun s => mem s n) (subgroup_dests_gen forest) = true ->
  sp_known_gen AP None parents plain forest argv = Err (Raise "RuntimeError").
Proof. exact collision. Qed.
Print Assumptions C09_collision.

(* parents=[..]: "the parser is argparse.ArgumentParser(parents=..) + the same declarations, then the clean-up".
   The statement is selected by the REGENERATED fact: with the parents' actions installed in the constructor (as
   argparse does) it is the full theorem; stored-and-never-used (today) or installed during set-up (after the
   parser's own positionals) it is REFUTED. *)
Theorem C09_parents :
  match parents_site_gen with
  | PInit =>
      forall AP pre parents plain forest argv,
        sp_known_gen AP pre parents plain forest argv = argparse_then_post AP pre parents plain forest argv
  | PNever | PPreprocess =>
      ~ (forall AP pre parents plain forest argv,
           sp_known_gen AP pre parents plain forest argv = argparse_then_post AP pre parents plain forest argv)
  end.
Proof. exact (parents_verdict parents_site_gen). Qed.
Print Assumptions C09_parents.

(* whenever the regenerated boolean says the parents are not installed, the full statement is false *)
Theorem C09_parents_refuted :
  parents_installed_gen = false ->
  ~ (forall AP pre parents plain forest argv,
       sp_known_gen AP pre parents plain forest argv = argparse_then_post AP pre parents plain forest argv).
Proof. exact (parents_not_installed parents_site_gen). Qed.
Print Assumptions C09_parents_refuted.

(* parsers without parents: the statement holds wherever (if anywhere) parents would be installed *)
Theorem C09_parents_partial : forall AP pre plain forest argv,
  sp_known_gen AP pre [] plain forest argv = argparse_then_post AP pre [] plain forest argv.
Proof. exact (parents_partial parents_site_gen). Qed.
Print Assumptions C09_parents_partial.

(* add_argument_group creates the group argparse would create; selected by the regenerated forwarding shape of
   argument_default: `x or self.x` (today) drops falsy overrides such as 0 -- REFUTED *)
Theorem C09_groups :
  match group_default_fwd_gen with
  | FwdIfNone => forall p o, valid_over o = true -> sp_group_gen p o = ap_group p o
  | FwdOr => ~ (forall p o, valid_over o = true -> sp_group_gen p o = ap_group p o)
  end.
Proof. exact (groups_verdict group_prefix_fwd_gen group_default_fwd_gen group_handler_fwd_gen). Qed.
Print Assumptions C09_groups.

Theorem C09_groups_partial : forall p o,
  falsy_given (o_prefix o) = false -> falsy_given (o_default o) = false -> falsy_given (o_handler o) = false ->
  sp_group_gen p o = ap_group p o.
Proof. exact (groups_partial group_prefix_fwd_gen group_default_fwd_gen group_handler_fwd_gen). Qed.
Print Assumptions C09_groups_partial.

(* what the model takes for granted about set-up, read off the source on every run *)
Theorem C09_ties :
  setup_once_same_wrappers_gen = true /\ generated_dest_is_field_dest_gen = true /\ config_arg_by_default_gen = false
  /\ set_defaults_routes_gen = true.
Proof. exact ties_hold. Qed.
Print Assumptions C09_ties.

(* the help action is installed exactly when add_help is true, as in argparse *)
Theorem C09_help : forall add_help, help_installed_gen add_help = add_help.
Proof. exact help_as_argparse. Qed.
Print Assumptions C09_help.

(* model ⊑ spec: with no parents (or parents installed the argparse way), disjoint names and a forest without
   sub-command fields, the pair (argparse's answer, simple_parsing's answer) satisfies the executable C09 spec *)
Theorem C09_meets_spec : forall AP parents plain forest argv declared,
  parents = [] \/ parents_site_gen = PInit ->
  dotted_apart forest = true -> no_unregistered forest = true -> sg_consistent forest = true ->
  match ap_known_gen AP parents plain forest argv with
  | Ok (n, _) => post_clean_gen forest (default_keys_gen (ap_actions parents plain (generated_gen forest))) n = true
  | Err _ => True
  end ->
  spec_run declared (reg_dests_gen forest) (top_dests forest) (sup_top_dests forest) (has_subgroups forest)
           (ap_known_gen AP parents plain forest argv) (sp_known_gen AP None parents plain forest argv) = true.
Proof. exact meets_spec. Qed.
Print Assumptions C09_meets_spec.

(* non-vacuity: a concrete forest (class A at `a`, a nested class, an init=False field), a concrete argparse answer,
   inside every hypothesis above; what the model answers; the collision and the set_defaults exception; the two
   refutation witnesses of C09_parents *)
Example C09_nonvacuous :
  let fa := mkwrap ["a"] false false [mkfield "a.x" false true true false false; mkfield "a.hidden" false false true false false;
                                      mkfield "a.inner" false true true false true] in
  let fi := mkwrap ["a.inner"] false true [mkfield "a.inner.z" false true true false false] in
  let forest := [fa; fi] in
  let plain := [mkact "verbose" KOpt; mkact "pos1" KPos] in
  let raw := [("verbose", NV "true"); ("pos1", NV "p"); ("a.x", NV "4"); ("a.inner.z", NV "1")] in
  let AP := fun (_ : list action) (_ : list string) => Ok (raw, ["--unknown"]) in
  map a_dest (generated_gen forest) = ["a.x"; "a.inner.z"]
  /\ post_clean_gen forest [] raw = true /\ names_disjoint (map a_dest plain) forest = true
  /\ dotted_apart forest = true /\ no_unregistered forest = true /\ sg_consistent forest = true
  /\ sp_known_gen AP None [] plain forest ["--verbose"; "p"; "--x"; "4"; "--unknown"]
     = Ok ([("verbose", NV "true"); ("pos1", NV "p"); ("a", NInst)], ["--unknown"])
  /\ sp_known_gen (fun _ _ => Ok (("a", NV "plain") :: raw, [])) None [] (mkact "a" KOpt :: plain) forest [] = Err (Raise "RuntimeError")
  /\ sp_known_gen (fun _ _ => Ok (("a", NV "dict") :: raw, [])) None [] (mkact "a" KDefault :: plain) forest []
     = Ok ([("a", NInst); ("verbose", NV "true"); ("pos1", NV "p")], [])
  /\ sp_known_gen (fun _ _ => Ok (raw, [])) None [] (mkact "a" KRouted :: plain) forest []
     = Ok ([("verbose", NV "true"); ("pos1", NV "p"); ("a", NInst)], [])
  /\ sp_known_at PNever AP_toy None [mkact "pp" KOpt] [] [] ["4"] = Ok ([], [])
  /\ argparse_then_post AP_toy None [mkact "pp" KOpt] [] [] ["4"] = Ok ([("pp", NV "4")], [])
  /\ sp_known_at PPreprocess AP_toy None [mkact "ppos" KPos] [mkact "cpos" KPos] [] ["1"; "2"] = Ok ([("cpos", NV "1"); ("ppos", NV "2")], [])
  /\ argparse_then_post AP_toy None [mkact "ppos" KPos] [mkact "cpos" KPos] [] ["1"; "2"] = Ok ([("ppos", NV "1"); ("cpos", NV "2")], []).
Proof. vm_compute. repeat split; reflexivity. Qed.
Print Assumptions C09_nonvacuous.
