(* Properties/C16.v — `--help` is complete, accurate, reproducible and has no side effects (PARTIAL by design: the
   ENTRIES of the help are modelled - groups, entries, option strings in order, default shown, help text, exit status and
   stream - not argparse's HelpFormatter layout).  Only statements closed by `exact`, each followed by Print Assumptions.
   `perm` is the hash-seed oracle (iteration order of a set of spellings); `valid perm` = it returns a permutation. *)
From Coq Require Import Permutation.
From SPV Require Import Base.Str Model.OptStr Model.Help Model.HelpSpec Gen.FactsConflicts Gen.FactsHelp Proofs.HelpProofs.

(* one group per dataclass wrapper in order, titled `qualname ['dest']`; inside a group one entry per command-line-exposed
   init field in declaration order; an entry is the entry of that field's action and shows exactly the option strings
   accepted for the field (C10 characterises them), each once - whatever the hash seed *)
Theorem C16_complete : forall perm c D F,
  valid perm ->
  Forall2 (fun w g => g_title g = spec_title w /\ g_desc g = hw_doc w
                      /\ Forall2 (shows c) (filter spec_exposed (hw_fields w)) (g_entries g))
          F (help_entries_gen perm c D F).
Proof. exact help_complete. Qed.
Print Assumptions C16_complete.

(* conversely every entry (= every registered action) is the entry of an exposed field of some destination *)
Theorem C16_entries_only_exposed : forall perm c D F g e,
  In g (help_entries_gen perm c D F) -> In e (g_entries g) ->
  exists w f, In w F /\ In f (hw_fields w) /\ spec_exposed f = true /\ e = entry_of_gen perm c D f.
Proof. exact entries_only_exposed. Qed.
Print Assumptions C16_entries_only_exposed.

(* a cmd=False (or init=False) field has no entry and no action: never shown, never parseable *)
Theorem C16_hidden_never : forall perm c D F w f,
  In w F -> In f (hw_fields w) -> spec_exposed f = false ->
  NoDup (map hdest (flat_map hw_fields F)) ->
  (forall g e, In g (help_entries_gen perm c D F) -> In e (g_entries g) -> e_dest e <> hdest f)
  /\ (forall o, ~ In (o, hdest f) (registered (help_entries_gen perm c D F))).
Proof. exact hidden_never. Qed.
Print Assumptions C16_hidden_never.

(* ... but "never appears" is false of the group DESCRIPTION, which is the class docstring verbatim: the docstring that
   `dataclasses` writes for a class without one is the constructor signature, hidden fields and their defaults included *)
Theorem C16_hidden_in_description_refuted :
  exists perm c D F, valid perm /\ hidden_not_mentioned F (help_entries_gen perm c D F) = false.
Proof. exact hidden_in_description_refuted. Qed.
Print Assumptions C16_hidden_in_description_refuted.

Theorem C16_hidden_not_in_description_partial : forall perm c D F,
  (forall w w' f, In w F -> In w' F -> In f (hw_fields w) -> spec_exposed f = false ->
                  occurs (name (hf_fw f)) (hw_doc w') = false) ->
  hidden_not_mentioned F (help_entries_gen perm c D F) = true.
Proof. exact hidden_not_in_description_partial. Qed.
Print Assumptions C16_hidden_not_in_description_partial.

(* the regenerated DataclassWrapper.description follows the documented precedence for every input *)
Theorem C16_description_rule : forall m b a i cd d sh fd hg,
  description_gen m b a i cd d sh fd hg = spec_description m b a i cd d sh fd hg.
Proof. exact description_gen_rule. Qed.
Print Assumptions C16_description_rule.

(* the default shown is the effective default: the definition's, overridden by what a default instance / set_defaults /
   a config file installed (D; their layering is C06) - also when that value is falsy (0, 0.0, False, "", []): the proof
   uses the regenerated test at the head of FieldWrapper.default (`self._default is not None`).  Side condition: the help text is empty or not blank. *)
Theorem C16_default_shown : forall perm c D f v,
  help_ok f = true -> spec_effective D f = Some v -> e_default (entry_of_gen perm c D f) = Some v.
Proof. exact default_shown. Qed.
Print Assumptions C16_default_shown.

Theorem C16_default_none : forall perm c D f,
  spec_effective D f = None ->
  e_default (entry_of_gen perm c D f) = None \/ e_default (entry_of_gen perm c D f) = Some "None".
Proof. exact default_none. Qed.
Print Assumptions C16_default_none.

(* without the side condition the statement is false: a whitespace-only help text suppresses the default too *)
Theorem C16_default_shown_refuted :
  exists c D f v, spec_effective D f = Some v /\ e_default (entry_of_gen (fun l => l) c D f) = None.
Proof. exact default_shown_refuted. Qed.
Print Assumptions C16_default_shown_refuted.

(* the help text shown is the field's own (the temporary token never leaks) *)
Theorem C16_help_text_shown : forall perm c D f,
  help_ok f = true -> occurs TEMPORARY_TOKEN_gen (hf_help f) = false ->
  e_help (entry_of_gen perm c D f) = hf_help f.
Proof. exact help_text_shown. Qed.
Print Assumptions C16_help_text_shown.

(* `--help` ends with exit status 0 and everything on stdout (set-up failures are C03's) *)
Theorem C16_exit0 : forall perm c m pre cfgf F F',
  setup_gen perm c m F = Ok F' ->
  run_cli_help_gen perm c m pre cfgf F
  = mkrun (Exit 0) (Some (SOut, help_entries_gen perm c (layered pre cfgf) F')).
Proof. exact exit0. Qed.
Print Assumptions C16_exit0.

(* ---- reproducibility -------------------------------------------------------------------------------------------- *)
(* FULL statement - the whole run (conflict resolution included) is a function of the definition: it does not depend on
   the oracle.  Proved FROM the regenerated fact that option_strings de-duplicates through an order-preserving container. *)
Theorem C16_deterministic :
  option_order_preserved_gen = true ->
  forall p1 p2 c m pre cfgf F, run_cli_help_gen p1 c m pre cfgf F = run_cli_help_gen p2 c m pre cfgf F.
Proof. exact deterministic_full. Qed.
Print Assumptions C16_deterministic.

(* with a hash-ordered set it is false: one field with two spellings of the same length, two valid oracles, two texts *)
Theorem C16_deterministic_refuted :
  option_order_preserved_gen = false ->
  exists p1 p2 c m pre cfgf F,
    valid p1 /\ valid p2 /\ run_cli_help_gen p1 c m pre cfgf F <> run_cli_help_gen p2 c m pre cfgf F.
Proof. exact deterministic_refuted. Qed.
Print Assumptions C16_deterministic_refuted.

(* and then even the SET of accepted option strings depends on the seed (the resolver repairs the first clash it meets) *)
Theorem C16_accepted_set_refuted :
  option_order_preserved_gen = false ->
  exists p1 p2 c m F,
    valid p1 /\ valid p2
    /\ In "--cd" (accepted_of (run_cli_help_gen p1 c m [] [] F))
    /\ ~ In "--cd" (accepted_of (run_cli_help_gen p2 c m [] [] F)).
Proof. exact accepted_set_refuted. Qed.
Print Assumptions C16_accepted_set_refuted.

(* PARTIAL, whatever the container: a set-up forest in which no exposed field has two spellings of the same length *)
Theorem C16_deterministic_partial : forall p1 p2 c D F,
  valid p1 -> valid p2 -> forest_tie_free c F = true ->
  help_entries_gen p1 c D F = help_entries_gen p2 c D F.
Proof. exact deterministic_partial. Qed.
Print Assumptions C16_deterministic_partial.

(* ---- print_help() through the API: shows what --help shows, and a later parse returns what a fresh parser returns --- *)
Theorem C16_print_help_inert :
  print_help_applies_config_gen = true ->
  forall perm c m pre cfgf F, api_agrees perm c m pre cfgf F.
Proof. exact print_help_inert. Qed.
Print Assumptions C16_print_help_inert.

Theorem C16_print_help_inert_refuted :
  print_help_applies_config_gen = false ->
  exists perm c m pre cfgf F, valid perm /\ ~ api_agrees perm c m pre cfgf F.
Proof. exact print_help_inert_refuted. Qed.
Print Assumptions C16_print_help_inert_refuted.

Theorem C16_print_help_inert_partial : forall perm c m pre F, api_agrees perm c m pre [] F.
Proof. exact print_help_inert_partial. Qed.
Print Assumptions C16_print_help_inert_partial.

(* ==================================================================================================================== *)
(* STATE OF THE TREE.  These two Examples pin the current values of the two regenerated facts; they stop compiling when *)
(* a fact flips, and are the ONLY lines to edit then:                                                                   *)
(*   after the option_strings fix (dict.fromkeys): change `false` to `true` in C16_order_fact and replace                *)
(*   C16_not_reproducible_today by                                                                                       *)
(*     Theorem C16_reproducible : forall p1 p2 c m pre cfgf F,                                                           *)
(*       run_cli_help_gen p1 c m pre cfgf F = run_cli_help_gen p2 c m pre cfgf F.                                        *)
(*     Proof. exact (C16_deterministic C16_order_fact). Qed.                                                             *)
(*   (same recipe for C16_print_help_fact / C16_print_help_not_inert_today with C16_print_help_inert).                   *)
(* ==================================================================================================================== *)
Example C16_order_fact : option_order_preserved_gen = true.
Proof. reflexivity. Qed.
Print Assumptions C16_order_fact.

(* holds since the fix: commit for option_strings (duplicates removed in insertion order): the help text is a function of the
   definition, whatever order a hash-based container would have produced *)
Theorem C16_reproducible : forall p1 p2 c m pre cfgf F,
  run_cli_help_gen p1 c m pre cfgf F = run_cli_help_gen p2 c m pre cfgf F.
Proof. exact (C16_deterministic C16_order_fact). Qed.
Print Assumptions C16_reproducible.

Example C16_print_help_fact : print_help_applies_config_gen = false.
Proof. reflexivity. Qed.
Print Assumptions C16_print_help_fact.

Theorem C16_print_help_not_inert_today :
  exists perm c m pre cfgf F, valid perm /\ ~ api_agrees perm c m pre cfgf F.
Proof. exact (C16_print_help_inert_refuted C16_print_help_fact). Qed.
Print Assumptions C16_print_help_not_inert_today.

(* ---- non-vacuity: a concrete forest (a hidden field, an equal-length alias, a config-file default), what the model
   prints for it under the identity oracle, and that the oracle rebuilt from observations is always valid ------------- *)
Example C16_nonvacuous :
  valid (perm_of [["--bb"; "--cc"]])
  /\ run_cli_help_gen (perm_of [["--bb"; "--cc"]]) default_cfg_parser CRAuto [] [("a.bb", mkdv "0" true)] demo_forest
     = mkrun (Exit 0) (Some (SOut, [mkgroup "K1 ['a']" "Doc of K1." [mkentry "a.bb" ["--bb"; "--cc"] (Some "0") "the value";
                                                        mkentry "a.x" ["-x"; "--x"] None ""]]))
  /\ forest_tie_free default_cfg_parser [mkhw "K1" ["a"] [] "Doc." [mkhf (mkfw ["a"] "x" "" [] false) true None "" None false]] = true
  /\ NoDup (map hdest (flat_map hw_fields demo_forest)).
Proof.
  split; [apply perm_of_valid|]. split; [vm_compute; reflexivity|]. split; [vm_compute; reflexivity|].
  apply str_nodupb_NoDup. vm_compute. reflexivity.
Qed.
Print Assumptions C16_nonvacuous.
