(* Properties/C18.v — replace() applies exactly the requested nested changes and nothing else.
   Only statements closed by `exact`, each followed by Print Assumptions.
   o ranges over ALL instance trees, cs over ALL change sets (no size bound).  Side conditions are boolean:
     wf_obj o      field names are unique inside every dataclass (Python guarantees it);
     deep_nf cs    the change set is in nested form: distinct, dot-free keys at every level;
     wf_nested cs  deep_nf, and no empty sub-dict (an empty sub-dict has no dotted rendering). *)
From SPV Require Import Base.Str Model.Replace Model.ReplaceSpec Gen.FactsReplace Proofs.ReplaceProofs Proofs.ReplaceMapping.

(* The model (with the separator, exception classes, guard order, recursion condition and left-over step
   regenerated from the source) satisfies the executable spec that the correspondence run evaluates. *)
Theorem C18_meets_spec : forall o cs,
  wf_obj o = true -> deep_nf cs = true -> frame_check o cs (replace_gen o cs) = true.
Proof. exact gen_meets_spec. Qed.
Print Assumptions C18_meets_spec.

(* FRAME 1: every addressed leaf has the new value *)
Theorem C18_frame_addressed : forall o cs o' q v,
  wf_obj o = true -> deep_nf cs = true ->
  replace_gen o cs = Ok o' -> In (q, v) (assigns o cs) -> get o' q = Some v.
Proof. exact gen_frame_addressed. Qed.
Print Assumptions C18_frame_addressed.

(* FRAME 2: every other leaf equals the original *)
Theorem C18_frame_other_leaf : forall o cs o' p x,
  wf_obj o = true -> deep_nf cs = true ->
  replace_gen o cs = Ok o' -> untouched (assigns o cs) p = true ->
  get o p = Some x -> is_dc x = false -> get o' p = Some x.
Proof. exact gen_frame_other_leaf. Qed.
Print Assumptions C18_frame_other_leaf.

(* FRAME 3: every other node keeps its class and its fields (init=False fields: old value or constructor default) *)
Theorem C18_frame_other_node : forall o cs o' p,
  wf_obj o = true -> deep_nf cs = true ->
  replace_gen o cs = Ok o' -> untouched (assigns o cs) p = true -> node_same (get o p) (get o' p) = true.
Proof. exact gen_frame_other_node. Qed.
Print Assumptions C18_frame_other_node.

(* MAPPING VALUES: a mapping assigned to a field that does not hold a dataclass instance is the new VALUE of that field and
   arrives unchanged WHATEVER its keys are (dotted ones included: {"git.sha": ..} stays {"git.sha": ..}).  Only the top
   level of the change set must be in normal form (distinct dot-free keys); nothing is assumed about the mapping or about
   the other entries - the statements under deep_nf above do not cover such values (seeded change C18-07 restructured them). *)
Theorem C18_mapping_value_is_leaf : forall cls fs cs o' k d v,
  wf_obj (VDc cls fs) = true -> keys_ok cs = true ->
  replace_gen (VDc cls fs) cs = Ok o' ->
  dget cs k = Some (VDict d) -> flookup fs k = Some (FInit, v) -> is_dc v = false ->
  get o' [k] = Some (VDict d).
Proof. exact mapping_value_is_leaf. Qed.
Print Assumptions C18_mapping_value_is_leaf.
Example C18_mapping_value_nonvacuous :
  let o := VDc "C0" [("tags", FInit, VDict [("old", VLeaf "int" "1")]); ("n", FInit, VLeaf "int" "2")] in
  let d := [("git.sha", VLeaf "str" "'abc'"); ("x.y.z", VDict [("a.b", VLeaf "int" "0")])] in
  exists o', replace_gen o [("tags", VDict d)] = Ok o' /\ get o' ["tags"] = Some (VDict d) /\ deep_nf [("tags", VDict d)] = false.
Proof. exact mapping_value_dotted_keys_example. Qed.
Print Assumptions C18_mapping_value_nonvacuous.

(* NIL: the empty change set re-runs the constructor and nothing else ... *)
Theorem C18_nil : forall cls fs, replace_gen (VDc cls fs) [] = Ok (VDc cls (reset_noninit fs)).
Proof. exact gen_nil. Qed.
Print Assumptions C18_nil.
(* ... so it returns an equal object whenever the init=False fields hold their defaults *)
Theorem C18_nil_identity : forall cls fs,
  noninit_at_default fs = true -> replace_gen (VDc cls fs) [] = Ok (VDc cls fs).
Proof. exact gen_nil_identity. Qed.
Print Assumptions C18_nil_identity.

(* FORMS: the dotted form produced by flatten_join means what the nested form means ... *)
Theorem C18_forms : forall o cs,
  wf_nested cs = true -> replace_gen o (flatten_join_gen cs) = replace_gen o cs.
Proof. exact gen_forms. Qed.
Print Assumptions C18_forms.
Theorem C18_unflatten_flatten : forall cs,
  wf_nested cs = true -> unflatten_split_gen (flatten_join_gen cs) = Ok cs.
Proof. exact gen_unflatten_flatten. Qed.
Print Assumptions C18_unflatten_flatten.
(* ... at ANY level, for ANY change set (malformed ones fail the same way): dotted keys = their unflattened form *)
Theorem C18_dotted_any_level : forall o ch,
  replace_gen o ch = bind (unflatten_split_gen ch) (fun n => replace_gen o n).
Proof. exact gen_dotted_any_level. Qed.
Print Assumptions C18_dotted_any_level.
(* ... and keywords are the dict *)
Theorem C18_keyword_form : forall o cs, replace_call_gen o None cs = replace_call_gen o (Some cs) [].
Proof. exact gen_keyword. Qed.
Print Assumptions C18_keyword_form.
Theorem C18_both_rejected : forall o x r y k, exists c, replace_call_gen o (Some (x :: r)) (y :: k) = Err (Raise c).
Proof. exact gen_both_rejected. Qed.
Print Assumptions C18_both_rejected.

(* LEVELWISE: the result equals applying dataclasses.replace level by level (same value; or both raise) *)
Theorem C18_levelwise : forall o cs,
  wf_obj o = true -> deep_nf cs = true -> agree (replace_gen o cs) (levelwise o cs).
Proof. exact gen_levelwise. Qed.
Print Assumptions C18_levelwise.

(* ERRORS: a change aimed (at any depth) at an init=False or unknown field raises; nothing else does *)
Theorem C18_errors : forall o cs,
  wf_obj o = true -> deep_nf cs = true -> must_raise o cs = true -> exists c, replace_gen o cs = Err (Raise c).
Proof. exact gen_errors. Qed.
Print Assumptions C18_errors.
Theorem C18_total : forall o cs,
  wf_obj o = true -> deep_nf cs = true -> must_raise o cs = false -> exists o', replace_gen o cs = Ok o'.
Proof. exact gen_total. Qed.
Print Assumptions C18_total.
Theorem C18_errors_top : forall cls fs cs k x,
  wf_obj (VDc cls fs) = true -> deep_nf cs = true ->
  In (k, x) cs -> has_init_field fs k = false -> exists c, replace_gen (VDc cls fs) cs = Err (Raise c).
Proof. exact gen_errors_top. Qed.
Print Assumptions C18_errors_top.

(* ---------- replace_subgroups: "swaps exactly the selected subgroup members" ---------- *)
(* F ranges over ALL selection forests (any depth, any number of selections), passed in the nested form
   {"a": {"__key__": choice, "b": ...}} (render_forest); its abstract reading paths_forest F lists (path, choice) with a
   member before the members below it.  expected_sub assigns each path the member its choice denotes, one after the
   other, with plain path assignment (set_path: C18_set_path_get / C18_set_path_frame say what that leaves alone).
   Boolean side conditions: forest_ok (distinct, dot-free keys different from "__key__"; no empty node), forest_good /
   tgood / vgood (unique field names, init=False fields at their defaults - in the instance, in the instances named by
   choices and in the observed tables), depth_forest F < fuel, and
   present T F o: a member that is not itself selected but has selections below it IS there (a dataclass instance in a
   field whose annotation holds a dataclass).  That last one names the only excluded inputs: see the _refuted witness. *)
Theorem C18_subgroups : forall T F fuel o,
  forest_ok KW F = true -> forest_good F = true -> tgood T = true -> vgood o = true ->
  present T F o = true -> depth_forest F < fuel ->
  match expected_sub T (paths_forest F) o with
  | Some e => rsub_gen T fuel o (Some (render_forest KW F)) = Ok e
  | None => exists x, rsub_gen T fuel o (Some (render_forest KW F)) = Err (Raise x)
  end.
Proof. exact sub_full. Qed.
Print Assumptions C18_subgroups.

(* the selected path holds the member; every path that neither leads to it nor lies below it is untouched *)
Theorem C18_set_path_get : forall p m o o', set_path p m o = Some o' -> get o' p = Some m.
Proof. exact set_path_get. Qed.
Print Assumptions C18_set_path_get.
Theorem C18_set_path_frame : forall p m o o' q, set_path p m o = Some o' ->
  is_prefix p q = false -> is_prefix q p = false -> get o' q = get o q.
Proof. exact set_path_frame. Qed.
Print Assumptions C18_set_path_frame.

Theorem C18_subgroups_nil : forall T fuel o,
  rsub_gen T (S fuel) o None = Ok o /\ rsub_gen T (S fuel) o (Some []) = Ok o.
Proof. exact sub_nil. Qed.
Print Assumptions C18_subgroups_nil.

(* what is still false without `present`: selecting below a member that is not there does not raise *)
Theorem C18_subgroups_absent_member_refuted :
  exists T F o e', forest_ok KW F = true /\ forest_good F = true /\ tgood T = true /\ vgood o = true /\
    expected_sub T (paths_forest F) o = None /\ rsub_gen T 64 o (Some (render_forest KW F)) = Ok e'.
Proof. exact sub_absent_member_refuted. Qed.
Print Assumptions C18_subgroups_absent_member_refuted.

(* ---------- the helper predicates of utils.py (translated whole on every run) are what the model hard-codes ---------- *)
Theorem C18_is_dataclass_instance_bridge : forall v, is_dataclass_instance_gen (kind_of v) = is_dc v.
Proof. exact is_dc_bridge. Qed.
Print Assumptions C18_is_dataclass_instance_bridge.
Theorem C18_resolve_arms_bridge : forall s,
  is_dataclass_type_gen (skind s) = match s with SType _ => true | _ => false end /\
  is_dataclass_instance_gen (skind s) = match s with SInst _ => true | _ => false end.
Proof. exact resolve_arms_bridge. Qed.
Print Assumptions C18_resolve_arms_bridge.
Theorem C18_contains_dc_bridge : forall t, contains_dc_gen t = spec_holds_dc t.
Proof. exact contains_dc_bridge. Qed.
Print Assumptions C18_contains_dc_bridge.
Theorem C18_is_optional_bridge : forall t, is_optional_gen t = spec_optional t.
Proof. exact is_optional_bridge. Qed.
Print Assumptions C18_is_optional_bridge.

(* non-vacuity: a three-level frozen-style tree, a change set with a nested change, a member swap and a dict value;
   its dotted rendering gives the same result; an init=False target raises *)
Definition ex_inner : value := VDc "C2" [("lr", FInit, VLeaf "float" "0.5"); ("n", FNonInit "int" "3", VLeaf "int" "3")].
Definition ex_obj : value :=
  VDc "C0" [("a", FInit, VDc "C1" [("b", FInit, ex_inner); ("name", FInit, VLeaf "str" "'x'")]);
            ("u", FInit, VDc "C3" [("y", FInit, VLeaf "int" "1")]);
            ("d", FInit, VDict [("k", VLeaf "int" "0")]);
            ("opt", FInit, VLeaf "NoneType" "None")].
Definition ex_cs : dict :=
  [("a", VDict [("b", VDict [("lr", VLeaf "float" "0.1")])]);
   ("u", VDc "C4" [("z", FInit, VLeaf "int" "2")]);
   ("d", VDict [("k2", VLeaf "int" "9")])].
Example C18_nonvacuous :
  wf_obj ex_obj = true /\ wf_nested ex_cs = true /\ deep_nf ex_cs = true
  /\ must_raise ex_obj ex_cs = false
  /\ replace_gen ex_obj ex_cs =
       Ok (VDc "C0" [("a", FInit, VDc "C1" [("b", FInit, VDc "C2" [("lr", FInit, VLeaf "float" "0.1");
                                                                    ("n", FNonInit "int" "3", VLeaf "int" "3")]);
                                            ("name", FInit, VLeaf "str" "'x'")]);
                     ("u", FInit, VDc "C4" [("z", FInit, VLeaf "int" "2")]);
                     ("d", FInit, VDict [("k2", VLeaf "int" "9")]);
                     ("opt", FInit, VLeaf "NoneType" "None")])
  /\ dkeys (flatten_join_gen ex_cs) = ["a.b.lr"; "u"; "d.k2"]
  /\ replace_gen ex_obj (flatten_join_gen ex_cs) = replace_gen ex_obj ex_cs
  /\ map fst (assigns ex_obj ex_cs) = [["a"; "b"; "lr"]; ["u"]; ["d"]]
  /\ untouched (assigns ex_obj ex_cs) ["a"; "name"] = true
  /\ must_raise ex_obj [("a", VDict [("b", VDict [("n", VLeaf "int" "4")])])] = true
  /\ replace_gen ex_obj [("a.b.n", VLeaf "int" "4")] = Err (Raise "ValueError")
  /\ replace_gen ex_obj [("a.zz", VLeaf "int" "4")] = Err (Raise "TypeError")
  (* replace_subgroups: a class with an init=False field, a child-only selection two levels down keeps nest.k = 8 *)
  /\ forest_ok KW w_F = true /\ forest_good w_F = true /\ tgood w_T = true
  /\ vgood (w_C (w_AB (w_A "4") "8")) = true /\ present w_T w_F (w_C (w_AB (w_A "4") "8")) = true /\ depth_forest w_F < 3
  /\ paths_forest w_F = [(["nest"; "ab"], CKey "b")]
  /\ render_forest KW w_F = [("nest", SDict [("ab", SKey "b")])]
  /\ rsub_gen w_T 3 (w_C (w_AB (w_A "4") "8")) (Some (render_forest KW w_F)) = Ok (w_C (w_AB w_B "8"))
  /\ expected_sub w_T [(["zz"], CKey "b")] (w_C (w_AB (w_A "4") "8")) = None
  /\ rsub_gen w_T 3 (w_C (w_AB (w_A "4") "8")) (Some [("zz", SKey "b")]) = Err (Raise "ValueError").
Proof. vm_compute. repeat split; reflexivity. Qed.
Print Assumptions C18_nonvacuous.
