(* Properties/C13.v — serialization is pure, emits only primitives, honours the per-field hooks. *)
From Coq Require Import Permutation.
From SPV Require Import Base.Str Model.Serial Model.SerialSpec Gen.FactsBool Gen.FactsSerial Proofs.SerialProofs.
Local Open Scope Z_scope.

(* to_dict / encode output is made only of dict, list, str, int, float, bool, None (dict keys scalar), for EVERY annotation
   and instance, every set order, any user encoding_fn that itself returns primitives.  Side conditions: plain_type
   (no dict keyed by tuples / containers), plain_value (no OrderedDict). *)
Theorem C13_primitive_partial : forall sigma encf,
  (forall l, Permutation (sigma l) l) -> (forall k v, prim_only (encf k v) = true) ->
  forall t v pos, has_type v t = true -> plain_type t = true -> plain_value v = true ->
  prim_only (enc_gen sigma encf pos v) = true.
Proof. exact encode_prim_only. Qed.
Print Assumptions C13_primitive_partial.

(* the statement without plain_value / plain_type is false of the faithful model *)
Theorem C13_primitive_refuted_ordered_dict :
  exists t v, has_type v t = true /\ plain_type t = true /\ prim_only (to_dict_gen sigma_id no_encf v) = false.
Proof. exact primitive_ordered_dict_refuted. Qed.
Print Assumptions C13_primitive_refuted_ordered_dict.
Theorem C13_primitive_refuted_tuple_keys :
  exists t v, has_type v t = true /\ plain_value v = true /\ prim_only (to_dict_gen sigma_id no_encf v) = false
              /\ to_dict_gen sigma_id no_encf v = PDict false [(PStr "x", PList [PTuple [PList [PInt 1; PInt 2]; PInt 3]])].
Proof. exact primitive_tuple_keys_refuted. Qed.
Print Assumptions C13_primitive_refuted_tuple_keys.

(* to_dict omits exactly the to_dict=False fields (keys, in field order) ... *)
Theorem C13_hooks_keys : forall sigma encf k c fs,
  dict_keys (to_dict_gen sigma encf (VDc k c fs)) = map PStr (spec_keys fs).
Proof. exact to_dict_keys. Qed.
Print Assumptions C13_hooks_keys.
(* ... and field i holds encoding_fn_i(value_i) when it has one, the plain encoding otherwise (field i only) *)
Theorem C13_hooks_entry : forall sigma encf k c fs n,
  NoDup (vnames fs) ->
  dict_lookup (to_dict_gen sigma encf (VDc k c fs)) n = spec_entry encf (to_dict_gen sigma encf) fs n.
Proof. exact to_dict_entry. Qed.
Print Assumptions C13_hooks_entry.
(* from_dict stores decoding_fn_i(raw_i) in field i, and the annotation's decoder's result in the others *)
Theorem C13_hooks_from_dict : forall decf k c fs od kvs k' c' out,
  decode_gen decf (TDc k c fs) (PDict od kvs) = Ok (VDc k' c' out) ->
  forall n m x, In (n, m, x) out ->
  forall rawv, dict_get prim_eqb (PStr n) kvs = Some rawv ->
  match m.(m_dec) with
  | Some h => decf h rawv = Ok x
  | None => exists dflt t1, In (n, m, dflt, t1) fs /\ decode_gen decf t1 rawv = Ok x
  end.
Proof. exact from_dict_hooks. Qed.
Print Assumptions C13_hooks_from_dict.
(* inside a container: honoured for Serializable classes, NOT for plain dataclasses (generic branch of encode) *)
Theorem C13_hooks_container_partial : forall sigma encf c fs,
  dict_keys (encode_gen sigma encf (VDc KSer c fs)) = map PStr (spec_keys fs).
Proof. exact container_hooks_registered. Qed.
Print Assumptions C13_hooks_container_partial.
Theorem C13_hooks_container_refuted :
  ~ (forall k c fs, dict_keys (encode_gen sigma_id no_encf (VDc k c fs)) = map PStr (spec_keys fs)).
Proof. exact container_hooks_refuted. Qed.
Print Assumptions C13_hooks_container_refuted.

(* equal instances serialise equally — given one iteration order of sets (explicit oracle argument) ... *)
Theorem C13_function : forall sigma encf v w, v = w -> to_dict_gen sigma encf v = to_dict_gen sigma encf w.
Proof. exact function_of_value. Qed.
Print Assumptions C13_function.
(* ... and not across iteration orders: {0, 8} listed as [0; 8] or [8; 0] *)
Theorem C13_function_refuted :
  exists v s1 s2, (forall l, Permutation (s1 l) l) /\ (forall l, Permutation (s2 l) l) /\
                  has_type v (wit_dc (TSet TInt)) = true /\
                  to_dict_gen s1 no_encf v <> to_dict_gen s2 no_encf v.
Proof. exact function_across_orders_refuted. Qed.
Print Assumptions C13_function_refuted.

(* from_dict leaves its argument as it was, DC_TYPE_KEY entries included (it pops from its own copy: regenerated fact) *)
Theorem C13_argument_untouched : forall p, from_dict_arg_after FROM_DICT_POP DC_TYPE_KEY p = p.
Proof. exact from_dict_leaves_argument. Qed.
Print Assumptions C13_argument_untouched.
(* field() writes the metadata keys that to_dict / decode_field read *)
Theorem C13_hooks_wired : forall m,
  eff_incl HOOKS_WIRED m = m.(m_incl) /\ eff_enc HOOKS_WIRED m = m.(m_enc) /\ eff_dec HOOKS_WIRED m = m.(m_dec).
Proof. exact hooks_wired_ok. Qed.
Print Assumptions C13_hooks_wired.

Definition nv13_val : value :=
  VDc KSer "H" [("a", mkmeta true (Some 7) None, VList [VInt 1; VInt 2]);
                ("h", mkmeta false None None, VStr "hidden");
                ("p", plain_meta, VDict false [(VEnum "Color" "RED", VTup [VPath "a/b"; VSet [VInt 3; VInt 4]])])].
Definition nv13_ty : ty :=
  TDc KSer "H" [("a", mkmeta true (Some 7) None, None, TList TInt);
                ("h", mkmeta false None None, Some (VStr "d"), TStr);
                ("p", plain_meta, None, TDict (TEnum "Color" ["RED"; "BLUE"]) (TTup [TPath; TSet TInt]))].
Example C13_nonvacuous :
  has_type nv13_val nv13_ty = true /\ plain_type nv13_ty = true /\ plain_value nv13_val = true
  /\ to_dict_gen sigma_rev (fun k v => PList [PInt k; PStr "list"]) nv13_val =
     PDict false [(PStr "a", PList [PInt 7; PStr "list"]);
                  (PStr "p", PDict false [(PStr "RED", PList [PStr "a/b"; PList [PInt 4; PInt 3]])])].
Proof. vm_compute. repeat split; reflexivity. Qed.
Print Assumptions C13_nonvacuous.
