(* Properties/C15.v — a file written by save() reproduces the instance when used as a config file.
   Only statements closed by `exact`, each followed by Print Assumptions.
   Quantifier: every type t of the grammar (cfg_type: int, float, str, bool, Path, Enum, List/Tuple of these, Optional of all
   those), every definition default, every well-typed value, every tree of dataclasses; no size bound.  The model is
   instantiated with the tables regenerated from the source (Gen/FactsConfigLoop.v). *)
From SPV Require Import Base.Str Model.Leaf Model.LeafSpec Model.ConfigLoop Model.ConfigLoopSpec
                        Gen.FactsBool Gen.FactsLeaf Gen.FactsConfigLoop Proofs.ConfigLoopProofs.

(* ---- the full statement is FALSE of the faithful model: kept visible, refuted by witnesses ---- *)
(* (#8) None saved for an Optional field whose definition default is not None comes back as the definition default *)
Theorem C15_loop_refuted :
  ~ (forall t defn v, cfg_type t = true -> defn_typed t defn = true -> has_type v t = true ->
       value_via_config_gen t defn (encode_cfg_gen v) = Ok v).
Proof. exact loop_refuted_null. Qed.
Print Assumptions C15_loop_refuted.

(* (#9) even without a None: the items of a List / Tuple of Path or Enum stay strings *)
Theorem C15_loop_refuted_items :
  ~ (forall t defn v, cfg_type t = true -> defn_typed t defn = true -> has_type v t = true ->
       not_null_over_default defn v = true ->
       value_via_config_gen t defn (encode_cfg_gen v) = Ok v).
Proof. exact loop_refuted_items. Qed.
Print Assumptions C15_loop_refuted_items.

Theorem C15_witness_null :
  value_via_config_gen (TOpt TInt) (Some (VInt 5)) (encode_cfg_gen VNone) = Ok (VInt 5).
Proof. exact witness_null. Qed.
Print Assumptions C15_witness_null.
Theorem C15_witness_list_path :
  value_via_config_gen (TList TPath) None (encode_cfg_gen (VList [VPath "a"; VPath "b/c"])) = Ok (VList [VStr "a"; VStr "b/c"]).
Proof. exact witness_list_path. Qed.
Print Assumptions C15_witness_list_path.
Theorem C15_witness_tuple_enum :
  value_via_config_gen (TTupFix [TEnum ["RED"; "GREEN"]; TInt]) None (encode_cfg_gen (VTup [VEnum "RED"; VInt 1]))
  = Ok (VTup [VStr "RED"; VInt 1]).
Proof. exact witness_tuple_enum. Qed.
Print Assumptions C15_witness_tuple_enum.

(* ---- exactly what comes back, for every type of the grammar and every well-typed value ---- *)
Theorem C15_what_comes_back : forall t defn v,
  cfg_type t = true -> defn_typed t defn = true -> has_type v t = true ->
  value_via_config_gen t defn (encode_cfg_gen v) = Ok (comes_back_gen defn v).
Proof. exact leaf_characterised_gen. Qed.
Print Assumptions C15_what_comes_back.

(* ---- the loop closes under the two boolean side conditions that name the excluded inputs ---- *)
Theorem C15_loop_partial : forall t defn v,
  cfg_type t = true -> defn_typed t defn = true -> has_type v t = true ->
  items_plain t = true -> not_null_over_default defn v = true ->
  value_via_config_gen t defn (encode_cfg_gen v) = Ok v.
Proof. exact leaf_partial_gen. Qed.
Print Assumptions C15_loop_partial.

(* scalars (int, float, str, bool, Enum, Path), any definition default: str / Enum name / path string read from the file
   re-enter through the action's type= converter and postprocess, which invert the encoding *)
Theorem C15_scalar_loop : forall t defn v,
  is_item t = true -> has_type v t = true -> value_via_config_gen t defn (encode_cfg_gen v) = Ok v.
Proof. exact scalar_loop_gen. Qed.
Print Assumptions C15_scalar_loop.

(* tuples are written as lists and come back as tuples (postprocess) *)
Theorem C15_tuple_loop : forall ts defn vs,
  forallb plain_item ts = true -> has_type (VTup vs) (TTupFix ts) = true ->
  value_via_config_gen (TTupFix ts) defn (encode_cfg_gen (VTup vs)) = Ok (VTup vs).
Proof. exact tuple_loop_gen. Qed.
Print Assumptions C15_tuple_loop.

Theorem C15_optional_none : forall u defn,
  match defn with Some VNone | None => True | _ => False end ->
  value_via_config_gen (TOpt u) defn (encode_cfg_gen VNone) = Ok VNone.
Proof. exact optional_none_gen. Qed.
Print Assumptions C15_optional_none.

Theorem C15_optional_some : forall u defn v,
  is_item u = true -> has_type v u = true -> value_via_config_gen (TOpt u) defn (encode_cfg_gen v) = Ok v.
Proof. exact optional_some_gen. Qed.
Print Assumptions C15_optional_some.

(* the two defects in general form *)
Theorem C15_null_falls_back : forall u d,
  cfg_type (TOpt u) = true -> has_type d (TOpt u) = true -> d <> VNone ->
  value_via_config_gen (TOpt u) (Some d) (encode_cfg_gen VNone) = Ok d.
Proof. exact null_falls_back_gen. Qed.
Print Assumptions C15_null_falls_back.

Theorem C15_list_items_not_converted : forall u defn vs,
  value_via_config_gen (TList u) defn (encode_cfg_gen (VList vs)) = Ok (VList (map reload_gen vs)).
Proof. exact list_comes_back_gen. Qed.
Print Assumptions C15_list_items_not_converted.
Theorem C15_tuple_items_not_converted : forall ts defn vs,
  value_via_config_gen (TTupFix ts) defn (encode_cfg_gen (VTup vs)) = Ok (VTup (map reload_gen vs)).
Proof. exact tupfix_comes_back_gen. Qed.
Print Assumptions C15_tuple_items_not_converted.
Theorem C15_enum_item_is_its_name : forall m, reload_gen (VEnum m) = VStr m.
Proof. exact reload_enum_gen. Qed.
Print Assumptions C15_enum_item_is_its_name.
Theorem C15_path_item_is_a_str : forall s, reload_gen (VPath s) = VStr s.
Proof. exact reload_path_gen. Qed.
Print Assumptions C15_path_item_is_a_str.

(* ---- nested dataclasses: the loop composes leaf by leaf over a tree of fields ---- *)
Theorem C15_tree_compose : forall s x, loops_gen s x -> load_cfg_gen s (Some (to_dict_gen x)) = Ok x.
Proof. exact tree_compose_gen. Qed.
Print Assumptions C15_tree_compose.

(* a member `m: Optional[Class] = None`: None comes back as None; an instance is built from its section like a plain member *)
Theorem C15_optional_member_none : forall s,
  member_loads s = true -> load_cfg_gen (SOpt s) (Some (to_dict_gen (ILeaf VNone))) = Ok (ILeaf VNone).
Proof. exact optional_member_none_gen. Qed.
Print Assumptions C15_optional_member_none.
(* regression witness (repo commit 41db46a): a member that is None whose class has a Tuple field without a default *)
Theorem C15_witness_absent_member_tuple :
  load_cfg_gen (SOpt (SNode [("t", SLeaf (TTupFix [TInt; TInt]) None)])) (Some (to_dict_gen (ILeaf VNone))) = Ok (ILeaf VNone).
Proof. exact witness_absent_member_tuple. Qed.
Print Assumptions C15_witness_absent_member_tuple.
Theorem C15_optional_member_some : forall s xs,
  load_cfg_gen (SOpt s) (Some (to_dict_gen (INode xs))) = load_cfg_gen s (Some (to_dict_gen (INode xs))).
Proof. exact optional_member_some_gen. Qed.
Print Assumptions C15_optional_member_some.

(* whole instance, each of the four file formats *)
Theorem C15_tree_loop : forall sfx s x,
  str_in sfx four_suffixes = true -> in_quantifier s x = true -> side_conditions s x = true ->
  config_loop_gen sfx s x = Ok x.
Proof. exact tree_loop_gen. Qed.
Print Assumptions C15_tree_loop.

Theorem C15_tree_meets_spec : forall sfx s x,
  str_in sfx four_suffixes = true -> in_quantifier s x = true -> side_conditions s x = true ->
  spec_loop s x (config_loop_gen sfx s x) = true.
Proof. exact tree_meets_spec_gen. Qed.
Print Assumptions C15_tree_meets_spec.

(* every route gives what the plain loop gives: constructor config_path= / --config_path x parse() with the un-rooted file /
   ArgumentParser.add_arguments(cls, dest) with the file keyed by dest (the wiring of the routes is regenerated from the source) *)
Theorem C15_routes_same : forall via a dest sfx s x,
  str_in sfx four_suffixes = true -> config_run_gen via a dest sfx s x = config_loop_gen sfx s x.
Proof. exact routes_same_gen. Qed.
Print Assumptions C15_routes_same.

(* non-vacuity: a nested instance inside the theorem's domain (enum, path, optional, tuple, list, nested class), and the
   model's answer on it for a yaml file; the same class with a List[Path] leaf is inside the quantifier but outside the
   side conditions, and does not loop *)
Example C15_nonvacuous :
  let s := SNode [("c", SLeaf (TEnum ["RED"; "GREEN"]) None); ("p", SLeaf (TOpt TPath) (Some VNone));
                  ("t", SLeaf (TTupFix [TInt; TStr]) None);
                  ("inner", SNode [("xs", SLeaf (TList TFloat) (Some (VList []))); ("o", SLeaf (TOpt TInt) (Some (VInt 5)))]);
                  ("m", SOpt (SNode [("k", SLeaf TInt (Some (VInt 0)))])); ("m2", SOpt (SNode [("k", SLeaf TInt (Some (VInt 0)))]))] in
  let x := INode [("c", ILeaf (VEnum "GREEN")); ("p", ILeaf (VPath "a/b")); ("t", ILeaf (VTup [VInt 1; VStr "x"]));
                  ("inner", INode [("xs", ILeaf (VList [VFlt false 1 "5"])); ("o", ILeaf (VInt 0))]);
                  ("m", INode [("k", ILeaf (VInt 0))]); ("m2", ILeaf VNone)] in
  in_quantifier s x = true /\ side_conditions s x = true /\ config_loop_gen ".yaml" s x = Ok x
  /\ in_quantifier (SNode [("l", SLeaf (TList TPath) None)]) (INode [("l", ILeaf (VList [VPath "a"]))]) = true
  /\ side_conditions (SNode [("l", SLeaf (TList TPath) None)]) (INode [("l", ILeaf (VList [VPath "a"]))]) = false
  /\ config_loop_gen ".json" (SNode [("l", SLeaf (TList TPath) None)]) (INode [("l", ILeaf (VList [VPath "a"]))])
     = Ok (INode [("l", ILeaf (VList [VStr "a"]))]).
Proof. vm_compute. repeat split; reflexivity. Qed.
Print Assumptions C15_nonvacuous.
