(* Properties/C15.v — a file written by save() reproduces the instance when used as a config file.
   Only statements closed by `exact`, each followed by Print Assumptions.
   Quantifier: every type t of the grammar (cfg_type: int, float, str, bool, Path, Enum, List/Tuple of these, Optional of all
   those), every definition default, every well-typed value, every tree of dataclasses; no size bound.  The model is
   instantiated with the tables regenerated from the source (Gen/FactsConfigLoop.v). *)
From SPV Require Import Base.Str Model.Leaf Model.LeafSpec Model.ConfigLoop Model.ConfigLoopSpec
                        Gen.FactsBool Gen.FactsLeaf Gen.FactsConfigLoop Proofs.ConfigLoopProofs.

(* ---- the full statement is FALSE of the faithful model: kept visible, refuted by witnesses ---- *)
(* (#8) None saved for an Optional field whose definition default is not None comes back as the definition default *)
Theorem C15_loop_refuted :
  ~ (forall t defn v, cfg_type t = true -> defn_typed t defn = true -> has_type v t = true ->
       value_via_config_gen NOENV t defn (encode_cfg_gen v) = Ok v).
Proof. exact loop_refuted_null. Qed.
Print Assumptions C15_loop_refuted.

(* (#9) even without a None: the items of a List / Tuple of Path or Enum stay strings *)
Theorem C15_loop_refuted_items :
  ~ (forall t defn v, cfg_type t = true -> defn_typed t defn = true -> has_type v t = true ->
       not_null_over_default defn v = true ->
       value_via_config_gen NOENV t defn (encode_cfg_gen v) = Ok v).
Proof. exact loop_refuted_items. Qed.
Print Assumptions C15_loop_refuted_items.

Theorem C15_witness_null :
  value_via_config_gen NOENV (TOpt TInt) (Some (VInt 5)) (encode_cfg_gen VNone) = Ok (VInt 5).
Proof. exact witness_null. Qed.
Print Assumptions C15_witness_null.
Theorem C15_witness_list_path :
  value_via_config_gen NOENV (TList TPath) None (encode_cfg_gen (VList [VPath "a"; VPath "b/c"])) = Ok (VList [VStr "a"; VStr "b/c"]).
Proof. exact witness_list_path. Qed.
Print Assumptions C15_witness_list_path.
Theorem C15_witness_tuple_enum :
  value_via_config_gen NOENV (TTupFix [TEnum ["RED"; "GREEN"]; TInt]) None (encode_cfg_gen (VTup [VEnum "RED"; VInt 1]))
  = Ok (VTup [VStr "RED"; VInt 1]).
Proof. exact witness_tuple_enum. Qed.
Print Assumptions C15_witness_tuple_enum.

(* ---- exactly what comes back, for every type of the grammar and every well-typed value ---- *)
Theorem C15_what_comes_back : forall E t defn v,
  cfg_type t = true -> defn_typed t defn = true -> has_type v t = true ->
  value_via_config_gen E t defn (encode_cfg_gen v) = Ok (comes_back_gen defn v).
Proof. exact leaf_characterised_gen. Qed.
Print Assumptions C15_what_comes_back.

(* ---- the loop closes under the two boolean side conditions that name the excluded inputs ---- *)
Theorem C15_loop_partial : forall E t defn v,
  cfg_type t = true -> defn_typed t defn = true -> has_type v t = true ->
  items_plain t = true -> not_null_over_default defn v = true ->
  value_via_config_gen E t defn (encode_cfg_gen v) = Ok v.
Proof. exact leaf_partial_gen. Qed.
Print Assumptions C15_loop_partial.

(* scalars (int, float, str, bool, Enum, Path), any definition default: str / Enum name / path string read from the file
   re-enter through the action's type= converter and postprocess, which invert the encoding *)
Theorem C15_scalar_loop : forall E t defn v,
  is_item t = true -> has_type v t = true -> value_via_config_gen E t defn (encode_cfg_gen v) = Ok v.
Proof. exact scalar_loop_gen. Qed.
Print Assumptions C15_scalar_loop.

(* tuples are written as lists and come back as tuples (postprocess) *)
Theorem C15_tuple_loop : forall E ts defn vs,
  forallb plain_item ts = true -> has_type (VTup vs) (TTupFix ts) = true ->
  value_via_config_gen E (TTupFix ts) defn (encode_cfg_gen (VTup vs)) = Ok (VTup vs).
Proof. exact tuple_loop_gen. Qed.
Print Assumptions C15_tuple_loop.

Theorem C15_optional_none : forall E u defn,
  match defn with Some VNone | None => True | _ => False end ->
  value_via_config_gen E (TOpt u) defn (encode_cfg_gen VNone) = Ok VNone.
Proof. exact optional_none_gen. Qed.
Print Assumptions C15_optional_none.

Theorem C15_optional_some : forall E u defn v,
  is_item u = true -> has_type v u = true -> value_via_config_gen E (TOpt u) defn (encode_cfg_gen v) = Ok v.
Proof. exact optional_some_gen. Qed.
Print Assumptions C15_optional_some.

(* the two defects in general form *)
Theorem C15_null_falls_back : forall E u d,
  cfg_type (TOpt u) = true -> has_type d (TOpt u) = true -> d <> VNone ->
  value_via_config_gen E (TOpt u) (Some d) (encode_cfg_gen VNone) = Ok d.
Proof. exact null_falls_back_gen. Qed.
Print Assumptions C15_null_falls_back.

Theorem C15_list_items_not_converted : forall E u defn vs,
  value_via_config_gen E (TList u) defn (encode_cfg_gen (VList vs)) = Ok (VList (map reload_gen vs)).
Proof. exact list_comes_back_gen. Qed.
Print Assumptions C15_list_items_not_converted.
Theorem C15_tuple_items_not_converted : forall E ts defn vs,
  value_via_config_gen E (TTupFix ts) defn (encode_cfg_gen (VTup vs)) = Ok (VTup (map reload_gen vs)).
Proof. exact tupfix_comes_back_gen. Qed.
Print Assumptions C15_tuple_items_not_converted.
Theorem C15_enum_item_is_its_name : forall m, reload_gen (VEnum m) = VStr m.
Proof. exact reload_enum_gen. Qed.
Print Assumptions C15_enum_item_is_its_name.
Theorem C15_path_item_is_a_str : forall s, reload_gen (VPath s) = VStr s.
Proof. exact reload_path_gen. Qed.
Print Assumptions C15_path_item_is_a_str.

(* ---- nested dataclasses: the loop composes leaf by leaf over a tree of fields ---- *)
Theorem C15_tree_compose : forall E s x, loops_gen E s x -> load_cfg_gen E s (Some (to_dict_gen x)) = Ok x.
Proof. exact tree_compose_gen. Qed.
Print Assumptions C15_tree_compose.

(* a member `m: Optional[Class] = None`: None comes back as None; an instance is built from its section like a plain member *)
Theorem C15_optional_member_none : forall E s,
  member_loads s = true ->
  load_cfg_gen E (SOpt s) (Some (to_dict_gen (ILeaf VNone))) = Ok (ILeaf VNone).
Proof. exact optional_member_none_gen. Qed.
Print Assumptions C15_optional_member_none.
(* regression witness (repo commit 41db46a): a member that is None whose class has a Tuple field without a default *)
Theorem C15_witness_absent_member_tuple :
  load_cfg_gen NOENV (SOpt (SNode [("t", SLeaf (TTupFix [TInt; TInt]) None)])) (Some (to_dict_gen (ILeaf VNone))) = Ok (ILeaf VNone).
Proof. exact witness_absent_member_tuple. Qed.
Print Assumptions C15_witness_absent_member_tuple.

(* Enums with a mixed-in data type are inside the full statements above (no side condition): IntEnum members loop by name, falsy or not;
   a member of a (str, Enum) class as a definition default - which argparse takes for a str default - is used unchanged (regression
   witnesses of the two defects repaired by repo commits e04e845 and e9c428e) *)
Theorem C15_witness_int_enum :
  value_via_config_gen (mkenv [] [(["ZERO"; "LOW"; "HIGH"], "ZERO")]) (TEnum ["ZERO"; "LOW"; "HIGH"]) (Some (VEnum "ZERO")) (encode_cfg_gen (VEnum "HIGH"))
  = Ok (VEnum "HIGH")
  /\ load_cfg_gen (mkenv [] [(["ZERO"; "LOW"; "HIGH"], "ZERO")]) (SOpt (SNode [("p", SLeaf (TEnum ["ZERO"; "LOW"; "HIGH"]) (Some (VEnum "ZERO")))]))
       (Some (to_dict_gen (ILeaf VNone))) = Ok (ILeaf VNone).
Proof. exact witness_int_enum. Qed.
Print Assumptions C15_witness_int_enum.
Theorem C15_witness_str_enum_optional_default :
  value_via_config_gen TAG_ENV (TOpt (TEnum ["EMPTY"; "A"; "B"])) (Some (VEnum "A")) (encode_cfg_gen VNone) = Ok (VEnum "A").
Proof. exact witness_str_enum_optional_default. Qed.
Print Assumptions C15_witness_str_enum_optional_default.
Theorem C15_witness_str_enum_falsy_default :
  load_cfg_gen TAG_ENV (SOpt (SNode [("t", SLeaf (TEnum ["EMPTY"; "A"; "B"]) (Some (VEnum "EMPTY")))])) (Some (to_dict_gen (ILeaf VNone)))
  = Ok (ILeaf VNone)
  /\ finish_default_gen TAG_ENV (TEnum ["EMPTY"; "A"; "B"]) (VEnum "EMPTY") = Ok (VEnum "EMPTY").
Proof. exact witness_str_enum_falsy_default. Qed.
Print Assumptions C15_witness_str_enum_falsy_default.
Theorem C15_optional_member_some : forall s xs,
  load_cfg_gen NOENV (SOpt s) (Some (to_dict_gen (INode xs))) = load_cfg_gen NOENV s (Some (to_dict_gen (INode xs))).
Proof. exact optional_member_some_gen. Qed.
Print Assumptions C15_optional_member_some.

(* whole instance, each of the four file formats *)
Theorem C15_tree_loop : forall E sfx s x,
  str_in sfx four_suffixes = true -> in_quantifier s x = true -> side_conditions s x = true ->
  config_loop_gen E sfx s x = Ok x.
Proof. exact tree_loop_gen. Qed.
Print Assumptions C15_tree_loop.

Theorem C15_tree_meets_spec : forall E sfx s x,
  str_in sfx four_suffixes = true -> in_quantifier s x = true -> side_conditions s x = true ->
  spec_loop s x (config_loop_gen E sfx s x) = true.
Proof. exact tree_meets_spec_gen. Qed.
Print Assumptions C15_tree_meets_spec.

(* every route gives what the plain loop gives: constructor config_path= / --config_path x parse() with the un-rooted file /
   ArgumentParser.add_arguments(cls, dest) with the file keyed by dest (the wiring of the routes is regenerated from the source) *)
Theorem C15_routes_same : forall E via a dest sfx s x,
  str_in sfx four_suffixes = true -> config_run_gen E via a dest sfx s x = config_loop_gen E sfx s x.
Proof. exact routes_same_gen. Qed.
Print Assumptions C15_routes_same.

(* non-vacuity: a nested instance inside the theorem's domain (enum, path, optional, tuple, list, nested class), and the
   model's answer on it for a yaml file; the same class with a List[Path] leaf is inside the quantifier but outside the
   side conditions, and does not loop *)
Example C15_nonvacuous :
  let s := SNode [("c", SLeaf (TEnum ["RED"; "GREEN"]) None); ("p", SLeaf (TOpt TPath) (Some VNone));
                  ("t", SLeaf (TTupFix [TInt; TStr]) None);
                  ("inner", SNode [("xs", SLeaf (TList TFloat) (Some (VList []))); ("o", SLeaf (TOpt TInt) (Some (VInt 5)))]);
                  ("m", SOpt (SNode [("k", SLeaf TInt (Some (VInt 0)))])); ("m2", SOpt (SNode [("k", SLeaf TInt (Some (VInt 0)))]))] in
  let x := INode [("c", ILeaf (VEnum "GREEN")); ("p", ILeaf (VPath "a/b")); ("t", ILeaf (VTup [VInt 1; VStr "x"]));
                  ("inner", INode [("xs", ILeaf (VList [VFlt false 1 "5"])); ("o", ILeaf (VInt 0))]);
                  ("m", INode [("k", ILeaf (VInt 0))]); ("m2", ILeaf VNone)] in
  in_quantifier s x = true /\ side_conditions s x = true /\ config_loop_gen NOENV ".yaml" s x = Ok x
  /\ in_quantifier (SNode [("l", SLeaf (TList TPath) None)]) (INode [("l", ILeaf (VList [VPath "a"]))]) = true
  /\ side_conditions (SNode [("l", SLeaf (TList TPath) None)]) (INode [("l", ILeaf (VList [VPath "a"]))]) = false
  /\ config_loop_gen NOENV ".json" (SNode [("l", SLeaf (TList TPath) None)]) (INode [("l", ILeaf (VList [VPath "a"]))])
     = Ok (INode [("l", ILeaf (VList [VStr "a"]))]).
Proof. vm_compute. repeat split; reflexivity. Qed.
Print Assumptions C15_nonvacuous.
