(* Base/Corr.v — plumbing for generated correspondence files (CorrRun/Cxx/cases_k.v). *)
From SPV Require Export Base.Str.

Fixpoint bad_idx_from {A} (f : A -> bool) (i : nat) (l : list A) : list nat :=
  match l with
  | [] => []
  | x :: r => if f x then bad_idx_from f (S i) r else i :: bad_idx_from f (S i) r
  end.
(* indices of the cases on which the boolean check fails *)
Definition bad_idx {A} (f : A -> bool) (l : list A) : list nat := bad_idx_from f 0 l.

Definition list_eqb {A} (eqb : A -> A -> bool) : list A -> list A -> bool :=
  fix go l1 l2 := match l1, l2 with
                  | [], [] => true
                  | x :: r1, y :: r2 => eqb x y && go r1 r2
                  | _, _ => false end.
Definition strs_eqb := list_eqb String.eqb.
Definition opt_eqb {A} (eqb : A -> A -> bool) (a b : option A) : bool :=
  match a, b with Some x, Some y => eqb x y | None, None => true | _, _ => false end.
Definition res_eqb {A} (eqb : A -> A -> bool) (a b : res A) : bool :=
  match a, b with Ok x, Ok y => eqb x y | Err e, Err f => err_eqb e f | _, _ => false end.
(* same elements, any order (for sets / dict views) *)
Definition strs_seteq (a b : list string) : bool :=
  forallb (fun x => str_in x b) a && forallb (fun x => str_in x a) b.
