(* Base/Str.v — byte strings, outcomes, small list helpers shared by every model.
   Executable definitions first, characterising lemmas after them.  Stdlib only. *)
From Coq Require Export List String Ascii Bool Arith ZArith Lia.
Export ListNotations.
Open Scope string_scope.

(* ---------- how a call ends ---------- *)
Inductive err :=
| Exit (n : nat)            (* SystemExit with that status: argparse error path = 2, --help/parser.exit() = 0 *)
| CRE                       (* ConflictResolutionError *)
| Inconsistent              (* InconsistentArgumentError *)
| Raise (cls : string)      (* any other escaping exception, by class name *)
| OutOfFuel.                (* model artefact: excluded by every theorem statement *)

Inductive res (A : Type) := Ok (a : A) | Err (e : err).
Arguments Ok {A} a.
Arguments Err {A} e.

Definition bind {A B} (r : res A) (f : A -> res B) : res B :=
  match r with Ok a => f a | Err e => Err e end.

Definition err_eqb (a b : err) : bool :=
  match a, b with
  | Exit n, Exit m => Nat.eqb n m
  | CRE, CRE | Inconsistent, Inconsistent | OutOfFuel, OutOfFuel => true
  | Raise x, Raise y => String.eqb x y
  | _, _ => false
  end.

(* ---------- characters ---------- *)
Definition ascii_nat (a : ascii) : nat := nat_of_ascii a.
Definition is_upper (a : ascii) : bool := let n := ascii_nat a in Nat.leb 65 n && Nat.leb n 90.
Definition is_digit (a : ascii) : bool := let n := ascii_nat a in Nat.leb 48 n && Nat.leb n 57.
Definition lower_ascii (a : ascii) : ascii := if is_upper a then ascii_of_nat (ascii_nat a + 32) else a.
(* Python str.strip() on ASCII: space, \t \n \v \f \r, and the separators \x1c-\x1f *)
Definition is_space (a : ascii) : bool :=
  let n := ascii_nat a in Nat.eqb n 32 || (Nat.leb 9 n && Nat.leb n 13) || (Nat.leb 28 n && Nat.leb n 31).

(* ---------- strings ---------- *)
Fixpoint lower (s : string) : string :=
  match s with EmptyString => EmptyString | String a r => String (lower_ascii a) (lower r) end.

Fixpoint lstrip_by (p : ascii -> bool) (s : string) : string :=
  match s with EmptyString => EmptyString | String a r => if p a then lstrip_by p r else s end.

Fixpoint srev_acc (s acc : string) : string :=
  match s with EmptyString => acc | String a r => srev_acc r (String a acc) end.
Definition srev (s : string) : string := srev_acc s "".

Definition lstrip (s : string) : string := lstrip_by is_space s.
Definition rstrip (s : string) : string := srev (lstrip_by is_space (srev s)).
Definition strip (s : string) : string := rstrip (lstrip s).

Definition is_dash (a : ascii) : bool := Ascii.eqb a "-"%char.
Definition lstrip_dashes (s : string) : string := lstrip_by is_dash s.
Definition count_leading_dashes (s : string) : nat := String.length s - String.length (lstrip_dashes s).

Fixpoint prefixb (p s : string) : bool :=
  match p, s with
  | EmptyString, _ => true
  | String a p', String b s' => Ascii.eqb a b && prefixb p' s'
  | _, _ => false
  end.

Fixpoint replace_char (c d : ascii) (s : string) : string :=
  match s with
  | EmptyString => EmptyString
  | String a r => String (if Ascii.eqb a c then d else a) (replace_char c d r)
  end.

Fixpoint has_char (c : ascii) (s : string) : bool :=
  match s with EmptyString => false | String a r => Ascii.eqb a c || has_char c r end.

Fixpoint repeat_char (c : ascii) (n : nat) : string :=
  match n with 0 => "" | S k => String c (repeat_char c k) end.

(* str.split(c): never returns [] *)
Fixpoint split_on (c : ascii) (s acc : string) : list string :=
  match s with
  | EmptyString => [acc]
  | String a r => if Ascii.eqb a c then acc :: split_on c r "" else split_on c r (acc ++ String a "")
  end.
Definition split_dot (s : string) : list string := split_on "."%char s "".
Definition join_dot (ws : list string) : string := String.concat "." ws.
Definition words (s : string) : list string := filter (fun w => negb (String.eqb w "")) (split_dot s).

Definition str_in (s : string) (l : list string) : bool := existsb (String.eqb s) l.

Fixpoint str_nodupb (l : list string) : bool :=
  match l with [] => true | x :: r => negb (str_in x r) && str_nodupb r end.

Definition drop (n : nat) (s : string) : string := String.substring n (String.length s - n) s.

(* ---------- lists ---------- *)
Fixpoint dedupe (l : list string) (seen : list string) : list string :=
  match l with
  | [] => []
  | x :: r => if str_in x seen then dedupe r seen else x :: dedupe r (x :: seen)
  end.

Definition last_opt {A} (l : list A) : option A :=
  match rev l with [] => None | x :: _ => Some x end.

(* stable insertion sort by a nat key *)
Fixpoint ins_by {A} (key : A -> nat) (x : A) (l : list A) : list A :=
  match l with
  | [] => [x]
  | y :: r => if Nat.ltb (key x) (key y) then x :: l else y :: ins_by key x r
  end.
Definition sort_by {A} (key : A -> nat) (l : list A) : list A :=
  fold_left (fun acc x => ins_by key x acc) l [].

(* ====================================================================== *)
(* Lemmas                                                                  *)
(* ====================================================================== *)

Lemma str_in_In s l : str_in s l = true <-> In s l.
Proof.
  unfold str_in. rewrite existsb_exists. split.
  - intros [x [Hx He]]. apply String.eqb_eq in He. subst. exact Hx.
  - intros H. exists s. split; [exact H | apply String.eqb_refl].
Qed.

Lemma str_in_false s l : str_in s l = false <-> ~ In s l.
Proof.
  rewrite <- str_in_In. destruct (str_in s l); split; intros H; try congruence.
Qed.

Lemma str_nodupb_NoDup l : str_nodupb l = true <-> NoDup l.
Proof.
  induction l as [|x r IH]; simpl.
  - split; intros; [constructor | reflexivity].
  - rewrite andb_true_iff, negb_true_iff, str_in_false, IH. split.
    + intros [H1 H2]. constructor; assumption.
    + intros H. inversion H; subst. split; assumption.
Qed.

Lemma append_nil_r s : s ++ "" = s.
Proof. induction s as [|a r IH]; simpl; [reflexivity | now rewrite IH]. Qed.

Lemma append_assoc (a b c : string) : (a ++ b) ++ c = a ++ (b ++ c).
Proof. induction a as [|x r IH]; simpl; [reflexivity | now rewrite IH]. Qed.

Lemma append_inv_head (p a b : string) : p ++ a = p ++ b -> a = b.
Proof. induction p as [|x r IH]; simpl; intros H; [exact H | injection H; auto]. Qed.

Lemma length_append (a b : string) : String.length (a ++ b) = String.length a + String.length b.
Proof. induction a as [|x r IH]; simpl; [reflexivity | now rewrite IH]. Qed.

Lemma append_inv_tail (a b s : string) : a ++ s = b ++ s -> a = b.
Proof.
  revert b. induction a as [|x r IH]; intros b H; destruct b as [|y q]; simpl in *.
  - reflexivity.
  - exfalso. assert (L := f_equal String.length H). simpl in L. rewrite length_append in L. lia.
  - exfalso. assert (L := f_equal String.length H). simpl in L. rewrite length_append in L. lia.
  - injection H as Hxy Hr. subst. f_equal. apply IH. exact Hr.
Qed.

(* split / join round trip for dot-free words *)
Definition nodot (w : string) : bool := negb (has_char "."%char w).

Lemma split_on_app_nodot c w acc rest :
  has_char c w = false ->
  split_on c (w ++ String c rest) acc = (acc ++ w) :: split_on c rest "".
Proof.
  revert acc. induction w as [|a r IH]; intros acc H; simpl in *.
  - rewrite Ascii.eqb_refl, append_nil_r. reflexivity.
  - apply orb_false_iff in H as [Ha Hr]. rewrite Ha, IH by exact Hr.
    rewrite append_assoc. reflexivity.
Qed.

Lemma split_on_nodot c w acc : has_char c w = false -> split_on c w acc = [acc ++ w].
Proof.
  revert acc. induction w as [|a r IH]; intros acc H; simpl in *.
  - now rewrite append_nil_r.
  - apply orb_false_iff in H as [Ha Hr]. rewrite Ha, IH by exact Hr. now rewrite append_assoc.
Qed.

Lemma split_join_dot ws :
  ws <> [] -> forallb nodot ws = true -> split_dot (join_dot ws) = ws.
Proof.
  unfold split_dot, join_dot, nodot.
  induction ws as [|w r IH]; intros Hne Hall; [congruence|].
  simpl in Hall. apply andb_true_iff in Hall as [Hw Hr]. apply negb_true_iff in Hw.
  destruct r as [|w2 r2].
  - simpl. now rewrite split_on_nodot.
  - change (String.concat "." (w :: w2 :: r2)) with (w ++ String "."%char (String.concat "." (w2 :: r2))).
    rewrite split_on_app_nodot by exact Hw. simpl app.
    f_equal. apply IH; [congruence | exact Hr].
Qed.

Lemma join_dot_inj ws1 ws2 :
  ws1 <> [] -> ws2 <> [] -> forallb nodot ws1 = true -> forallb nodot ws2 = true ->
  join_dot ws1 = join_dot ws2 -> ws1 = ws2.
Proof.
  intros N1 N2 H1 H2 E.
  rewrite <- (split_join_dot ws1 N1 H1), <- (split_join_dot ws2 N2 H2), E. reflexivity.
Qed.

Lemma last_opt_app {A} (l : list A) x : last_opt (l ++ [x]) = Some x.
Proof. unfold last_opt. rewrite rev_app_distr. reflexivity. Qed.
