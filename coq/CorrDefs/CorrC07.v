(* CorrDefs/CorrC07.v — what one generated C07 case looks like inside Coq, and the checks run on it. *)
From SPV Require Export Base.Corr Model.Subgroups Model.SubgroupsSpec Gen.FactsSubgroups.

Inductive case :=
| SgCase (tree : dc)                                  (* the declared subgroup tree *)
         (root : string)                              (* destination given to add_arguments *)
         (tb : optab)                                 (* registered spellings, read from the implementation's field wrappers *)
         (toks : list (tok * option path))            (* what was written, and the destination it denotes (spec side) *)
         (loose : bool)                               (* some option was written as an abbreviation of what it denotes *)
         (objannot : bool)                            (* some entry is a function annotated with the class OBJECT (`-> A`): the
                                                         model reads it as the class only if the library does *)
         (obs : res (val * list (path * string)))     (* value at the destination + namespace.subgroups, or how it ended *)
         (reg : option (list path))                   (* destinations of all field wrappers after a completed set-up *)
         (stable : bool)                              (* no subgroup option changed its spelling between rounds *)
         (extra : list string)                        (* other attributes left in the namespace *)
| CmdCase (cname : string) (pleaves : list (string * Z)) (cf : cmdfield)
          (ptab : list (string * string)) (stabs : list (string * list (string * string)))
          (before : list (tok * option string)) (name : option string) (after : list (tok * option string))
          (obs : res val) (extra : list string).

Definition paths_seteq (a b : list path) : bool :=
  forallb (fun x => path_in x b) a && forallb (fun x => path_in x a) b.

Definition out_eqb (a b : res (val * list (path * string))) : bool :=
  res_eqb (fun x y => val_eqb (fst x) (fst y) && rep_eqb (snd x) (snd y)) a b.

Definition in_scope (c : case) : bool :=
  match c with
  | SgCase tree _ tb _ _ _ _ _ _ _ => declared_dc tree && wf_dc tree && str_nodupb (map fst tb)
  | CmdCase _ _ _ ptab stabs _ _ _ _ _ => str_nodupb (map fst ptab) && forallb (fun s => str_nodupb (map fst (snd s))) stabs
  end.

Definition model_ok (c : case) : bool :=
  match c with
  | SgCase tree root tb toks _ objannot obs reg stable extra =>
      let argv := map fst toks in
      let fuel := depth_dc tree in                       (* exactly the number of rounds C07_fuel promises *)
      stable
      && (negb objannot || callable_type_from_object_annotation_gen)
      && match extra with [] => true | _ => false end
      && out_eqb (parse_gen fuel tb argv [root] tree) obs
      && match reg with
         | None => match resolve_gen fuel tb argv [root] tree with Ok _ => false | Err _ => true end
         | Some ps => match resolve_gen fuel tb argv [root] tree with
                      | Ok r => paths_seteq (registered_gen [root] r) ps
                      | Err _ => false
                      end
         end
  | CmdCase cname pleaves cf ptab stabs before name after obs extra =>
      match extra with [] => true | _ => false end
      && res_eqb val_eqb (cmd_parse_gen cname pleaves cf ptab stabs (map fst before) name (map fst after)) obs
  end.

Definition obs_cmd (o : res val) : res (val * list (path * string)) :=
  match o with Ok v => Ok (v, []) | Err e => Err e end.

Definition spec_ok (c : case) : bool :=
  match c with
  | SgCase tree root tb toks loose _ obs _ stable extra =>
      existsb (fun t => reads_as_other tb (fst (fst t)) (snd t)) toks          (* the property is silent *)
      || (stable && match extra with [] => true | _ => false end
          && expect_allows (relax loose (spec tree [root] (map (fun t => (snd t, snd (fst t))) toks))) obs)
  | CmdCase cname pleaves cf _ _ before name after obs extra =>
      match extra with [] => true | _ => false end
      && expect_allows (cmd_spec cname pleaves (cf_name cf) (cf_table cf) (cf_default cf)
                                 (map (fun t => (snd t, snd (fst t))) before) name
                                 (map (fun t => (snd t, snd (fst t))) after)) (obs_cmd obs)
  end.
