(* CorrDefs/CorrC06.v — one generated C06 case inside Coq, and the two checks run on it.
   A case is either one parse (dataclass trees, the five layers as they were given to the implementation, what came
   back) or one direct call of utils.dict_union. *)
From SPV Require Export Base.Corr Model.Layers Model.LayersSpec Gen.FactsLayers.

Inductive api :=
| ApiParse (nm : option nmode)      (* simple_parsing.parse(cls, ...); None = nested_mode left to its default *)
| ApiParser (nm : option nmode).    (* ArgumentParser(...) + add_arguments per destination + parse_args *)

Record pcase := mkpcase {
  c_api : api;
  c_ws : list (string * wtree);     (* destinations and their dataclasses (fresh wrappers: no instance, _default None) *)
  c_unrooted : bool;                (* files hold the fields of the only destination directly (the WITHOUT_ROOT layout) *)
  c_inst : ptree;                   (* default= instances by destination, as the implementation saw them (every field) *)
  c_sdefs : list ptree;             (* dicts given to parser.set_defaults(dest=..) before parsing (an instance: its asdict) *)
  c_acp : option bool;              (* add_config_path_arg *)
  c_ctor : list ptree;              (* documents of config_path=, as written to the files *)
  c_cli_given : bool;               (* --config_path present in argv *)
  c_clif : list ptree;              (* its documents, as written *)
  c_cli : ptree;                    (* options written in argv, by destination and field path *)
  c_obs : res ptree                 (* the parsed dataclasses by destination, or how the call ended *)
}.

Inductive case :=
| ParseCase (c : pcase)
| UnionCase (a b : ptree) (obs : res ptree).

Definition nm_of (a : api) : nmode :=
  match a with
  | ApiParse None => PARSE_NESTED_MODE_GEN
  | ApiParser None => AP_NESTED_MODE_GEN
  | ApiParse (Some m) | ApiParser (Some m) => m
  end.

(* the document keyed by destination, as the layout chosen by the generator means it (no reference to the code) *)
Definition by_dest (c : pcase) (f : ptree) : ptree :=
  if c.(c_unrooted) then match c.(c_ws) with (d, _) :: _ => PMap [(d, f)] | [] => f end else f.

Definition no_path_section (ws : list (string * wtree)) (t : ptree) : bool :=
  match t with
  | PMap m => forallb (fun dw => match lookup (fst dw) m with Some (PVal (VStr _)) => false | _ => true end) ws
  | _ => false
  end.

Definition in_scope (x : case) : bool :=
  match x with
  | ParseCase c =>
      forallb (fun f => no_path_section c.(c_ws) (by_dest c f)) (c.(c_ctor) ++ c.(c_clif))%list
      && forallb (no_path_section c.(c_ws)) c.(c_sdefs)
  | UnionCase a b _ => is_map a && is_map b
  end.

Definition model_ok (x : case) : bool :=
  match x with
  | ParseCase c =>
      res_eqb pt_eqb
        (run_gen (nm_of c.(c_api)) c.(c_ws) c.(c_inst) c.(c_sdefs) c.(c_acp) c.(c_ctor) c.(c_cli_given) c.(c_clif) c.(c_cli))
        c.(c_obs)
  | UnionCase a b obs =>
      match obs with Ok u => pt_equiv (dict_union_gen a b) u | Err _ => false end
  end.

Definition spec_ok (x : case) : bool :=
  match x with
  | ParseCase c =>
      verdict_allows
        (spec_verdict c.(c_ws) c.(c_inst) c.(c_sdefs) (map (by_dest c) c.(c_ctor))
                      (if c.(c_cli_given) then map (by_dest c) c.(c_clif) else []) c.(c_cli))
        c.(c_obs)
  | UnionCase a b obs =>
      match obs with Ok u => union_law_holds a b u | Err _ => false end
  end.
