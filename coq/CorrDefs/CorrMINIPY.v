(* CorrDefs/CorrMINIPY.v — one differential case for the MiniPy interpreter (Model/MiniPy.v): a program of the fragment,
   an environment, and what CPython answered when the same program - printed back to Python source, the inverse of
   harness/translate/minipy.py - was executed as a function body with the environment as arguments. *)
From SPV Require Export Base.Corr Model.MiniPy.

Record case := mkcase {
  c_env : env;
  c_prog : block;
  c_translatable : bool;        (* false: harness/translate/minipy.py refuses the program (a list that is mutated while it is
                                   reachable through another name); nothing is claimed about such programs *)
  c_obs : res val               (* the returned value, or Err (Raise <exception class name>) *)
}.

(* structural identity of observed values: True and 1 are DIFFERENT results (val_eqb is Python's ==, where they are equal) *)
Fixpoint val_same (a b : val) : bool :=
  match a, b with
  | VS x, VS y => String.eqb x y
  | VB x, VB y => Bool.eqb x y
  | VN x, VN y => Nat.eqb x y
  | VNone, VNone => true
  | VL xs, VL ys | VT xs, VT ys =>
      (fix eq l1 l2 := match l1, l2 with
                       | [], [] => true
                       | x :: r1, y :: r2 => val_same x y && eq r1 r2
                       | _, _ => false end) xs ys
  | VC x, VC y => String.eqb x y
  | VD xs, VD ys =>          (* observed dicts are compared WITH their insertion order *)
      (fix eq l1 l2 := match l1, l2 with
                       | [], [] => true
                       | (k, x) :: r1, (k', y) :: r2 => val_same k k' && val_same x y && eq r1 r2
                       | _, _ => false end) xs ys
  | VR c xs, VR d ys =>
      String.eqb c d
      && (fix eq l1 l2 := match l1, l2 with
                          | [], [] => true
                          | (k, x) :: r1, (k', y) :: r2 => String.eqb k k' && val_same x y && eq r1 r2
                          | _, _ => false end) xs ys
  | _, _ => false
  end.

(* The interpreter's one generic error, MiniPyTypeError ("the operation is not defined on these values in the fragment"),
   stands for exactly these Python exceptions:
     TypeError       an operator or builtin applied to operands of the wrong type (len(3), "a" + 1, for x in 3, 1 in 3, ...)
     AttributeError  a str / list method called on something else (3 .replace, "a".append, None.split, ...)
     NameError       ONLY for x.append(e) / x.extend(e) with x unbound (the interpreter does not distinguish an unbound
                     target from a target that is not a list)
   Every other exception is named by the interpreter itself and must match by class: NameError (reading an unbound name),
   IndexError, ValueError (unpacking too short a list), AssertionError, the class of a `raise`, and MiniPyNegativeNumber
   (a subtraction whose result would be negative: the fragment has naturals only; the runner executes `a - b` through a
   guard that raises this class, so that agreement means: equal results as long as no intermediate number is negative). *)
Definition STANDS_FOR : list string := ["TypeError"; "AttributeError"; "NameError"].

Definition outcome_agrees (m o : res val) : bool :=
  match m, o with
  | Ok v, Ok w => val_same v w
  | Err (Raise a), Err (Raise b) => if String.eqb a "MiniPyTypeError" then str_in b STANDS_FOR else String.eqb a b
  | Err a, Err b => err_eqb a b
  | _, _ => false
  end.

Definition in_scope (c : case) : bool := true.
Definition model_ok (c : case) : bool :=
  if c.(c_translatable) then outcome_agrees (run c.(c_env) c.(c_prog)) c.(c_obs) else true.
Definition spec_ok (c : case) : bool := model_ok c.
