(* CorrDefs/CorrC12.v — what one generated C12 case looks like inside Coq, and the two checks run on it. *)
From SPV Require Export Base.Corr Model.BoolFlag Model.BoolFlagSpec Gen.FactsBool.

Record case := mkcase {
  c_np : string;                 (* negative_prefix given to the field (or the default) *)
  c_nopt : option string;        (* explicit negative_option *)
  c_cpfx : string;               (* FieldWrapper.prefix, as observed *)
  c_pos : list string;           (* FieldWrapper.option_strings, as observed *)
  c_all : list string;           (* the registered action's option_strings, as observed *)
  c_default : option bool;       (* None = required *)
  c_occs : list (okind * string);(* what the user meant, and the exact option string written *)
  c_expect_negs : list string;   (* documented negatives of the long positives *)
  c_obs : res bool               (* how the parse ended / the field's value *)
}.

Definition to_occ (p : okind * string) : occ :=
  match p with
  | (PosBare, o) | (NegBare, o) => Bare o
  | (PosVal v, o) | (NegVal v, o) => Valued o v
  end.

Definition in_scope (c : case) : bool := true.

Definition model_ok (c : case) : bool :=
  match negative_option_strings c.(c_np) c.(c_nopt) c.(c_cpfx) c.(c_pos) with
  | None => false
  | Some negs =>
      strs_eqb (c.(c_pos) ++ negs) c.(c_all)
      && res_eqb Bool.eqb (eval_flag_gen negs c.(c_default) (map to_occ c.(c_occs))) c.(c_obs)
  end.

Definition spec_ok (c : case) : bool :=
  forallb (fun n => str_in n c.(c_all)) c.(c_expect_negs)
  && expect_allows (spec_flag c.(c_default) (map fst c.(c_occs))) c.(c_obs).
