(* CorrDefs/CorrC18.v — what one generated C18 case looks like inside Coq, and the checks run on it. *)
From SPV Require Export Base.Corr Model.Replace Model.ReplaceSpec Gen.FactsReplace.

Record case := mkcase {
  c_obj : value;                 (* the instance handed to replace (as it was before the call) *)
  c_cd : option dict;            (* the `changes_dict` argument exactly as passed (None = not passed) *)
  c_kw : dict;                   (* the keyword arguments exactly as passed *)
  c_abs : option dict;           (* the abstract change set (nested, dot-free) the passed form renders; None = malformed stream *)
  c_obs : res value;             (* OBSERVED: result tree / exception class *)
  c_same_type : bool;            (* OBSERVED: type(result) is type(obj) *)
  c_input_unchanged : bool;      (* OBSERVED: obj equals its deep copy taken before the call *)
  c_unflat : res dict;           (* OBSERVED: utils.unflatten_split(changes_dict or changes) *)
  c_flat : option dict;          (* OBSERVED: utils.flatten_join(abstract change set) *)
  c_ref : option (res value)     (* OBSERVED: the real dataclasses.replace applied level by level along the abstract set *)
}.

Definition dict_eqb (a b : dict) : bool := value_eqb (VDict a) (VDict b).

Definition effective (c : case) : dict :=
  match c.(c_cd) with Some (x :: r) => x :: r | _ => c.(c_kw) end.

Definition in_scope (c : case) : bool :=
  wf_obj c.(c_obj) && match c.(c_abs) with Some a => deep_nf a | None => true end.

Definition model_ok (c : case) : bool :=
  res_eqb value_eqb (replace_call_gen c.(c_obj) c.(c_cd) c.(c_kw)) c.(c_obs)
  && res_eqb dict_eqb (unflatten_split_gen (effective c)) c.(c_unflat)
  && match c.(c_abs), c.(c_flat) with Some a, Some f => dict_eqb (flatten_join_gen a) f | _, _ => true end
  && match c.(c_abs), c.(c_ref) with Some a, Some r => res_eqb value_eqb (levelwise c.(c_obj) a) r | _, _ => true end.

Definition spec_ok (c : case) : bool :=
  c.(c_input_unchanged)
  && match c.(c_obs) with Ok _ => c.(c_same_type) | Err _ => true end
  && match c.(c_abs) with
     | None => true
     | Some a =>
         frame_check c.(c_obj) a c.(c_obs)
         && match c.(c_ref) with Some r => res_agree c.(c_obs) r | None => true end
     end.
