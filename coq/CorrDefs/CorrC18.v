(* CorrDefs/CorrC18.v — what one generated C18 case looks like inside Coq, and the checks run on it. *)
From SPV Require Export Base.Corr Model.Replace Model.ReplaceSpec Gen.FactsReplace.

Record rcase := mkcase {
  c_obj : value;                 (* the instance handed to replace (as it was before the call) *)
  c_cd : option dict;            (* the `changes_dict` argument exactly as passed (None = not passed) *)
  c_kw : dict;                   (* the keyword arguments exactly as passed *)
  c_abs : option dict;           (* the abstract change set (nested, dot-free) the passed form renders; None = malformed stream *)
  c_obs : res value;             (* OBSERVED: result tree / exception class *)
  c_same_type : bool;            (* OBSERVED: type(result) is type(obj) *)
  c_input_unchanged : bool;      (* OBSERVED: obj equals its deep copy taken before the call *)
  c_unflat : res dict;           (* OBSERVED: utils.unflatten_split(changes_dict or changes) *)
  c_flat : option dict;          (* OBSERVED: utils.flatten_join(abstract change set) *)
  c_ref : option (res value)     (* OBSERVED: the real dataclasses.replace applied level by level along the abstract set *)
}.

Definition dict_eqb (a b : dict) : bool := value_eqb (VDict a) (VDict b).

Definition effective (c : rcase) : dict :=
  match c.(c_cd) with Some (x :: r) => x :: r | _ => c.(c_kw) end.

Definition r_in_scope (c : rcase) : bool :=
  wf_obj c.(c_obj) && match c.(c_abs) with Some a => deep_nf a | None => true end.

Definition r_model_ok (c : rcase) : bool :=
  res_eqb value_eqb (replace_call_gen c.(c_obj) c.(c_cd) c.(c_kw)) c.(c_obs)
  && res_eqb dict_eqb (unflatten_split_gen (effective c)) c.(c_unflat)
  && match c.(c_abs), c.(c_flat) with Some a, Some f => dict_eqb (flatten_join_gen a) f | _, _ => true end
  && match c.(c_abs), c.(c_ref) with Some a, Some r => res_eqb value_eqb (levelwise c.(c_obj) a) r | _, _ => true end.

Definition r_spec_ok (c : rcase) : bool :=
  c.(c_input_unchanged)
  && match c.(c_obs) with Ok _ => c.(c_same_type) | Err _ => true end
  && match c.(c_abs) with
     | None => true
     | Some a =>
         frame_check c.(c_obj) a c.(c_obs)
         && match c.(c_ref) with Some r => res_agree c.(c_obs) r | None => true end
     end.

(* ---------- replace_subgroups cases ---------- *)
Record scase := mkscase {
  s_tables : tables;                       (* OBSERVED static facts: per (class, field) and per class, see Model/Replace.v *)
  s_obj : value;                           (* the instance (as it was before the call) *)
  s_sel : option sdict;                    (* the selections exactly as passed (None = None) *)
  s_abs : option (list (path * choice));   (* the abstract selections (shallowest first) the passed form renders; None = malformed *)
  s_obs : res value;                       (* OBSERVED result *)
  s_input_unchanged : bool;                (* OBSERVED: obj equals its deep copy taken before the call *)
  s_unflat : sdict;                        (* OBSERVED: _unflatten_selection_dict(selections, "__key__", recursive=False) *)
  s_anns : list (string * string * ann)    (* the annotation the generator WROTE for (class, field) *)
}.

(* the has-a-dataclass / is-Optional columns of the observed tables are what the regenerated helpers compute from the
   annotation that was written *)
Definition anns_ok (T : tables) (l : list (string * string * ann)) : bool :=
  forallb (fun cfa => match meta_of (t_meta T) (fst (fst cfa)) (snd (fst cfa)) with
                      | Some m => Bool.eqb (contains_dc_gen (snd cfa)) (m_has_dc m)
                                  && Bool.eqb (is_optional_gen (snd cfa)) (m_optional m)
                      | None => false
                      end) l.

Fixpoint sel_eqb (a b : sel) : bool :=
  match a, b with
  | SKey x, SKey y => String.eqb x y
  | SType x, SType y => String.eqb x y
  | SInst x, SInst y => value_eqb x y
  | SNone, SNone | SOther, SOther => true
  | SDict d1, SDict d2 => all2 (fun x y => String.eqb (fst x) (fst y) && sel_eqb (snd x) (snd y)) d1 d2
  | _, _ => false
  end.
Definition sdict_eqb (a b : sdict) : bool := sel_eqb (SDict a) (SDict b).

Definition FUEL : nat := 64.   (* selection paths are at most 4 long; every recursive call consumes one *)

Definition s_in_scope (c : scase) : bool := wf_obj c.(s_obj).
Definition s_model_ok (c : scase) : bool :=
  res_eqb value_eqb (rsub_gen c.(s_tables) FUEL c.(s_obj) c.(s_sel)) c.(s_obs)
  && match c.(s_sel) with Some d => sdict_eqb (unflatten_selection_gen d) c.(s_unflat) | None => true end
  && anns_ok c.(s_tables) c.(s_anns).
(* the SPEC reads "holds a dataclass" / "is Optional" off the annotation that was WRITTEN (spec_holds_dc, spec_optional),
   not off what the implementation's helpers answered; everything else in the tables is observed *)
Fixpoint ann_of (l : list (string * string * ann)) (cls name : string) : option ann :=
  match l with
  | [] => None
  | (c, n, a) :: r => if String.eqb c cls && String.eqb n name then Some a else ann_of r cls name
  end.
Definition spec_tables (T : tables) (l : list (string * string * ann)) : tables :=
  mktables (map (fun cnm => match ann_of l (fst (fst cnm)) (snd (fst cnm)) with
                            | Some a => (fst cnm, mkfmeta (spec_holds_dc a) (spec_optional a)
                                                          (m_subgroups (snd cnm)) (m_factory (snd cnm)))
                            | None => cnm
                            end) (t_meta T))
           (t_classes T).

Definition s_spec_ok (c : scase) : bool :=
  c.(s_input_unchanged)
  && match c.(s_abs) with
     | Some a => sub_check (spec_tables c.(s_tables) c.(s_anns)) a c.(s_obj) c.(s_obs)
     | None => true
     end.

Inductive case := CRep (c : rcase) | CSub (c : scase).
Definition in_scope (c : case) : bool := match c with CRep r => r_in_scope r | CSub s => s_in_scope s end.
Definition model_ok (c : case) : bool := match c with CRep r => r_model_ok r | CSub s => s_model_ok s end.
Definition spec_ok (c : case) : bool := match c with CRep r => r_spec_ok r | CSub s => s_spec_ok s end.
