(* CorrDefs/CorrC01.v — one generated C01 case inside Coq: configuration, forest, and how parsing [] ended on the implementation. *)
From SPV Require Export Base.Corr Model.Defaults Model.DefaultsSpec Gen.FactsBool Gen.FactsConflicts Gen.FactsDefaults.

Record case := mkcase {
  c_cfg : pcfg;
  c_forest : forest;
  c_obs : res (list (string * vt))      (* per destination, the instance found in the namespace / returned by parse() *)
}.

(* the inputs the property quantifies over (the generator produces nothing else) *)
Definition in_scope (c : case) : bool := wf_forest c.(c_forest) && api_ok c.(c_cfg) c.(c_forest).

Definition obs_eqb (a b : res (list (string * vt))) : bool := res_eqb results_eqb a b.

(* the model's answer equals the observed one.  Under ALWAYS_MERGE the interpreter over the wrapper store is run on EVERY case; where
   the structural model applies (uniform_scope) both must agree with the implementation. *)
Definition model_ok (c : case) : bool :=
  obs_eqb (sp_parse_empty_gen c.(c_cfg) c.(c_forest)) c.(c_obs)
  && match p_mode c.(c_cfg) with
     | MMerge => obs_eqb (parse_merge_gen (option_strings (p_cfg c.(c_cfg))) c.(c_forest)) c.(c_obs)
     | MPlain _ => true
     end.

Definition spec_ok (c : case) : bool := spec_ok_obs c.(c_forest) c.(c_obs).
