(* CorrDefs/CorrARGP.v — one differential case: an action set, an argv, and what the real
   argparse.ArgumentParser (CPython, add_help=False) answered through parse_known_args and parse_args. *)
From SPV Require Export Base.Corr Model.ArgparseM Model.ArgparseMSpec Model.ArgparsePos Model.ArgparsePosSpec.

Definition ins := ns (stored ival).

Record case := mkcase {
  c_abbrev : bool;                                   (* allow_abbrev *)
  c_acts : list iact;                                (* add_argument calls, in order *)
  c_argv : list string;
  c_known : res (ins * list string);                 (* observed parse_known_args: vars(namespace) in order + leftovers *)
  c_args : res ins;                                  (* observed parse_args *)
  c_twin : option (list string * res (ins * list string))
                                                     (* the same argv with `opt=v` / `-xv` groups written as two tokens,
                                                        and parse_known_args observed on it *)
}.

Definition known_eqb (a b : res (ins * list string)) : bool :=
  res_eqb (fun x y => ns_eqb ival_eqb (fst x) (fst y) && strs_eqb (snd x) (snd y)) a b.

(* cases whose action set contains positionals (actions without option strings) are judged by Model/ArgparsePos.v;
   the others by Model/ArgparseM.v AND by Model/ArgparsePos.v (which must agree) *)
Definition has_pos (c : case) : bool := existsb is_positional c.(c_acts).

(* a `*` positional that receives no token keeps its default object: an unconverted str stays a str *)
Definition canon_st (x : stored ival) : stored ival := match x with SRaw s => SOne (VS s) | y => y end.
Definition canon_ns (n : ins) : ins := map (fun p => (fst p, canon_st (snd p))) n.
Definition canon_known (r : res (ins * list string)) : res (ins * list string) :=
  match r with Ok (n, ex) => Ok (canon_ns n, ex) | Err e => Err e end.
Definition canon_args (r : res ins) : res ins := match r with Ok n => Ok (canon_ns n) | Err e => Err e end.

Definition in_scope (c : case) : bool :=
  if has_pos c then in_model_scopeP c.(c_abbrev) c.(c_acts) c.(c_argv)
  else
  in_model_scope c.(c_abbrev) c.(c_acts) c.(c_argv)
  && match c.(c_twin) with Some (argv', _) => in_model_scope c.(c_abbrev) c.(c_acts) argv' | None => true end.

Definition model_okP (c : case) : bool :=
  known_eqb (canon_known (iparse_knownP c.(c_abbrev) c.(c_acts) c.(c_argv))) c.(c_known)
  && res_eqb (ns_eqb ival_eqb) (canon_args (iparse_argsP c.(c_abbrev) c.(c_acts) c.(c_argv))) c.(c_args).

Definition model_ok (c : case) : bool :=
  model_okP c &&
  (has_pos c ||
  (known_eqb (iparse_known c.(c_abbrev) c.(c_acts) c.(c_argv)) c.(c_known)
  && res_eqb (ns_eqb ival_eqb) (iparse_args c.(c_abbrev) c.(c_acts) c.(c_argv)) c.(c_args)
  && match c.(c_twin) with
     | Some (argv', k') => known_eqb (iparse_known c.(c_abbrev) c.(c_acts) argv') k'
     | None => true end)).

(* the interface predicates, evaluated on the observed behaviour only *)
Definition spec_okP (c : case) : bool :=
  observed_okP icvt ival_eqb c.(c_abbrev) c.(c_acts) c.(c_argv) c.(c_known) c.(c_args).

Definition spec_ok (c : case) : bool :=
  if has_pos c then spec_okP c else
  observed_ok icvt ival_eqb c.(c_abbrev) c.(c_acts) c.(c_argv) c.(c_known) c.(c_args)
  && match c.(c_twin) with
     | Some (argv', k') =>
         if twin_ok c.(c_abbrev) c.(c_acts) c.(c_argv) argv' then known_eqb c.(c_known) k' else true
     | None => true end.
