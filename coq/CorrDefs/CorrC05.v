(* CorrDefs/CorrC05.v — one generated C05 case inside Coq, and the checks run on it. *)
From SPV Require Export CorrDefs.CorrSerial.

Inductive via :=
| ViaApi (name : string)             (* "dict": to_dict/from_dict; "json" / "yaml": dumps_x/loads_x, codec from API_TABLE *)
| ViaFile (suffix : string)          (* save(path) / load(path): codec chosen by the suffix table *)
| ViaRaw (p : prim) (must : bool).   (* from_dict on a hand-made raw dict; must = it is a lenient encoding of c_val *)

Record case := mkcase {
  c_ty : ty;                         (* the dataclass *)
  c_val : value;                     (* the instance (sets in observed iteration order) *)
  c_via : via;
  c_todict : res prim;               (* observed to_dict(x) *)
  c_obs : res value                  (* observed result of the round trip *)
}.

Definition model_prim (c : case) : res prim :=
  match c.(c_via) with
  | ViaRaw p _ => Ok p
  | ViaApi name => match transport_of_api name with
                   | Some tr => run_transport tr (to_dict_c c.(c_val))
                   | None => Err OutOfFuel
                   end
  | ViaFile s => match transport_of_suffix s with
                 | Some tr => run_transport tr (to_dict_c c.(c_val))
                 | None => Err (Raise "RuntimeError")
                 end
  end.
Definition model_obs (c : case) : res value := bind (model_prim c) (decode_c c.(c_ty)).

Definition in_scope (c : case) : bool :=
  negb (has_bad (to_dict_c c.(c_val))) && negb (is_scope_err (model_obs c)).

Definition model_ok (c : case) : bool :=
  res_prim_eqb (Ok (to_dict_c c.(c_val))) c.(c_todict) && res_vsame (model_obs c) c.(c_obs).

Definition spec_ok (c : case) : bool :=
  match c.(c_via) with
  | ViaRaw _ false => true           (* malformed raw input: the property is silent *)
  | _ => match c.(c_obs) with
         | Ok v' => has_type v' c.(c_ty) && veq v' (norm c.(c_val))
         | Err _ => false
         end
  end.
