(* CorrDefs/CorrC08.v — one generated C08 case = one history, run in its own interpreter, with what every
   operation answered and, for every parse, what a fresh interpreter answered for the same definition + argv. *)
From SPV Require Export Base.Corr Model.OptStr Model.History Model.HistorySpec Gen.FactsHistory.

Record case := mkcase {
  c_files : list (string * kv);        (* config files available to the history: file -> dest.field -> rendered value *)
  c_ops : list op;
  c_obs : list obs;                    (* observed, per operation *)
  c_fresh : list (option vals)         (* observed fresh-interpreter answer, per operation (parses only) *)
}.

(* ---------- the model's side ---------- *)
Fixpoint model_fresh (ftbl : list (string * kv)) (s : state) (ops : list op) : list (option vals) :=
  match ops with
  | [] => []
  | o :: r =>
      (match o with
       | Parse i argv => match slot_get (st_slots s) i with
                         | Some p => Some (fresh_gen ftbl (def_of p) argv)
                         | None => None
                         end
       | _ => None
       end) :: model_fresh ftbl (fst (step_gen ftbl s o)) r
  end.

Definition model_ok (c : case) : bool :=
  list_eqb obs_eqb (obs_from facts_gen c.(c_files) init c.(c_ops)) c.(c_obs)
  && list_eqb (opt_eqb vals_eqb) (model_fresh c.(c_files) init c.(c_ops)) c.(c_fresh).

(* ---------- the property's side: observations only ---------- *)
Definition spec_ok (c : case) : bool :=
  Nat.eqb (List.length c.(c_obs)) (List.length c.(c_fresh)) && spec_history (combine c.(c_obs) c.(c_fresh)).

(* ---------- the model's domain ---------- *)
Definition is_lower_c (a : ascii) : bool := let n := nat_of_ascii a in Nat.leb 97 n && Nat.leb n 122.
Definition word_char (a : ascii) : bool :=
  is_lower_c a || is_digit a || Ascii.eqb a "."%char || Ascii.eqb a "_"%char.
Fixpoint all_chars (p : ascii -> bool) (s : string) : bool :=
  match s with EmptyString => true | String a r => p a && all_chars p r end.
Definition canonical_nat (s : string) : bool :=
  all_chars is_digit s && (String.eqb s "0" || negb (prefixb "0" s)).
(* tokens the model's argparse slice covers: canonical naturals, lower-case words / file names, exactly
   spelled or misspelled long options, "-h" *)
Definition tok_plain (t : string) : bool :=
  match t with
  | EmptyString => false
  | String c r =>
      if is_digit c then canonical_nat t
      else if is_lower_c c then all_chars word_char t
      else if is_upper c then all_chars is_upper t            (* Enum member names *)
      else if Ascii.eqb c "-"%char then
        String.eqb t "-h"
        || (prefixb "--" t && Nat.ltb 2 (String.length t)
            && all_chars (fun a => word_char a || Ascii.eqb a "-"%char) t)
      else false
  end.

Definition name_plain (n : string) : bool :=
  Nat.ltb 1 (String.length n) && all_chars (fun a => is_lower_c a || Ascii.eqb a "_"%char) n.
Definition class_plain (c : dcls) : bool :=
  forallb (fun fd => name_plain (f_name fd)
                     && match f_kind fd with
                        | FSub alts dkey => str_in dkey (map a_key alts) && forallb (fun a => name_plain (a_fname a)) alts
                        | FEnum _ e fo => negb fo && forallb (fun m => all_chars is_upper (fst m) && negb (String.eqb (fst m) "")) (e_members e)
                        | _ => true
                        end) (d_fields c).

Definition class_names (c : dcls) : list string :=
  flat_map (fun fd => f_name fd :: match f_kind fd with FSub alts _ => map a_fname alts | _ => [] end) (d_fields c).

(* a config file may only be named once the class it talks about ("a") has an int field for each of its keys *)
Definition file_fits (adds : list add) (kvs : kv) : bool :=
  forallb (fun p : string * string =>
    existsb (fun ad : add => String.eqb (snd ad) "a"
               && existsb (fun fd => String.eqb (fdest "a" (f_name fd)) (fst p)
                                     && match f_kind fd with FInt => true | _ => false end) (d_fields (fst ad)))
            adds) kvs.
(* a root-less file ({field: value}) fits the single dataclass it will be re-rooted under *)
Definition rootless_fits (c : dcls) (kvs : kv) : bool :=
  negb (has_sub c)
  && forallb (fun p : string * string =>
       negb (has_char "."%char (fst p))
       && existsb (fun fd => String.eqb (f_name fd) (fst p) && match f_kind fd with FInt => true | _ => false end)
                  (d_fields c)) kvs.
(* which files a parser may name, by the nested mode of ITS definition: a WITHOUT_ROOT parser holding exactly one dataclass
   (at "a", without subgroup field) takes root-less files, every other parser rooted ones (other combinations raise or leave
   stray namespace attributes, paths the model does not follow) *)
Definition files_fit (ftbl : list (string * kv)) (p : pstate) (files : list string) : bool :=
  let adds := p_adds p in
  forallb (fun fl => match find (fun q => String.eqb (fst q) fl) ftbl with
                     | None => true
                     | Some (_, kvs) =>
                         match nm (p_cfg p), adds with
                         | NWithoutRoot, [(c, dest)] => String.eqb dest "a" && rootless_fits c kvs
                         | _, _ => file_rooted kvs && file_fits adds kvs
                         end
                     end) files.

Definition op_in_scope (ftbl : list (string * kv)) (s : state) (o : op) : bool :=
  match o with
  | Construct i c cr cfgarg => true
  | AddArgs i d dest =>
      match slot_get (st_slots s) i with
      | None => false
      | Some p => str_in dest ["a"; "b"] && negb (str_in dest (map snd (p_adds p))) && class_plain d
      end
  | Parse i argv =>
      match slot_get (st_slots s) i with
      | None => false
      | Some p => forallb tok_plain argv
                  && (negb (p_cfgarg p)
                      || (files_fit ftbl p (fst (split_cfg argv))
                          && forallb (fun fl => suffixb ".json" fl || negb (has_char "."%char fl)) (fst (split_cfg argv))))
      end
  | PrintHelp i | FormatHelp i =>
      match slot_get (st_slots s) i with None => false | Some _ => true end
  end.
Fixpoint scope_from (ftbl : list (string * kv)) (s : state) (ops : list op) : bool :=
  match ops with
  | [] => true
  | o :: r => op_in_scope ftbl s o && scope_from ftbl (fst (step_gen ftbl s o)) r
  end.
(* e_id stands for the identity of the class object: one id, one class *)
Definition case_enums (ops : list op) : list enumdef :=
  flat_map (fun o => match o with AddArgs _ d dest => enums_of [(d, dest)] | _ => [] end) ops.
Definition ids_consistent (es : list enumdef) : bool :=
  forallb (fun a => forallb (fun b => negb (Nat.eqb (e_id a) (e_id b)) || enum_eqb a b) es) es.
Definition in_scope (c : case) : bool :=
  scope_from c.(c_files) init c.(c_ops) && ids_consistent (case_enums c.(c_ops)).
