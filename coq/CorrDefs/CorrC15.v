(* CorrDefs/CorrC15.v — one generated C15 case: a tree of dataclasses, an instance, the file suffix, and what the
   implementation returned after save() + parse with that file as config (empty command line). *)
From SPV Require Export Base.Corr Model.Leaf Model.LeafSpec Model.ConfigLoop Model.ConfigLoopSpec
                        Gen.FactsBool Gen.FactsLeaf Gen.FactsConfigLoop.

Record case := mkcase {
  c_env : enum_env;           (* the mixed-in Enum classes the case declares (IntEnum / (str, Enum)) *)
  c_schema : schema;          (* annotations and (effective) definition defaults *)
  c_inst : inst;              (* the instance that was saved *)
  c_suffix : string;          (* ".json" | ".yaml" | ".yml" | ".pkl" *)
  c_via : route;              (* constructor config_path= | --config_path on the command line *)
  c_api : api;                (* parse(cls, ...) with the un-rooted file | ArgumentParser + add_arguments(cls, "cfg") with the file keyed by "cfg" *)
  c_obs : res inst;           (* the instance the parse returned, or how save / parse ended *)
  c_step2 : option (inst * res inst)   (* two-step cases: a second instance saved to the SAME path afterwards and parsed again in the
                                          same process, with what that parse returned; each step is judged on its own *)
}.

Definition step2_all (f : inst -> res inst -> bool) (c : case) : bool :=
  match c.(c_step2) with Some (y, o) => f y o | None => true end.

(* the generator stays inside the property's quantifier *)
Definition in_scope (c : case) : bool :=
  in_quantifier c.(c_schema) c.(c_inst) && str_in c.(c_suffix) four_suffixes
  && step2_all (fun y _ => in_quantifier c.(c_schema) y) c.

(* the model is run along the case's own route (regenerated wiring of parse_known_args / set_defaults / parse) *)
Definition model_step (c : case) (x : inst) (o : res inst) : bool :=
  res_eqb inst_eqb (config_run_gen c.(c_env) c.(c_via) c.(c_api) "cfg" c.(c_suffix) c.(c_schema) x) o.

Definition model_ok (c : case) : bool := model_step c c.(c_inst) c.(c_obs) && step2_all (model_step c) c.

Definition spec_ok (c : case) : bool :=
  spec_loop c.(c_schema) c.(c_inst) c.(c_obs) && step2_all (spec_loop c.(c_schema)) c.
