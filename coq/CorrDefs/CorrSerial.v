(* CorrDefs/CorrSerial.v — shared by CorrC05 / CorrC13: the hook functions the generated classes use, the
   comparison of a model answer with an observed value, canonical form of an input value. *)
From SPV Require Export Base.Corr Model.Serial Model.SerialSpec Gen.FactsSerial.
Local Open Scope Z_scope.

(* the generated classes list a set's elements in the iteration order observed on the instance *)
Definition sigma_id (l : list prim) : list prim := l.

(* encoding_fn number k = lambda v: [k, type(v).__name__] ; decoding_fn number k = lambda p: [k, deepcopy(p)] *)
Definition type_name (v : value) : string :=
  match v with
  | VNone => "NoneType" | VBool _ => "bool" | VInt _ => "int" | VFlt _ => "float" | VStr _ => "str"
  | VPath _ => "PosixPath" | VEnum c _ => c | VList _ => "list" | VTup _ => "tuple" | VSet _ => "set"
  | VDict od _ => if od then "OrderedDict" else "dict"
  | VDc _ c _ => c
  end.
Definition encf_lib (k : Z) (v : value) : prim := PList [PInt k; PStr (type_name v)].
Definition decf_lib (k : Z) (p : prim) : res value := Ok (VList [VInt k; raw p]).

Definition to_dict_c (v : value) : prim := to_dict_gen sigma_id encf_lib v.
Definition decode_c (t : ty) (p : prim) : res value := decode_gen decf_lib t p.

(* model answer vs observation: dict entries in any order (yaml.dump sorts keys); everything else exact *)
Fixpoint vsame (a b : value) : bool :=
  match a, b with
  | VList xs, VList ys | VTup xs, VTup ys | VSet xs, VSet ys =>
      (fix go xs ys := match xs, ys with
                       | [], [] => true
                       | x :: xr, y :: yr => vsame x y && go xr yr
                       | _, _ => false end) xs ys
  | VDict o1 xs, VDict o2 ys =>
      Bool.eqb o1 o2 && Nat.eqb (List.length xs) (List.length ys) &&
      forallb (fun kv => existsb (fun kv' => vsame (fst kv) (fst kv') && vsame (snd kv) (snd kv')) ys) xs
  | VDc k1 c1 xs, VDc k2 c2 ys =>
      dkind_eqb k1 k2 && String.eqb c1 c2 &&
      (fix go xs ys := match xs, ys with
                       | [], [] => true
                       | (n1, m1, v1) :: xr, (n2, m2, v2) :: yr =>
                           String.eqb n1 n2 && fmeta_eqb m1 m2 && vsame v1 v2 && go xr yr
                       | _, _ => false end) xs ys
  | _, _ => value_eqb a b
  end.
Definition res_vsame (a b : res value) : bool := res_eqb vsame a b.
Definition res_prim_eqb (a b : res prim) : bool := res_eqb prim_eqb a b.

(* sets listed in canonical order *)
Fixpoint norm (v : value) : value :=
  match v with
  | VList vs => VList (map norm vs)
  | VTup vs => VTup (map norm vs)
  | VSet vs => VSet (v_sort (map norm vs))
  | VDict od kvs => VDict od (map (fun kv => (norm (fst kv), norm (snd kv))) kvs)
  | VDc k c fs => VDc k c (map (fun f => match f with (n, m, x) => (n, m, norm x) end) fs)
  | _ => v
  end.

Definition is_scope_err {A} (r : res A) : bool := match r with Err OutOfFuel => true | _ => false end.
