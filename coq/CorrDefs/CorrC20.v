(* CorrDefs/CorrC20.v — one generated C20 case inside Coq (values are canonical JSON strings), and the checks run on it. *)
From SPV Require Export Base.Corr Model.Front Model.FrontSpec Gen.FactsFront.

(* two-callable histories: callable 0 has signature c_sig, callable 1 has pi_sig2; every step derives the config class of
   one of them (through Partial[f] or config_for(f): the same request without arguments) *)
Record pairobs := mkpo {
  po_label : res nat;                              (* the class returned, labelled by first occurrence *)
  po_target : nat;                                 (* which callable its _target_ is *)
  po_fields : list (string * option string)        (* its dataclass fields *)
}.
Record pairinfo := mkpi {
  pi_sig2 : list (param string);
  pi_steps : list nat;
  pi_use : nat;                                    (* the class last derived for this callable is parsed and called *)
  pi_obs : list pairobs;
  pi_called : option nat                           (* which callable's stub was invoked *)
}.

Record case := mkcase {
  c_main : bool;                                   (* true: decorators.main; false: config_for / Partial *)
  c_sig : list (param string);                     (* the signature of the wrapped function (defaults as observed) *)
  c_parsed : res (list (string * string));         (* plain parse of the equivalent dataclass on the same argv *)
  c_xpos : list string;                            (* main: run-time positionals; config_for: call-site positionals *)
  c_xkw : list (string * string);                  (* main: run-time keywords;    config_for: call-site keywords *)
  c_reqs : list (cfreq string);                    (* config_for requests, in order; the first one is parsed and called *)
  c_obs_session : list (res nat);                  (* class returned by each request, labelled by first occurrence *)
  c_obs_fields : res (list (string * option string));   (* dataclasses.fields of the first request's class *)
  c_obs_call : option (call string);               (* raw args/kwargs the recording stub received *)
  c_obs_result : res (list (string * string));     (* how it ended; Ok = the parameter bindings inside the callable *)
  c_untyped : list (string * dkind);               (* un-annotated parameters with a default: what kind of value it is *)
  c_obs_inferred : list (string * ity);            (* the type of their field in the first request's class, as observed *)
  c_pair : option pairinfo;                        (* Some: a two-callable history (c_main = false) *)
  c_obs_ftype_ok : list (string * bool);           (* per field of the first request's class: does it carry the parameter's own
                                                      annotation (for an un-annotated parameter: the class-level one)? *)
  c_tinfo : list (string * (bool * bool * bool));  (* for the same fields: is the parameter annotated / is there a class-level
                                                      hint of that name / is that hint the parameter's annotation *)
  c_obs_aliased : list string                      (* parameters with a list/dict/set default that received (or whose field default
                                                      factory returns) the signature's default OBJECT itself, or whose signature
                                                      default changed after the received value was mutated *)
}.

(* a container default only ever reaches the callable through copy.deepcopy (otherwise set-up fails): never aliased *)
Definition no_alias (c : case) : bool := match c.(c_obs_aliased) with [] => true | _ => false end.

Definition vals_of (l : list (string * string)) (n : string) : string :=
  match lookup l n with Some v => v | None => "<no value>" end.
Definition parsed_of (c : case) : res (string -> string) :=
  match c.(c_parsed) with Ok l => Ok (vals_of l) | Err e => Err e end.

Definition call_eqb (a b : call string) : bool :=
  strs_eqb (c_pos a) (c_pos b) && bind_eqb String.eqb (c_kw a) (c_kw b).
Definition trace_eqb (a b : trace string) : bool :=
  opt_eqb call_eqb (fst a) (fst b) && res_eqb (bind_eqb String.eqb) (snd a) (snd b).
Definition fields_eqb (a b : res (list (string * option string))) : bool :=
  res_eqb (list_eqb (fun x y => String.eqb (fst x) (fst y) && vopt_eqb String.eqb (snd x) (snd y))) a b.

Definition model_fields (s : sig string) (r : cfreq string) : res (list (string * option string)) :=
  let fs := cf_fields facts_gen (ignore_names (f_cf_str_single facts_gen) (rq_ignore r)) (rq_over r) s in
  match setup facts_gen fs with Err e => Err e | Ok _ => Ok (map (fun f => (fl_name f, fl_default f)) fs) end.

Definition model_inferred (s : sig string) (r : cfreq string) (untyped : list (string * dkind)) : list (string * ity) :=
  let fs := cf_fields facts_gen (ignore_names (f_cf_str_single facts_gen) (rq_ignore r)) (rq_over r) s in
  let names := map fl_name fs in
  match setup facts_gen fs with Err _ => [] | Ok _ =>      (* no class, nothing to look at *)
  map (fun nd => (fst nd, infer (f_infer facts_gen) (snd nd)))
      (filter (fun nd => str_in (fst nd) names && negb (str_in (fst nd) (keys (rq_over r)))) untyped)
  end.
Definition inferred_eqb (a b : list (string * ity)) : bool :=
  list_eqb (fun x y => String.eqb (fst x) (fst y) && ity_eqb (snd x) (snd y)) a b.

Fixpoint forall2b {A B} (f : A -> B -> bool) (l1 : list A) (l2 : list B) : bool :=
  match l1, l2 with [], [] => true | x :: r1, y :: r2 => f x y && forall2b f r1 r2 | _, _ => false end.
Definition plain_req : cfreq string := mkreq IgAbsent None [].
Definition pair_sigs (c : case) (p : pairinfo) (k : nat) : sig string := if Nat.eqb k 0 then c.(c_sig) else p.(pi_sig2).
Definition po_fields_eqb (a b : list (string * option string)) : bool :=
  list_eqb (fun x y => String.eqb (fst x) (fst y) && vopt_eqb String.eqb (snd x) (snd y)) a b.

Definition pair_model_ok (c : case) (p : pairinfo) : bool :=
  let sigs := pair_sigs c p in
  let outs := snd (p_session String.eqb facts_gen sigs ([], []) (map (fun k => (k, plain_req)) p.(pi_steps))) in
  list_eqb (res_eqb Nat.eqb) outs (map po_label p.(pi_obs))
  && list_eqb Nat.eqb (map (fun k => if f_cf_target_set facts_gen then k else 2) p.(pi_steps)) (map po_target p.(pi_obs))
  && forall2b (fun k o => match model_fields (sigs k) plain_req with
                          | Ok fs => po_fields_eqb fs (po_fields o)
                          | Err _ => match po_fields o with [] => true | _ => false end
                          end) p.(pi_steps) p.(pi_obs)
  && (let t := cf_run facts_gen (sigs p.(pi_use)) [] [] (parsed_of c) [] [] in
      trace_eqb t (c.(c_obs_call), c.(c_obs_result))
      && opt_eqb Nat.eqb (match fst t with Some _ => Some p.(pi_use) | None => None end) p.(pi_called)).

Definition pair_spec_ok (c : case) (p : pairinfo) : bool :=
  let sigs := pair_sigs c p in
  spec_pair_labels p.(pi_steps) (map po_label p.(pi_obs))
  && forall2b (fun k o => match po_label o with
                          | Ok _ => Nat.eqb k (po_target o) && spec_fields String.eqb (sigs k) [] [] (Ok (po_fields o))
                          | Err _ => false
                          end) p.(pi_steps) p.(pi_obs)
  && match find (fun ko => Nat.eqb (fst ko) p.(pi_use)) (rev (combine p.(pi_steps) p.(pi_obs))) with
     | Some (_, o) =>
         spec_partial_call String.eqb (sigs p.(pi_use)) (map fst (po_fields o)) (parsed_of c) [] []
                           (c.(c_obs_call), c.(c_obs_result))
         && match c.(c_obs_call), p.(pi_called) with
            | Some _, Some k => Nat.eqb k p.(pi_use)
            | Some _, None => false
            | None, _ => true
            end
     | None => false
     end.

(* which type each field gets: the regenerated precedence chain of config_for decides *)
Definition model_ftype_ok (s : sig string) (r : cfreq string) (tinfo : list (string * (bool * bool * bool))) : list (string * bool) :=
  map (fun ni =>
         let '(n, (annotated, has_hint, hint_same)) := ni in
         let has_default := match find (fun p => String.eqb (p_name p) n) s with
                            | Some p => match eff_default (rq_over r) p with Some _ => true | None => false end
                            | None => false
                            end in
         (n, field_type_ok (f_cf_type_chain facts_gen) annotated has_hint hint_same has_default)) tinfo.
Definition ftype_eqb (a b : list (string * bool)) : bool :=
  list_eqb (fun x y => String.eqb (fst x) (fst y) && Bool.eqb (snd x) (snd y)) a b.

Definition in_scope (c : case) : bool := true.

Definition model_ok (c : case) : bool :=
  let observed := (c.(c_obs_call), c.(c_obs_result)) in
  no_alias c &&
  match c.(c_pair) with Some p => pair_model_ok c p | None =>
  if c.(c_main) then
    trace_eqb (main_run facts_gen c.(c_sig) (parsed_of c) c.(c_xpos) c.(c_xkw)) observed
  else
    match c.(c_reqs) with
    | [] => false
    | r0 :: _ =>
        list_eqb (res_eqb Nat.eqb) (snd (cf_session String.eqb facts_gen c.(c_sig) ([], 0) c.(c_reqs))) c.(c_obs_session)
        && fields_eqb (model_fields c.(c_sig) r0) c.(c_obs_fields)
        && inferred_eqb (model_inferred c.(c_sig) r0 c.(c_untyped)) c.(c_obs_inferred)
        && ftype_eqb (model_ftype_ok c.(c_sig) r0 c.(c_tinfo)) c.(c_obs_ftype_ok)
        && trace_eqb (cf_run facts_gen c.(c_sig) (ignore_names (f_cf_str_single facts_gen) (rq_ignore r0)) (rq_over r0) (parsed_of c) c.(c_xpos) c.(c_xkw))
                     observed
    end
  end.

Definition spec_ok (c : case) : bool :=
  let observed := (c.(c_obs_call), c.(c_obs_result)) in
  no_alias c &&
  match c.(c_pair) with Some p => pair_spec_ok c p | None =>
  if c.(c_main) then
    spec_main String.eqb c.(c_sig) (parsed_of c)
              (match c.(c_xpos), c.(c_xkw) with [], [] => false | _, _ => true end) observed
  else
    match c.(c_reqs) with
    | [] => false
    | r0 :: _ =>
        spec_session String.eqb c.(c_reqs) c.(c_obs_session)
        && spec_fields String.eqb c.(c_sig) (spec_ignore_names (rq_ignore r0)) (rq_over r0) c.(c_obs_fields)
        && spec_inferred c.(c_untyped) c.(c_obs_inferred)
        && forallb snd c.(c_obs_ftype_ok)
        && match c.(c_obs_fields) with
           | Ok fs => spec_partial_call String.eqb c.(c_sig) (map fst fs) (parsed_of c) c.(c_xpos) c.(c_xkw) observed
           | Err _ => false
           end
    end
  end.
