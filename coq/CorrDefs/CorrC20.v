(* CorrDefs/CorrC20.v — one generated C20 case inside Coq (values are canonical JSON strings), and the checks run on it. *)
From SPV Require Export Base.Corr Model.Front Model.FrontSpec Gen.FactsFront.

Record case := mkcase {
  c_main : bool;                                   (* true: decorators.main; false: config_for / Partial *)
  c_sig : list (param string);                     (* the signature of the wrapped function (defaults as observed) *)
  c_parsed : res (list (string * string));         (* plain parse of the equivalent dataclass on the same argv *)
  c_xpos : list string;                            (* main: run-time positionals; config_for: call-site positionals *)
  c_xkw : list (string * string);                  (* main: run-time keywords;    config_for: call-site keywords *)
  c_reqs : list (cfreq string);                    (* config_for requests, in order; the first one is parsed and called *)
  c_obs_session : list (res nat);                  (* class returned by each request, labelled by first occurrence *)
  c_obs_fields : res (list (string * option string));   (* dataclasses.fields of the first request's class *)
  c_obs_call : option (call string);               (* raw args/kwargs the recording stub received *)
  c_obs_result : res (list (string * string));     (* how it ended; Ok = the parameter bindings inside the callable *)
  c_untyped : list (string * dkind);               (* un-annotated parameters with a default: what kind of value it is *)
  c_obs_inferred : list (string * ity)             (* the type of their field in the first request's class, as observed *)
}.

Definition vals_of (l : list (string * string)) (n : string) : string :=
  match lookup l n with Some v => v | None => "<no value>" end.
Definition parsed_of (c : case) : res (string -> string) :=
  match c.(c_parsed) with Ok l => Ok (vals_of l) | Err e => Err e end.

Definition call_eqb (a b : call string) : bool :=
  strs_eqb (c_pos a) (c_pos b) && bind_eqb String.eqb (c_kw a) (c_kw b).
Definition trace_eqb (a b : trace string) : bool :=
  opt_eqb call_eqb (fst a) (fst b) && res_eqb (bind_eqb String.eqb) (snd a) (snd b).
Definition fields_eqb (a b : res (list (string * option string))) : bool :=
  res_eqb (list_eqb (fun x y => String.eqb (fst x) (fst y) && vopt_eqb String.eqb (snd x) (snd y))) a b.

Definition model_fields (s : sig string) (r : cfreq string) : res (list (string * option string)) :=
  let fs := cf_fields facts_gen (ignore_names (rq_ignore r)) (rq_over r) s in
  match setup facts_gen fs with Err e => Err e | Ok _ => Ok (map (fun f => (fl_name f, fl_default f)) fs) end.

Definition model_inferred (s : sig string) (r : cfreq string) (untyped : list (string * dkind)) : list (string * ity) :=
  let fs := cf_fields facts_gen (ignore_names (rq_ignore r)) (rq_over r) s in
  let names := map fl_name fs in
  match setup facts_gen fs with Err _ => [] | Ok _ =>      (* no class, nothing to look at *)
  map (fun nd => (fst nd, infer (f_infer facts_gen) (snd nd)))
      (filter (fun nd => str_in (fst nd) names && negb (str_in (fst nd) (keys (rq_over r)))) untyped)
  end.
Definition inferred_eqb (a b : list (string * ity)) : bool :=
  list_eqb (fun x y => String.eqb (fst x) (fst y) && ity_eqb (snd x) (snd y)) a b.

Definition in_scope (c : case) : bool := true.

Definition model_ok (c : case) : bool :=
  let observed := (c.(c_obs_call), c.(c_obs_result)) in
  if c.(c_main) then
    trace_eqb (main_run facts_gen c.(c_sig) (parsed_of c) c.(c_xpos) c.(c_xkw)) observed
  else
    match c.(c_reqs) with
    | [] => false
    | r0 :: _ =>
        list_eqb (res_eqb Nat.eqb) (snd (cf_session String.eqb facts_gen c.(c_sig) ([], 0) c.(c_reqs))) c.(c_obs_session)
        && fields_eqb (model_fields c.(c_sig) r0) c.(c_obs_fields)
        && inferred_eqb (model_inferred c.(c_sig) r0 c.(c_untyped)) c.(c_obs_inferred)
        && trace_eqb (cf_run facts_gen c.(c_sig) (ignore_names (rq_ignore r0)) (rq_over r0) (parsed_of c) c.(c_xpos) c.(c_xkw))
                     observed
    end.

Definition spec_ok (c : case) : bool :=
  let observed := (c.(c_obs_call), c.(c_obs_result)) in
  if c.(c_main) then
    spec_main String.eqb c.(c_sig) (parsed_of c)
              (match c.(c_xpos), c.(c_xkw) with [], [] => false | _, _ => true end) observed
  else
    match c.(c_reqs) with
    | [] => false
    | r0 :: _ =>
        spec_session String.eqb c.(c_reqs) c.(c_obs_session)
        && spec_fields String.eqb c.(c_sig) (ignore_names (rq_ignore r0)) (rq_over r0) c.(c_obs_fields)
        && spec_inferred c.(c_untyped) c.(c_obs_inferred)
        && match c.(c_obs_fields) with
           | Ok fs => spec_partial_call String.eqb c.(c_sig) (map fst fs) (parsed_of c) c.(c_xpos) c.(c_xkw) observed
           | Err _ => false
           end
    end.
