(* CorrDefs/CorrC17.v — what one generated C17 case looks like inside Coq, and the checks run on it.
   Three kinds of case:
     CaseNorm : a written annotation evaluated by Python (runtime object observed), then _replace_UnionType_with_typing_Union
     CaseRw   : a string given to _get_old_style_annotation and to evaluate_string_annotation
     CaseTree : one abstract dataclass rendered to real modules (spelling x postponed x chain x function scope); per
                rendering the field list / resolved types seen by DataclassWrapper and a digest of the parse outcomes *)
From SPV Require Export Base.Corr Model.Annot Model.AnnotSpec Gen.FactsAnnot.
Open Scope list_scope.

Record rend := mkrend {
  r_sp : spelling;
  r_postponed : bool;              (* from __future__ import annotations *)
  r_chain : bool;                  (* fields split over the inheritance chain *)
  r_func : bool;                   (* classes defined inside a function that is still executing *)
  r_types : res (list (string * cty));   (* wrapper field list with canonicalised FieldWrapper.type, or how set-up ended *)
  r_kinds : list (string * wkind);       (* per member: option (FieldWrapper), nested group, optional nested group *)
  r_digest : list string           (* one canonical outcome per argv *)
}.

Inductive case :=
| CaseNorm (t : texp) (o_eval : res rty) (o_norm : res rty)
| CaseRw (s : string) (o_rw : res string) (check_eval : bool) (o_ev : res cty)
| CaseTree (dcs : list string) (flat : list (string * fdecl)) (chain : list (list (string * fdecl))) (rends : list rend).

Definition pair_eqb {A B} (ea : A -> A -> bool) (eb : B -> B -> bool) (x y : A * B) : bool :=
  ea (fst x) (fst y) && eb (snd x) (snd y).
Definition types_eqb := res_eqb (list_eqb (pair_eqb String.eqb cty_eqb)).

(* ---------- the model's answers ---------- *)
Definition model_eval_str (s : list ascii) : res cty :=
  match parse s with
  | None => Err (Raise "SyntaxError")
  | Some t => bind (eval FORWARD_REFS_GEN t) (fun r => Ok (canon r))
  end.

(* evaluate_string_annotation: rewrite when the bar occurs, then eval *)
Definition model_evaluate_string_annotation (s : list ascii) : res cty :=
  if mem RW_BAR_GEN s then bind (old_style_gen s) model_eval_str else model_eval_str s.

Definition model_types (r : rend) (flat : list (string * fdecl)) (chain : list (list (string * fdecl)))
  : res (list (string * cty)) :=
  field_types_gen r.(r_sp) r.(r_postponed) (if r.(r_chain) then chain_fields chain else chain_fields [flat]).

(* which members DataclassWrapper turns into nested groups: the dispatch on the RESOLVED type of each member *)
Definition model_kinds (dcs : list string) (r : rend) (flat : list (string * fdecl)) (chain : list (list (string * fdecl)))
  : res (list (string * wkind)) :=
  mapM (fun kv =>
          bind (resolve_gen r.(r_postponed) (fkind_eqb (f_kind (snd kv)) KInitVar) (render r.(r_sp) (f_ty (snd kv))))
               (fun o => bind (wrapper_kind_gen dcs o (f_dnone (snd kv))) (fun k => Ok (fst kv, k))))
       (wrapper_fields_gen (if r.(r_chain) then chain_fields chain else chain_fields [flat])).

Definition kinds_eqb := list_eqb (pair_eqb String.eqb wkind_eqb).

Definition spec_kinds (dcs : list string) (l : list (string * fdecl)) : option (list (string * wkind)) :=
  fold_right (fun kv acc =>
                match spec_wkind dcs (f_ty (snd kv)) (f_dnone (snd kv)), acc with
                | Some k, Some t => Some ((fst kv, k) :: t)
                | _, _ => None
                end)
             (Some [])
             (filter (fun kv => negb (fkind_eqb (f_kind (snd kv)) KClassVar) && f_init (snd kv) && f_cmd (snd kv)) l).

Definition decl_eqb (a b : string * fdecl) : bool :=
  String.eqb (fst a) (fst b) && cty_eqb (f_ty (snd a)) (f_ty (snd b)) && fkind_eqb (f_kind (snd a)) (f_kind (snd b))
  && Bool.eqb (f_init (snd a)) (f_init (snd b)) && Bool.eqb (f_cmd (snd a)) (f_cmd (snd b))
  && Bool.eqb (f_dnone (snd a)) (f_dnone (snd b)).

(* the generator's contract: the flat rendering and the chain rendering are the same abstract class, and every type
   is in the CLI grammar *)
Definition in_scope (c : case) : bool :=
  match c with
  | CaseTree dcs flat chain _ =>
      negb (str_in "NoneType" dcs) && list_eqb decl_eqb (spec_flat [flat]) flat
      && list_eqb decl_eqb (spec_flat chain) flat
      && forallb (fun kv => wf_cty (f_ty (snd kv))) flat
  | _ => true
  end.

Definition model_ok (c : case) : bool :=
  match c with
  | CaseNorm t o_eval o_norm =>
      res_eqb rty_eqb (eval [] t) o_eval
      && res_eqb rty_eqb (bind (eval [] t) norm_gen) o_norm
  | CaseRw s o_rw check_eval o_ev =>
      res_eqb String.eqb (bind (old_style_gen (chars s)) (fun l => Ok (unchars l))) o_rw
      && (negb check_eval || res_eqb cty_eqb (model_evaluate_string_annotation (chars s)) o_ev)
  | CaseTree dcs flat chain rends =>
      forallb (fun r => types_eqb (model_types r flat chain) r.(r_types)
                        && match r.(r_types), model_kinds dcs r flat chain with
                           | Ok _, Ok ks => kinds_eqb ks r.(r_kinds)
                           | Ok _, Err _ => false
                           | Err _, _ => true
                           end) rends
  end.

(* ---------- what the property demands of the observed behaviour ---------- *)
Definition chars_eqb := list_eqb Ascii.eqb.

(* Some c when t is the PEP 604 / builtin-generic spelling of the CLI-grammar type c *)
Definition in_604_grammar (t : texp) : option cty :=
  let c := denote t in
  if wf_cty c && chars_eqb (pr (render Sp604 c)) (pr t) then Some c else None.

Definition is_rutype (r : rty) : bool := match r with RUType _ => true | _ => false end.

Definition spec_ok (c : case) : bool :=
  match c with
  | CaseNorm t o_eval o_norm =>
      (* a CLI-grammar type written with bars: where the code normalises (a top-level types.UnionType) it must
         succeed and keep the meaning *)
      match in_604_grammar t, o_eval with
      | Some c, Ok r =>
          if is_rutype r then match o_norm with Ok r' => cty_eqb (canon r') c | Err _ => false end else true
      | _, _ => true
      end
  | CaseRw s o_rw check_eval o_ev =>
      (* the text of a CLI-grammar type written with bars is rewritten into text with the same meaning, and
         evaluate_string_annotation gives that type *)
      match parse (chars s) with
      | None => true
      | Some t =>
          match in_604_grammar t with
          | None => true
          | Some c =>
              match o_rw with
              | Ok s' => match parse (chars s') with Some t' => cty_eqb (denote t') c | None => false end
              | Err _ => false
              end
              && (negb check_eval || res_eqb cty_eqb o_ev (Ok c))
          end
      end
  | CaseTree dcs flat chain rends =>
      let want := Ok (spec_cli_fields (spec_flat chain)) in
      forallb (fun r => types_eqb r.(r_types) want) rends
      && match spec_kinds dcs (spec_flat chain) with
         | Some ks => forallb (fun r => kinds_eqb r.(r_kinds) ks) rends
         | None => false
         end
      && match rends with
         | [] => true
         | r0 :: rest => forallb (fun r => strs_eqb r.(r_digest) r0.(r_digest)) rest
         end
  end.
