(* CorrDefs/CorrC13.v — one generated C13 case inside Coq, and the checks run on it. *)
From SPV Require Export CorrDefs.CorrSerial.

Record case := mkcase {
  c_ty : ty;
  c_val : value;                     (* the instance (sets in observed iteration order) *)
  c_todict : res prim;               (* observed to_dict(x) *)
  c_json : bool;                     (* json.dumps(to_dict(x)) accepted it unaided *)
  c_yaml : bool;                     (* yaml.safe_dump(to_dict(x)) accepted it unaided *)
  c_fresh : bool;                    (* output shares no mutable node with x; mutating either leaves the other unchanged *)
  c_input_ok : bool;                 (* x unchanged by to_dict *)
  c_arg : prim;                      (* the argument given to from_dict: to_dict(x) without the entries of fields that
                                        have an encoding_fn but no decoding_fn (those fall back to their default) *)
  c_typed : option (string * ty);    (* Some (module, runtime classes): c_arg was produced with save_dc_types=True; the
                                        type tree is what the DC_TYPE_KEY entries locate (a subclass in a base-typed field) *)
  c_from : res value;                (* observed from_dict(c_arg) *)
  c_from2 : res value;               (* observed from_dict(c_arg) once more, on the very same dict *)
  c_arg_ok : bool;                   (* from_dict left its argument unchanged *)
  c_from_fresh : bool;               (* the new instance shares no mutable node with the argument *)
  c_twin : option (res prim)         (* to_dict of an == instance whose sets were filled in another order *)
}.

(* yaml.safe_dump: no representer for OrderedDict; tuples are written as sequences *)
Fixpoint safe_dump_ok (p : prim) : bool :=
  match p with
  | PBad => false
  | PList ps | PTuple ps => forallb safe_dump_ok ps
  | PDict od kvs => negb od && forallb (fun kv => safe_dump_ok (fst kv) && safe_dump_ok (snd kv)) kvs
  | _ => true
  end.

Definition model_from (c : case) : res value :=
  match c.(c_typed) with
  | Some (_, rty) => decode_c rty (strip_key DC_TYPE_KEY c.(c_arg))
  | None => decode_c c.(c_ty) c.(c_arg)
  end.
Definition model_arg_ok (c : case) : bool :=
  match c.(c_typed) with
  | Some (m, _) => prim_eqb (add_types DC_TYPE_KEY TYPE_VALUE_SEP m c.(c_val) (to_dict_c c.(c_val))) c.(c_arg)
  | None => true
  end.

Definition in_scope (c : case) : bool :=
  negb (has_bad (to_dict_c c.(c_val))) && negb (is_scope_err (model_from c)).

Definition model_ok (c : case) : bool :=
  let p := to_dict_c c.(c_val) in
  res_prim_eqb (Ok p) c.(c_todict)
  && Bool.eqb (json_ok p) c.(c_json)
  && Bool.eqb (safe_dump_ok p) c.(c_yaml)
  && model_arg_ok c
  && Bool.eqb (prim_eqb (from_dict_arg_after FROM_DICT_POP DC_TYPE_KEY c.(c_arg)) c.(c_arg)) c.(c_arg_ok)
  && res_vsame (model_from c) c.(c_from)
  && res_vsame (model_from c) c.(c_from2).

Definition spec_ok (c : case) : bool :=
  match c.(c_todict) with
  | Err _ => false
  | Ok p =>
      prim_only p && c.(c_json) && c.(c_yaml) && c.(c_fresh) && c.(c_input_ok)
      && c.(c_arg_ok) && c.(c_from_fresh)
      && hooks_ok encf_lib c.(c_val) p
      && match c.(c_from) with Ok v' => from_hooks_ok decf_lib c.(c_arg) v' | Err _ => true end
      && res_vsame c.(c_from) c.(c_from2)
      && match c.(c_twin) with Some r => res_prim_eqb r (Ok p) | None => true end
  end.
