(* CorrDefs/CorrC16.v — one generated C16 case inside Coq: the definition (configuration, conflict mode, forest, default
   layers) and, per distinct behaviour observed over the hash-seed sweep, what `--help` printed (parsed into entries),
   what the parser registered, and what print_help() / a later parse did. *)
From SPV Require Export Base.Corr Model.OptStr Model.Help Model.HelpSpec Gen.FactsConflicts Gen.FactsHelp.

Record variant := mkvar {
  v_full : bool;                                 (* false: observed under a hash seed for which only the help text, the registered
                                                    actions and the orders were recorded (the four probes below were not run) *)
  v_oracle : list (list string);                 (* enumeration orders of spelling sets under this hash seed *)
  v_end : err;                                   (* how parse_args(["--help"]) ended *)
  v_stream : option stream;                      (* Some SOut: text on stdout only; Some SErr: on stderr only; None: neither/both *)
  v_groups : list group;                         (* the dataclass groups parsed from the text, e_dest from the action table *)
  v_accepted : list (string * list string);      (* dest -> option strings the parser accepts for it *)
  v_action_dests : list string;                  (* dests of all registered actions *)
  v_hidden : list (string * bool);               (* non-exposed field -> every probed spelling was rejected with status 2 *)
  v_hidden_only_in_desc : bool;                  (* no hidden field's name (either spelling) in the usage line, the `options:` section,
                                                    any entry's option strings, default or help text *)
  v_format_help_same : bool;                     (* format_help() on the same parser equals the printed text *)
  v_later_types_same : bool;                     (* the later parse and the fresh parse return values of the same Python types
                                                    (7 / "7" / 7.0 / True print alike or nearly so) *)
  v_api : res (list group);                      (* print_help() called directly on a fresh parser *)
  v_after : res (list (string * option string)); (* a parse on that same parser afterwards (non-required exposed fields) *)
  v_fresh : res (list (string * option string))  (* the same parse on a fresh parser *)
}.

Record case := mkcase {
  c_cfg : cfg;
  c_mode : crmode;
  c_forest : list hwrap;                         (* flattened wrapper order; fields carry the user prefix *)
  c_pre : dmap;                                  (* defaults from default instances / set_defaults *)
  c_cfgf : dmap;                                 (* defaults from the constructor's config file *)
  c_req : list string;                           (* required fields (given on the later parse's command line) *)
  c_variants : list variant;
  c_ntexts : nat                                 (* number of distinct help texts over the hash-seed sweep *)
}.

Definition entry_eqb (a b : entry) : bool :=
  String.eqb (e_dest a) (e_dest b) && strs_eqb (e_opts a) (e_opts b)
  && opt_eqb String.eqb (e_default a) (e_default b) && String.eqb (e_help a) (e_help b).
Definition group_eqb (a b : group) : bool :=
  String.eqb (g_title a) (g_title b) && String.eqb (g_desc a) (g_desc b) && list_eqb entry_eqb (g_entries a) (g_entries b).
Definition groups_eqb := list_eqb group_eqb.
Definition stream_eqb (a b : stream) : bool := match a, b with SOut, SOut | SErr, SErr => true | _, _ => false end.
Definition view_eqb := list_eqb (fun a b : string * option string =>
                                   String.eqb (fst a) (fst b) && opt_eqb String.eqb (snd a) (snd b)).
Definition drop_req (req : list string) (r : res (list (string * option string))) :=
  match r with Ok l => Ok (filter (fun p => negb (str_in (fst p) req)) l) | Err e => Err e end.

Definition in_scope (c : case) : bool := true.

(* the model's answers, all derived from ONE set-up under the orders observed in that interpreter; by definition
   run_cli_help_gen / run_api_help_gen / parse_defaults_gen are these *_of forms applied to setup_gen *)
Definition variant_model_ok (c : case) (v : variant) : bool :=
  let perm := perm_of v.(v_oracle) in
  let s := setup_gen perm c.(c_cfg) c.(c_mode) c.(c_forest) in
  let r := cli_help_of_gen perm c.(c_cfg) c.(c_pre) c.(c_cfgf) s in
  err_eqb (r_end r) v.(v_end)
  && match r_printed r, v.(v_stream) with
     | Some (s, gs), Some s' => stream_eqb s s' && groups_eqb gs v.(v_groups)
     | None, None => match v.(v_groups) with [] => true | _ => false end
     | _, _ => false
     end
  && (negb v.(v_full)
      || (res_eqb groups_eqb (api_help_of_gen perm c.(c_cfg) c.(c_pre) c.(c_cfgf) s) v.(v_api)
          && res_eqb view_eqb (drop_req c.(c_req) (parse_defaults_of_gen true c.(c_pre) c.(c_cfgf) s)) v.(v_after)
          && res_eqb view_eqb (drop_req c.(c_req) (parse_defaults_of_gen false c.(c_pre) c.(c_cfgf) s)) v.(v_fresh))).

Definition model_ok (c : case) : bool :=
  negb (match c.(c_variants) with [] => true | _ => false end) && forallb (variant_model_ok c) c.(c_variants).

(* a clash that the chosen conflict mode cannot resolve is C03's subject: the property speaks about parsers that can be set up *)
Definition variant_spec_ok (c : case) (v : variant) : bool :=
  match v.(v_end) with
  | CRE => true
  | _ =>
      ends_well v.(v_end) v.(v_stream)
      && help_describes (layered c.(c_pre) c.(c_cfgf)) v.(v_accepted) c.(c_forest) v.(v_groups)
      && hidden_ok c.(c_forest) v.(v_action_dests) v.(v_hidden)
      && hidden_not_mentioned c.(c_forest) v.(v_groups)
      && v.(v_hidden_only_in_desc)
      && v.(v_format_help_same)
      && (negb v.(v_full)
          || (res_eqb groups_eqb v.(v_api) (Ok v.(v_groups))     (* print_help() shows what --help shows *)
              && res_eqb view_eqb v.(v_after) v.(v_fresh) && v.(v_later_types_same)))      (* and leaves later parsing alone *)
  end.

Definition spec_ok (c : case) : bool :=
  forallb (variant_spec_ok c) c.(c_variants) && Nat.eqb c.(c_ntexts) 1.
