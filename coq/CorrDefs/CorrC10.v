(* CorrDefs/CorrC10.v *)
From SPV Require Export Base.Corr Model.OptStr Model.SpellSpec Gen.FactsConflicts.

Record case := mkcase {
  c_cfg : cfg;
  c_fw : fw;                    (* destination path, name, aliases; prefix empty (no clash) *)
  c_setup_ok : bool;
  c_opts : list string;         (* the option strings registered for the field, in the order they are registered *)
  c_members_ok : bool;          (* every registered spelling, when passed, set exactly this field *)
  c_nonmembers_ok : bool        (* spellings documented only for other configurations were rejected *)
}.

Definition in_scope (c : case) : bool := true.
Definition same_set (a b : list string) : bool := strs_seteq a b && Nat.eqb (List.length a) (List.length b).

(* exact list equality: since the fix: commit for option_strings the registration order is part of the behaviour
   (insertion order, then stable sort by length); the regenerated fact option_order_preserved_gen says so *)
Definition model_ok (c : case) : bool :=
  c.(c_setup_ok)
  && (if option_order_preserved_gen then strs_eqb (option_strings c.(c_cfg) c.(c_fw)) c.(c_opts)
      else same_set (option_strings c.(c_cfg) c.(c_fw)) c.(c_opts)).

Definition spec_ok (c : case) : bool :=
  c.(c_setup_ok)
  && strs_seteq (doc_options c.(c_cfg) (path c.(c_fw) ++ [name c.(c_fw)]) (name c.(c_fw)) (aliases c.(c_fw))) c.(c_opts)
  && c.(c_members_ok) && c.(c_nonmembers_ok).
