(* CorrDefs/CorrC09.v — one generated C09 case inside Coq: the declarations and the forest as observed on the
   simple_parsing parser, what the real argparse answered on the same program (three placements of the parents'
   actions), what simple_parsing answered, and the two checks. *)
From SPV Require Export Base.Corr Model.Coexist Model.CoexistSpec Gen.FactsCoexist.

Record gcase := mkgcase {
  gc_parser : gset;       (* the parser's prefix_chars / argument_default / conflict_handler *)
  gc_over : gov;          (* what the caller passed to add_argument_group *)
  gc_sp : gset;           (* settings of the group object simple_parsing created *)
  gc_twin : gset          (* settings of the group object argparse created *)
}.

Record case := mkcase {
  c_streams_agree : bool;                     (* both rejected with the same status: did they write to the same stream *)
  c_parents_intact : bool;                    (* the parent parsers' actions/defaults are what they were before the child existed *)
  c_args : bool;                              (* parse_args (leftovers are an error) instead of parse_known_args *)
  c_pre : option err;                         (* how declaring / set-up ended when it did not succeed *)
  c_parents : list action;                    (* the parents' actions and defaults *)
  c_plain : list action;                      (* the parser's own declarations (its _defaults keys as KDefault) *)
  c_forest : list wrapper;                    (* flattened wrappers after set-up, with ALL dataclass fields *)
  c_fields_obs : list (list string);          (* per wrapper: the dests of wrapper.fields *)
  c_gen_obs : list string;                    (* dests of the actions set-up added *)
  c_defaults_obs : option (list string);      (* keys of parser._defaults after the parse (None: set-up did not finish) *)
  c_installed_obs : option bool;              (* parents given: are their actions among the parser's at parse time *)
  c_oracle : res (nsp * list string);         (* argparse.ArgumentParser(parents=..) + declarations + stand-ins: the oracle *)
  (* argparse's parse_known_args on the program AS simple_parsing REGISTERED IT (groups with the settings its groups
     ended up with): *)
  c_ap_first : res (nsp * list string);       (* parents' actions first (what parents=[..] means in argparse) *)
  c_ap_none : res (nsp * list string);        (* without the parents *)
  c_ap_late : res (nsp * list string);        (* parents' actions added after the declarations *)
  c_sp : res (nsp * list string);             (* simple_parsing *)
  c_groups : list gcase
}.

Definition akind_eqb (a b : akind) : bool :=
  match a, b with KOpt, KOpt | KPos, KPos | KDefault, KDefault | KRouted, KRouted => true | _, _ => false end.
Definition action_eqb (a b : action) : bool := String.eqb (a_dest a) (a_dest b) && akind_eqb (a_kind a) (a_kind b).

(* argparse, as observed: the answer that belongs to the action list the model asks about *)
Definition AP_obs (c : case) (acts : list action) (_ : list string) : res (nsp * list string) :=
  let gen := generated_gen c.(c_forest) in
  if list_eqb action_eqb acts (ap_actions c.(c_parents) c.(c_plain) gen) then c.(c_ap_first)
  else if list_eqb action_eqb acts (sp_actions PPreprocess c.(c_parents) c.(c_plain) gen) then c.(c_ap_late)
  else c.(c_ap_none).

(* namespaces are compared as maps *)
Definition nsp_eqb (a b : nsp) : bool :=
  Nat.eqb (List.length a) (List.length b) && str_nodupb (keys a)
  && forallb (fun p => opt_nval_eqb (lookup (fst p) b) (Some (snd p))) a.
Definition run_eqb (x y : nsp * list string) : bool := nsp_eqb (fst x) (fst y) && strs_eqb (snd x) (snd y).

Definition in_scope (c : case) : bool := true.

Definition model_ok (c : case) : bool :=
  list_eqb strs_eqb (map (fun w => map f_dest (w_fields_gen w)) c.(c_forest)) c.(c_fields_obs)
  && strs_eqb (reg_dests_gen c.(c_forest)) c.(c_gen_obs)
  && match c.(c_defaults_obs) with
     | Some ks => strs_seteq (default_keys_gen (sp_actions parents_site_gen c.(c_parents) c.(c_plain) (generated_gen c.(c_forest)))) ks
     | None => true end
  && match c.(c_installed_obs) with Some b => Bool.eqb parents_installed_gen b | None => true end
  && res_eqb run_eqb ((if c.(c_args) then sp_parse_args_gen else sp_known_gen)
                        (AP_obs c) c.(c_pre) c.(c_parents) c.(c_plain) c.(c_forest) []) c.(c_sp)
  && forallb (fun g => gset_eqb (sp_group_gen g.(gc_parser) g.(gc_over)) g.(gc_sp)
                         && gset_eqb (ap_group g.(gc_parser) g.(gc_over)) g.(gc_twin)) c.(c_groups).

Definition spec_ok (c : case) : bool :=
  c.(c_streams_agree) && c.(c_parents_intact) &&
  spec_run (map a_dest (filter (fun a => negb (akind_eqb (a_kind a) KRouted)) (c.(c_parents) ++ c.(c_plain)))) c.(c_gen_obs) (top_dests c.(c_forest)) (sup_top_dests c.(c_forest)) (has_subgroups c.(c_forest))
           c.(c_oracle) c.(c_sp)
  && forallb (fun g => gset_eqb g.(gc_sp) g.(gc_twin)) c.(c_groups).
