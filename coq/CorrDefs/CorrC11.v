(* CorrDefs/CorrC11.v — one generated C11 case inside Coq, and the checks run on it. *)
From SPV Require Export Base.Corr Model.Merge Model.MergeSpec Gen.FactsBool Gen.FactsMerge.

Record case := mkcase {
  c_dests : list string;            (* dest of every dataclass wrapper that contains the field, in registration (discovery) order *)
  c_kind : kind;
  c_cd : option val;                (* the field's default in the dataclass; None = required *)
  c_explicit : list (option val);   (* per destination: the field's value in add_arguments(default=...), if any *)
  c_cli : option (list tok);        (* None = option absent; Some tokens = `--name tok...` (literal_eval of each token attached) *)
  c_obs : res (list val)            (* the field's value at namespace.<dest> for every dest, or how the parse ended *)
}.

Definition printable (c : ascii) : bool :=
  let n := ascii_nat c in Nat.leb 32 n && Nat.leb n 126 && negb (Nat.eqb n 95).
Definition float_char (c : ascii) : bool :=
  is_digit c || existsb (Ascii.eqb c) ["+"; "-"; "."; "x"; "z"]%char.

Definition str_ok (s : string) : bool := all_chars printable s.

Definition lit_ok (e : ety) (l : lit) : bool :=
  match l with
  | LOther => false
  | LInt _ => true
  | LStr s => str_ok s
  | LSeq _ items =>
      forallb (fun i => match i with
                        | LInt _ => true
                        | LStr s => str_ok s
                        | LSeq _ _ => match e with EInt => true | EStr => false end
                        | LOther => false
                        end) items
  end.

Definition tok_ok (k : kind) (t : tok) : bool :=
  str_ok (t_raw t) &&
  match k with
  | KFloat => all_chars float_char (t_raw t) && Nat.leb (String.length (t_raw t)) 10
  | KList e | KTuple e _ => match t_lit t with Some l => lit_ok e l | None => true end
  | _ => true
  end.

Definition dest_ok (d : string) : bool :=
  forallb (fun w => negb (String.eqb w "")) (split_dot d).

Definition in_scope (c : case) : bool :=
  Nat.leb 2 (List.length c.(c_dests))
  && str_nodupb c.(c_dests)
  && forallb dest_ok c.(c_dests)
  && Nat.eqb (List.length c.(c_explicit)) (List.length c.(c_dests))
  && (forallb (fun o => match o with None => true | Some _ => false end) c.(c_explicit)
      || forallb (fun d => Nat.eqb (level d) 1) c.(c_dests))
  && (forallb (fun d => Nat.eqb (level d) 1) c.(c_dests) || match c.(c_cd) with Some _ => true | None => false end)
  && match c.(c_cli) with None => true | Some toks => forallb (tok_ok c.(c_kind)) toks end.

Definition model_ok (c : case) : bool :=
  res_eqb vals_eqb (run_gen c.(c_dests) c.(c_kind) c.(c_cd) c.(c_explicit) c.(c_cli)) c.(c_obs).

Definition dflts_of (c : case) : list (option val) :=
  map (fun o => match o with Some e => Some e | None => c.(c_cd) end) c.(c_explicit).

Definition spec_ok (c : case) : bool :=
  expect_allows (spec_expect c.(c_kind) (dflts_of c) c.(c_cli)) c.(c_obs).
