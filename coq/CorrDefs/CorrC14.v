(* CorrDefs/CorrC14.v — one generated C14 case inside Coq = the loads made at one or two points of a process history (part
   of the hierarchy defined, load; the rest defined, load again), each point judged on its own: a class table as introspected from the real classes, the
   implementation's actual all_subclasses enumeration orders, one source (an instance or a hand-written dict), the
   serialized forms and what from_dict returned for each drop_extra_fields; and the two checks run on it. *)
From SPV Require Export Base.Corr Model.Subclass Model.SubclassSpec Gen.FactsSubclass.

Inductive source := SrcInst (v : value) | SrcRaw (kvs : sfields).

Record probe := mkprobe {
  p_save : bool;                                  (* save_dc_types given to to_dict *)
  p_ser : ser;                                    (* what to_dict returned (or the hand-written dict) *)
  p_outs : list (option bool * res value)         (* drop_extra_fields -> how from_dict(via, p_ser, ..) ended *)
}.

Record stage := mkstage {
  c_mod : string;                                 (* module the classes were created in *)
  c_hier : hier;                                  (* registration order; names/bases/init fields read off the classes *)
  c_dis : list (string * bool);                   (* observed getattr(cls, "decode_into_subclasses", False) *)
  c_enum : list (string * list string);           (* observed [c.__name__ for c in all_subclasses(cls)] *)
  c_via : string;                                 (* the class from_dict is called on *)
  c_src : source;
  c_probes : list probe
}.

Definition enum_of (c : stage) (n : string) : list string :=
  match assoc n c.(c_enum) with Some l => l | None => [] end.

Definition perm_names (a b : list string) : bool :=
  str_nodupb a && Nat.eqb (List.length a) (List.length b) && forallb (fun x => str_in x b) a.

Fixpoint bases_earlier (seen : list string) (h : hier) : bool :=
  match h with
  | [] => true
  | c :: r => forallb (fun b => str_in b seen) (c_bases c) && bases_earlier (c_name c :: seen) r
  end.

Definition stage_in_scope (c : stage) : bool :=
  wf_hier_gen c.(c_hier) && bases_earlier [] c.(c_hier)
  && match find_class c.(c_hier) c.(c_via) with Some _ => true | None => false end
  && match c.(c_src) with
     | SrcInst v => wt c.(c_hier) v
     | SrcRaw kvs => str_nodupb (sf_keys kvs)
     end.

Definition model_result (c : stage) (dropo : option bool) (s : ser) : res value :=
  from_ser_gen c.(c_hier) c.(c_mod) (enum_of c) c.(c_via) dropo s.

Definition probe_model_ok (c : stage) (p : probe) : bool :=
  match c.(c_src) with
  | SrcInst v => ser_eqb (to_ser_gen c.(c_mod) p.(p_save) v) p.(p_ser)
  | SrcRaw kvs => ser_eqb (SMap kvs) p.(p_ser)
  end
  && forallb (fun o => res_eqb value_eqb (model_result c (fst o) p.(p_ser)) (snd o)) p.(p_outs).

Definition stage_model_ok (c : stage) : bool :=
  (* __init_subclass__ : the attribute every class ended up with *)
  strs_eqb (map fst c.(c_dis)) (map c_name c.(c_hier))
  && forallb (fun nb => Bool.eqb (dis_of_gen c.(c_hier) (fst nb)) (snd nb)) c.(c_dis)
  (* all_subclasses : some ordering of exactly the classes below *)
  && forallb (fun cl => perm_names (enum_of c (c_name cl)) (map c_name (descendants c.(c_hier) (c_name cl)))) c.(c_hier)
  && forallb (probe_model_ok c) c.(c_probes).

Definition probe_spec_ok (c : stage) (p : probe) : bool :=
  forallb (fun o =>
    let effdrop := spec_effdrop c.(c_hier) c.(c_via) (fst o) in
    match c.(c_src) with
    | SrcInst v => spec_instance c.(c_hier) c.(c_via) v p.(p_save) effdrop (snd o)
    | SrcRaw kvs =>
        match sf_get SPEC_TYPE_KEY kvs with
        | Some (SStr t) => spec_named c.(c_hier) (fun d => c.(c_mod) ++ "." ++ c_name d) t (snd o)
        | Some _ => true
        | None => spec_raw c.(c_hier) c.(c_via) kvs effdrop (snd o)
        end
    end) p.(p_outs).

Definition stage_spec_ok (c : stage) : bool := forallb (probe_spec_ok c) c.(c_probes).

(* a case: the class tables, enumerations and loads observed at successive points of ONE process (same module; classes
   defined later are absent from the earlier tables) *)
Definition case := list stage.
Definition in_scope (c : case) : bool := forallb stage_in_scope c.
Definition model_ok (c : case) : bool := forallb stage_model_ok c.
Definition spec_ok (c : case) : bool := forallb stage_spec_ok c.
