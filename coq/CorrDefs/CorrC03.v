(* CorrDefs/CorrC03.v *)
From SPV Require Export Base.Corr Model.OptStr Model.OptStrSpec Gen.FactsConflicts.

Record case := mkcase {
  c_mode : crmode;
  c_fws : list fw;                       (* declared leaves in the traversal order, with the user prefix *)
  c_userpfx : bool;
  c_obs : res (list (list string));      (* per field wrapper, the registered option strings (sorted) *)
  c_dests : list string;                 (* per field wrapper, its destination as the implementation reports it *)
  c_effects : list (string * (bool * list string))   (* option -> parse [opt;42] accepted?, leaves that changed *)
}.

Definition opts0 := option_strings default_cfg_parser.
Definition in_scope (c : case) : bool := true.

(* per field: the same option strings, in the same order when the regenerated fact says the order is preserved *)
Definition sets_eqb (a b : list (list string)) : bool :=
  list_eqb (fun x y => if option_order_preserved_gen then strs_eqb x y
                       else strs_seteq x y && Nat.eqb (List.length x) (List.length y)) a b.

Definition model_ok (c : case) : bool :=
  match resolve_gen opts0 c.(c_mode) c.(c_fws), c.(c_obs) with
  | Ok fs', Ok obs => sets_eqb (map opts0 fs') obs && strs_eqb (map dest c.(c_fws)) c.(c_dests)
  | Err e, Err e' => err_eqb e e'
  | _, _ => false
  end.

Definition clash (c : case) : bool :=
  match get_conflict opts0 c.(c_fws) with Some _ => true | None => false end.

Definition spec_ok (c : case) : bool :=
  match c.(c_obs) with
  | Err CRE => match c.(c_mode) with CRNone => clash c | _ => true end
  | Err _ => false
  | Ok obs =>
      (match c.(c_mode) with CRNone => negb (clash c) | _ => true end)
      && str_nodupb (List.concat obs)
      && (if c.(c_userpfx) then true
          else naming_all (match c.(c_mode) with CRExplicit => true | _ => false end) c.(c_fws) c.(c_fws) obs)
      && effects_ok c.(c_fws) obs c.(c_effects)
  end.
