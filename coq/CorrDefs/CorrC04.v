(* CorrDefs/CorrC04.v — same cases as C02, judged by C04's demand (reject with status 2, or a well-typed result). *)
From SPV Require Export CorrDefs.CorrC02.
Definition spec_ok (c : case) : bool := spec_ok_C04 c.
