(* CorrDefs/CorrC02.v — a dataclass with several fields; some are written on the command line. Shared by C02 and C04. *)
From SPV Require Export Base.Corr Model.BoolFlag Model.Leaf Model.LeafSpec Gen.FactsBool Gen.FactsLeaf.

Record fcase := mkf {
  f_ty : ty;
  f_default : option value;              (* None = required field *)
  f_toks : option (list string);         (* tokens written after the field's option (None = not mentioned) *)
  f_neg : bool;                          (* bool fields: the generated negative option (--no<name>) was the one written *)
  f_intended : option value;             (* the value the user meant (C02); None when the argv is a C04 mutation *)
  f_obs : option value                   (* the field's value in the returned instance (None when the parse failed) *)
}.
Record case := mkcase {
  c_fields : list fcase;                 (* mentioned fields first, in argv order *)
  c_outcome : res unit;                  (* Ok tt, or how parse_args ended *)
  c_expect_reject : bool;                (* C04: the argv is a mutation that must be rejected *)
  c_unknown_opt : bool                   (* the argv also contains an option that is not registered (nor an abbreviation) *)
}.

Definition field_result (f : fcase) : res value :=
  match f.(f_toks) with
  | Some toks =>
      if f.(f_neg) then
        match toks with
        | [] => Ok (VBool false)
        | [s] => match str2bool_gen s with
                 | None => Err (Exit 2)
                 | Some b => match action_call_gen ["--neg"] "--neg" (CBool b) with Ok x => Ok (VBool x) | Err e => Err e end
                 end
        | _ => Err (Exit 2)
        end
      else leaf_parse_gen f.(f_ty) toks
  | None => match f.(f_default) with Some d => Ok d | None => Err (Exit 2) end
  end.

Fixpoint first_err (rs : list (res value)) : option err :=
  match rs with [] => None | Err e :: _ => Some e | Ok _ :: r => first_err r end.

(* conversion errors of written options come first (argv order); missing required fields are reported at the end *)
Definition model_outcome (c : case) : option err :=
  let written := filter (fun f => match f.(f_toks) with Some _ => true | None => false end) c.(c_fields) in
  match first_err (map field_result written) with
  | Some e => Some e
  | None => match first_err (map field_result c.(c_fields)) with
            | Some e => Some e
            | None => if c.(c_unknown_opt) then Some (Exit 2) else None
            end
  end.

Definition in_scope (c : case) : bool := true.

Definition model_ok (c : case) : bool :=
  match model_outcome c, c.(c_outcome) with
  | Some e, Err e' => err_eqb e e'
  | None, Ok _ => forallb (fun f => match field_result f, f.(f_obs) with
                                     | Ok v, Some o => value_eqb v o
                                     | _, _ => false end) c.(c_fields)
  | _, _ => false
  end.

(* C02: every written field has the intended value, every other field its default *)
Definition spec_ok (c : case) : bool :=
  match c.(c_outcome) with
  | Err _ => false
  | Ok _ => forallb (fun f => match f.(f_toks), f.(f_intended), f.(f_default), f.(f_obs) with
                              | Some _, Some v, _, Some o => value_eqb v o
                              | None, _, Some d, Some o => value_eqb d o
                              | _, _, _, _ => false end) c.(c_fields)
  end.

(* C04: accepted => every field conforms to its annotation; a mutated argv must end through the error path (status 2) *)
Definition spec_ok_C04 (c : case) : bool :=
  match c.(c_outcome) with
  | Ok _ => negb c.(c_expect_reject)
            && forallb (fun f => match f.(f_obs) with Some o => has_type o f.(f_ty) | None => false end) c.(c_fields)
  | Err (Exit 2) => true
  | Err _ => false
  end.
