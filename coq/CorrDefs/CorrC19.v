(* CorrDefs/CorrC19.v — one generated C19 case inside Coq: real modules were written to disk, imported, and
   simple_parsing.docstring.get_attribute_docstring / FieldWrapper.help were observed on their classes. *)
From SPV Require Export Base.Corr Model.DocScan Model.DocScanSpec Gen.FactsDoc.

(* multi-line observed texts are emitted as jn [line; ...] *)
Definition jn (l : list string) : string := join_nl l.

Record kcase := mkk {
  kc_name : string;
  kc_mro : list string;                  (* inspect.getmro(cls) without object, by class name *)
  kc_src : option (list string);         (* inspect.getsource(cls).split(NL) *)
  kc_doc : option (list string);         (* cls.__doc__.split(NL) when truthy *)
  kc_args : list (string * string);      (* oracle: docstring_parser params of inspect.getdoc(cls) *)
  kc_layout : option layout              (* how the generator wrote the class; None = outside the layout grammar *)
}.

Record qobs := mkq { q_cls : string; q_field : string; q_obs : parts }.
Record hobs := mkh { h_field : string; h_explicit : option string; h_parts : parts; h_help : option string;
                     h_custom : option string;        (* field(help=..): metadata['custom_args'].get('help') *)
                     h_hasdefault : bool;             (* fw.default is not None *)
                     h_action : option string         (* fw.arg_options.get('help'): what the argparse action is given *) }.

Record case := mkcase {
  c_classes : list kcase;
  c_queries : list qobs;                 (* get_attribute_docstring calls, in order, caches cleared before the first *)
  c_target : string;                     (* the class then given to ArgumentParser.add_arguments *)
  c_helps : list hobs;                   (* its FieldWrappers, in field order: _docstring and .help *)
  c_spec : bool                          (* false: malformed-source stream, the property is silent *)
}.

Fixpoint find_k (ks : list kcase) (n : string) : option kcase :=
  match ks with
  | [] => None
  | k :: r => if String.eqb (kc_name k) n then Some k else find_k r n
  end.

Definition klass_of (k : kcase) : klass := mkklass (kc_name k) (kc_src k) (kc_doc k) (kc_args k).

(* ---------- scope ---------- *)
Definition char_ok (a : ascii) : bool :=
  let n := ascii_nat a in
  Nat.ltb n 128 && negb (Nat.leb 11 n && Nat.leb n 13) && negb (Nat.leb 28 n && Nat.leb n 30) && negb (Nat.eqb n 10).
Definition lines_ok (o : option (list string)) : bool :=
  match o with Some l => forallb (str_all char_ok) l | None => true end.

(* the printer of the spec produced exactly the lines the scanner works on *)
Definition layout_matches (k : kcase) : bool :=
  match kc_layout k with
  | None => true
  | Some L => match code_lines (klass_of k) with
              | Some lines => strs_eqb (render L) lines
              | None => false
              end
  end.

Definition in_scope (c : case) : bool :=
  forallb (fun k => lines_ok (kc_src k) && lines_ok (kc_doc k) && layout_matches k) c.(c_classes).

(* ---------- model ---------- *)
Definition scan_named (ks : list kcase) (f : string) (n : string) : option parts :=
  match find_k ks n with
  | Some k => scan_class_gen (klass_of k) f
  | None => None
  end.

Definition all_queries (c : case) : list qobs :=
  c.(c_queries) ++ map (fun h => mkq c.(c_target) (h_field h) (h_parts h)) c.(c_helps).

Fixpoint caches_get (st : list (string * cache)) (f : string) : cache :=
  match st with
  | [] => []
  | (n, v) :: r => if String.eqb n f then v else caches_get r f
  end.
Fixpoint caches_set (st : list (string * cache)) (f : string) (v : cache) : list (string * cache) :=
  match st with
  | [] => [(f, v)]
  | (n, w) :: r => if String.eqb n f then (n, v) :: r else (n, w) :: caches_set r f v
  end.

(* the whole history, one lru_cache per field name *)
Fixpoint run_all (ks : list kcase) (qs : list qobs) (st : list (string * cache)) : bool :=
  match qs with
  | [] => true
  | q :: r =>
      match find_k ks (q_cls q) with
      | None => false
      | Some k =>
          let (d, st') := get_doc_gen (scan_named ks (q_field q)) (kc_mro k) (caches_get st (q_field q)) in
          parts_eqb d (q_obs q) && run_all ks r (caches_set st (q_field q) st')
      end
  end.

Definition model_ok (c : case) : bool :=
  run_all c.(c_classes) (all_queries c) []
  && forallb (fun h => opt_eqb String.eqb (help_gen (h_explicit h) (h_parts h)) (h_help h)
                       && opt_eqb String.eqb (final_help_gen (h_custom h) (action_help_gen (h_help h) (h_hasdefault h))) (h_action h)) c.(c_helps).

(* ---------- spec ---------- *)
Definition entry_of (k : kcase) (f : string) : string := last_assoc f (kc_args k) "".

Definition provided_of (ks : list kcase) (f : string) (n : string) : option provided :=
  match find_k ks n with
  | Some k => match kc_layout k with
              | Some L => Some (provided_by (docs L f) (entry_of k f))
              | None => None
              end
  | None => None
  end.

Fixpoint all_some {A} (l : list (option A)) : option (list A) :=
  match l with
  | [] => Some []
  | Some x :: r => match all_some r with Some xs => Some (x :: xs) | None => None end
  | None :: _ => None
  end.

Definition parts_prov (d : parts) : provided := mkprov (p_above d) (p_inline d) (p_below d) (p_cls d).

Definition spec_query (ks : list kcase) (q : qobs) : bool :=
  match find_k ks (q_cls q) with
  | None => false
  | Some k => match all_some (map (provided_of ks (q_field q)) (kc_mro k)) with
              | None => false
              | Some chain => prov_eqb (spec_parts chain) (parts_prov (q_obs q))
              end
  end.

Definition spec_helpobs (ks : list kcase) (target : string) (h : hobs) : bool :=
  match find_k ks target with
  | None => false
  | Some k => match all_some (map (provided_of ks (h_field h)) (kc_mro k)) with
              | None => false
              | Some chain => opt_eqb String.eqb (spec_help (h_explicit h) (spec_parts chain)) (h_help h)
                              && spec_action_help (spec_help (explicit_help (h_custom h) (h_explicit h)) (spec_parts chain))
                                                  (h_action h)
              end
  end.

Definition spec_ok (c : case) : bool :=
  if c.(c_spec) then
    forallb (spec_query c.(c_classes)) (all_queries c)
    && forallb (spec_helpobs c.(c_classes) c.(c_target)) c.(c_helps)
  else true.
