(* Model/SerialSpec.v — what properties C05 and C13 demand, written independently of the code's shape.
   Executable where the correspondence needs to evaluate it on observed behaviour. *)
From SPV Require Export Base.Str Model.Serial.
Local Open Scope Z_scope.

(* ---------- annotation conformance: "comes back with its declared Python type" ---------- *)
Definition scalar_prim (v : value) : option prim :=
  match v with
  | VBool b => Some (PBool b) | VInt z => Some (PInt z) | VStr s => Some (PStr s) | VNone => Some PNone
  | _ => None
  end.

Fixpoint strictly_sorted (l : list value) : bool :=
  match l with
  | [] => true
  | x :: r => match r with [] => true | y :: _ => (vkey x <? vkey y) && strictly_sorted r end
  end.

Fixpoint keys_distinct (ks : list value) : bool :=
  match ks with
  | [] => true
  | k :: r => forallb (fun k' => negb (value_eqb k k')) r && keys_distinct r
  end.

Fixpoint has_type (v : value) (t : ty) : bool :=
  match t with
  | TBool => match v with VBool _ => true | _ => false end
  | TInt => match v with VInt _ => true | _ => false end
  | TFloat => match v with VFlt r => float_canon r | _ => false end
  | TStr => match v with VStr _ => true | _ => false end
  | TPath => match v with VPath s => path_normal s | _ => false end
  | TEnum c ms => match v with VEnum c' m => String.eqb c c' && str_in m ms | _ => false end
  | TLit cs => match scalar_prim v with Some p => existsb (prim_eqb p) cs | None => false end
  | TOpt t1 => match v with VNone => true | _ => has_type v t1 end
  | TUnion ts => existsb (has_type v) ts
  | TList t1 => match v with VList vs => forallb (fun x => has_type x t1) vs | _ => false end
  | TTupVar t1 => match v with VTup vs => forallb (fun x => has_type x t1) vs | _ => false end
  | TTup ts =>
      match v with
      | VTup vs => (fix go (ts : list ty) (vs : list value) : bool :=
                      match ts, vs with
                      | [], [] => true
                      | t1 :: tr, x :: vr => has_type x t1 && go tr vr
                      | _, _ => false
                      end) ts vs
      | _ => false
      end
  | TSet t1 => match v with
               | VSet vs => forallb (fun x => has_type x t1) vs && strictly_sorted vs
               | _ => false end
  | TDict tk tv =>
      match v with
      | VDict _ kvs => forallb (fun kv => has_type (fst kv) tk && has_type (snd kv) tv) kvs
                       && keys_distinct (map fst kvs)
      | _ => false
      end
  | TDc k c fs =>
      match v with
      | VDc k' c' vfs =>
          dkind_eqb k k' && String.eqb c c' &&
          (fix go (fs : list (string * fmeta * option value * ty)) (vfs : list (string * fmeta * value)) : bool :=
             match fs, vfs with
             | [], [] => true
             | (n, m, _, t1) :: fr, (n', m', x) :: vr =>
                 String.eqb n n' && fmeta_eqb m m' && has_type x t1 && go fr vr
             | _, _ => false
             end) fs vfs
      | _ => false
      end
  end.

(* ---------- C13: only dict / list / str / int / float / bool / None ---------- *)
Definition json_scalar (p : prim) : bool :=
  match p with PNone | PBool _ | PInt _ | PFlt _ | PStr _ => true | _ => false end.
Fixpoint prim_only (p : prim) : bool :=
  match p with
  | PNone | PBool _ | PInt _ | PFlt _ | PStr _ => true
  | PList ps => forallb prim_only ps
  | PDict od kvs => negb od && forallb (fun kv => json_scalar (fst kv) && prim_only (snd kv)) kvs
  | PTuple _ | PBad => false
  end.

(* types whose values are encoded as one scalar *)
Fixpoint scalar_type (t : ty) : bool :=
  match t with
  | TBool | TInt | TFloat | TStr | TPath | TEnum _ _ | TLit _ => true
  | TOpt t1 => scalar_type t1
  | TUnion ts => forallb scalar_type ts
  | _ => false
  end.
(* no dictionary keyed by something that is not encoded as a scalar *)
Fixpoint plain_type (t : ty) : bool :=
  match t with
  | TOpt t1 | TList t1 | TTupVar t1 | TSet t1 => plain_type t1
  | TUnion ts | TTup ts => forallb plain_type ts
  | TDict tk tv => scalar_type tk && plain_type tv
  | TDc _ _ fs => forallb (fun f => plain_type (snd f)) fs
  | _ => true
  end.
(* no OrderedDict inside *)
Fixpoint plain_value (v : value) : bool :=
  match v with
  | VList vs | VTup vs | VSet vs => forallb plain_value vs
  | VDict od kvs => negb od && forallb (fun kv => plain_value (fst kv) && plain_value (snd kv)) kvs
  | VDc _ _ fs => forallb (fun f => plain_value (snd f)) fs
  | _ => true
  end.

(* ---------- C05: the types the round-trip theorem ranges over ---------- *)
Definition key_type (t : ty) : bool :=
  match t with TBool | TInt | TFloat | TStr | TPath | TEnum _ _ => true | _ => false end.
Definition union_member (t : ty) : bool :=
  match t with TBool | TInt | TFloat | TStr | TPath | TEnum _ _ => true | _ => false end.
Definition lit_choice (p : prim) : bool :=
  match p with PStr _ | PInt _ | PBool _ => true | _ => false end.

Section WithKey.
  Variable type_key : string.
  Fixpoint ser_type (t : ty) : bool :=
    match t with
    | TBool | TInt | TFloat | TStr | TPath | TEnum _ _ => true
    | TLit cs => forallb lit_choice cs
    | TOpt t1 | TList t1 | TTupVar t1 => ser_type t1
    | TUnion ts => forallb union_member ts
    | TTup ts => forallb ser_type ts
    | TSet t1 => key_type t1
    | TDict tk tv => key_type tk && ser_type tv
    | TDc _ _ fs =>
        forallb (fun f => match f with (n, m, _, t1) => fmeta_eqb m plain_meta && ser_type t1 end) fs
        && str_nodupb (map (fun f => match f with (n, _, _, _) => n end) fs)
        && negb (str_in type_key (map (fun f => match f with (n, _, _, _) => n end) fs))
    end.
End WithKey.

(* the inputs the first-success rule treats correctly: at every Union position, every member declared
   before the first one the value is an instance of fails to decode the value's encoding *)
Section UnionSafe.
  Variable dec : ty -> prim -> res value.
  Variable enc : value -> prim.
  Definition rejects (t : ty) (p : prim) : bool :=
    match dec t p with Err OutOfFuel => false | Err _ => true | Ok _ => false end.
  Fixpoint union_safe (t : ty) (v : value) : bool :=
    match t with
    | TOpt t1 => match v with VNone => true | _ => union_safe t1 v end
    | TUnion ts =>
        (fix pick (ts : list ty) : bool :=
           match ts with
           | [] => false
           | t1 :: r => if has_type v t1 then true else rejects t1 (enc v) && pick r
           end) ts
    | TList t1 => match v with VList vs => forallb (union_safe t1) vs | _ => true end
    | TTupVar t1 => match v with VTup vs => forallb (union_safe t1) vs | _ => true end
    | TSet t1 => match v with VSet vs => forallb (union_safe t1) vs | _ => true end
    | TTup ts =>
        match v with
        | VTup vs => (fix go (ts : list ty) (vs : list value) : bool :=
                        match ts, vs with
                        | t1 :: tr, x :: vr => union_safe t1 x && go tr vr
                        | _, _ => true
                        end) ts vs
        | _ => true
        end
    | TDict tk tv =>
        match v with
        | VDict _ kvs => forallb (fun kv => union_safe tk (fst kv) && union_safe tv (snd kv)) kvs
        | _ => true
        end
    | TDc _ _ fs =>
        match v with
        | VDc _ _ vfs =>
            (fix go (fs : list (string * fmeta * option value * ty)) (vfs : list (string * fmeta * value)) : bool :=
               match fs, vfs with
               | (_, _, _, t1) :: fr, (_, _, x) :: vr => union_safe t1 x && go fr vr
               | _, _ => true
               end) fs vfs
        | _ => true
        end
    | _ => true
    end.
End UnionSafe.

(* ---------- lenient raw encodings of a value (numbers / bools as strings, tuples as lists, a missing
   key for a field with a default, a field's decoding_fn) ---------- *)
Section Lenient.
  Variable dec : ty -> prim -> res value.
  Variable type_key : string.
  Variable s2b : string -> option bool.
  Variable decf : Z -> prim -> res value.

  Definition fails (t : ty) (p : prim) : Prop := exists e, dec t p = Err e /\ e <> OutOfFuel.
  Definition seq_of (p : prim) (ps : list prim) : Prop := p = PList ps \/ p = PTuple ps.

  Fixpoint lenient (t : ty) (v : value) (p : prim) : Prop :=
    match t with
    | TBool => exists b, v = VBool b /\ (p = PBool b \/ exists s, p = PStr s /\ s2b s = Some b)
    | TInt => exists z, v = VInt z /\ (p = PInt z \/ exists s, p = PStr s /\ parse_int s = Some z)
    | TFloat => exists r, v = VFlt r /\
                          (p = PFlt r \/ (exists s, p = PStr s /\ parse_float s = Ok r)
                           \/ exists z, p = PInt z /\ Z.abs z < FLOAT_INT_EXACT /\ r = float_of_int_repr z)
    | TStr => exists s, v = VStr s /\ p = PStr s
    | TPath => exists s, v = VPath s /\ p = PStr s /\ path_normal s = true
    | TEnum c ms => exists m, v = VEnum c m /\ p = PStr m /\ str_in m ms = true
    | TLit cs => lit_choice p = true /\ existsb (prim_eqb p) cs = true /\ v = raw p
    | TOpt t1 => (v = VNone /\ p = PNone) \/ (p <> PNone /\ p <> PBad /\ lenient t1 v p)
    | TUnion ts =>
        p <> PBad /\
        (fix pick (ts : list ty) : Prop :=
           match ts with
           | [] => False
           | t1 :: r => lenient t1 v p \/ (fails t1 p /\ pick r)
           end) ts
    | TList t1 => exists vs ps, v = VList vs /\ seq_of p ps /\ Forall2 (lenient t1) vs ps
    | TTupVar t1 => exists vs ps, v = VTup vs /\ seq_of p ps /\ Forall2 (lenient t1) vs ps
    | TTup ts =>
        exists vs ps, v = VTup vs /\ seq_of p ps /\
        (fix go (ts : list ty) (vs : list value) (ps : list prim) : Prop :=
           match ts, vs, ps with
           | [], [], [] => True
           | t1 :: tr, x :: vr, q :: pr => lenient t1 x q /\ go tr vr pr
           | _, _, _ => False
           end) ts vs ps
    | TSet t1 => exists vs ps vs', v = VSet vs /\ seq_of p ps /\ Forall2 (lenient t1) vs' ps /\
                                   forallb v_hashable vs' = true /\ canon_set vs' = vs
    | TDict tk tv =>
        exists od kvs pkvs kvs', v = VDict od kvs /\ p = PDict od pkvs /\
          Forall2 (fun kv pkv => lenient tk (fst kv) (fst pkv) /\ lenient tv (snd kv) (snd pkv)) kvs' pkvs /\
          dict_build [] kvs' = Ok kvs
    | TDc k c fs =>
        exists vfs od pkvs, v = VDc k c vfs /\ p = PDict od pkvs /\
          dict_get prim_eqb (PStr type_key) pkvs = None /\
          (fix go (fs : list (string * fmeta * option value * ty)) (vfs : list (string * fmeta * value)) : Prop :=
             match fs, vfs with
             | [], [] => True
             | (n, m, dflt, t1) :: fr, (n', m', x) :: vr =>
                 n = n' /\ m = m' /\
                 match dict_get prim_eqb (PStr n) pkvs with
                 | None => dflt = Some x
                 | Some rawv => match m.(m_dec) with
                                | Some h => decf h rawv = Ok x
                                | None => lenient t1 x rawv
                                end
                 end /\ go fr vr
             | _, _ => False
             end) fs vfs
    end.
End Lenient.

(* ---------- Python equality of the decoded instance with the original: dict entries in any order,
   dict vs OrderedDict not distinguished; everything else type-exact ---------- *)
Fixpoint veq (a b : value) : bool :=
  match a, b with
  | VList xs, VList ys | VTup xs, VTup ys | VSet xs, VSet ys =>
      (fix go xs ys := match xs, ys with
                       | [], [] => true
                       | x :: xr, y :: yr => veq x y && go xr yr
                       | _, _ => false end) xs ys
  | VDict _ xs, VDict _ ys =>
      Nat.eqb (List.length xs) (List.length ys) &&
      forallb (fun kv => existsb (fun kv' => veq (fst kv) (fst kv') && veq (snd kv) (snd kv')) ys) xs
  | VDc k1 c1 xs, VDc k2 c2 ys =>
      dkind_eqb k1 k2 && String.eqb c1 c2 &&
      (fix go xs ys := match xs, ys with
                       | [], [] => true
                       | (n1, _, v1) :: xr, (n2, _, v2) :: yr => String.eqb n1 n2 && veq v1 v2 && go xr yr
                       | _, _ => false end) xs ys
  | _, _ => value_eqb a b
  end.

(* ---------- C13 hooks: what to_dict must contain for one dataclass instance ---------- *)
Section Hooks.
  Variable encf : Z -> value -> prim.
  Variable plain_enc : value -> prim.     (* the hook-free encoding of a field value *)
  (* the entry demanded for field `n` : absent when to_dict=False, the user's function when given *)
  Definition spec_entry (fs : list (string * fmeta * value)) (n : string) : option prim :=
    match find (fun f => match f with (n', _, _) => String.eqb n' n end) fs with
    | None => None
    | Some (_, m, x) =>
        if m.(m_incl) then Some (match m.(m_enc) with Some h => encf h x | None => plain_enc x end) else None
    end.
  Definition spec_keys (fs : list (string * fmeta * value)) : list string :=
    map (fun f => match f with (n, _, _) => n end) (filter (fun f => match f with (_, m, _) => m.(m_incl) end) fs).
End Hooks.

Definition dict_keys (p : prim) : list prim :=
  match p with PDict _ kvs => map fst kvs | _ => [] end.
Definition dict_lookup (p : prim) (n : string) : option prim :=
  match p with PDict _ kvs => dict_get prim_eqb (PStr n) kvs | _ => None end.

(* every dataclass node of the instance appears in the output with exactly its to_dict=True fields, in order,
   a field with an encoding_fn carries that function's result, every other field is treated recursively *)
Section HooksOk.
  Variable encf : Z -> value -> prim.
  Fixpoint hooks_ok (v : value) (p : prim) : bool :=
    match v with
    | VDc _ _ fs =>
        match p with
        | PDict _ kvs =>
            (fix eq (xs : list prim) (ys : list string) : bool :=
               match xs, ys with
               | [], [] => true
               | x :: xr, y :: yr => prim_eqb x (PStr y) && eq xr yr
               | _, _ => false
               end) (map fst kvs) (spec_keys fs)
            && forallb (fun f => match f with (n, m, x) =>
                          if m.(m_incl) then
                            match dict_get prim_eqb (PStr n) kvs with
                            | None => false
                            | Some e => match m.(m_enc) with
                                        | Some h => prim_eqb e (encf h x)
                                        | None => hooks_ok x e
                                        end
                            end
                          else true end) fs
        | _ => false
        end
    | VList vs | VTup vs =>
        match p with
        | PList ps => (fix go (vs : list value) (ps : list prim) : bool :=
                         match vs, ps with
                         | x :: vr, q :: pr => hooks_ok x q && go vr pr
                         | _, _ => true
                         end) vs ps
        | _ => true
        end
    | VDict _ kvs =>
        match p with
        | PDict _ pkvs => (fix go (kvs : list (value * value)) (pkvs : list (prim * prim)) : bool :=
                             match kvs, pkvs with
                             | (_, x) :: vr, (_, q) :: pr => hooks_ok x q && go vr pr
                             | _, _ => true
                             end) kvs pkvs
        | _ => true
        end
    | _ => true
    end.
End HooksOk.

(* from_dict: a top-level field with a decoding_fn holds that function's result on the raw entry *)
Definition from_hooks_ok (decf : Z -> prim -> res value) (p : prim) (obs : value) : bool :=
  match obs, p with
  | VDc _ _ fs, PDict _ kvs =>
      forallb (fun f => match f with (n, m, x) =>
                 match m.(m_dec), dict_get prim_eqb (PStr n) kvs with
                 | Some h, Some e => match decf h e with Ok y => value_eqb x y | Err _ => false end
                 | _, _ => true
                 end end) fs
  | _, _ => true
  end.
