(* Model/Namespace.v — how successive option occurrences act on the namespace: each occurrence overwrites its
   own destination and nothing else (argparse's store semantics, interface lemmas I2/I6 of DESIGN section 2). *)
From SPV Require Export Base.Str.

Section NS.
  Variable V : Type.
  Definition ns := list (string * V).

  Fixpoint lookup (d : string) (n : ns) : option V :=
    match n with [] => None | (k, v) :: r => if String.eqb k d then Some v else lookup d r end.

  Fixpoint set_ns (n : ns) (d : string) (v : V) : ns :=
    match n with
    | [] => [(d, v)]
    | (k, x) :: r => if String.eqb k d then (k, v) :: r else (k, x) :: set_ns r d v
    end.

  (* the written occurrences, left to right *)
  Definition apply_all (occs : list (string * V)) (n : ns) : ns :=
    fold_left (fun a p => set_ns a (fst p) (snd p)) occs n.
End NS.
Arguments lookup {V}. Arguments set_ns {V}. Arguments apply_all {V}.
