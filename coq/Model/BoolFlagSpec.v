(* Model/BoolFlagSpec.v — what property C12 demands, written without reference to the code's tables.
   Executable, so the correspondence run evaluates it on every observed behaviour. *)
From SPV Require Export Base.Str.

(* the vocabulary the property names *)
Definition SPEC_TRUE : list string := ["yes"; "true"; "t"; "y"; "1"].
Definition SPEC_FALSE : list string := ["no"; "false"; "f"; "n"; "0"].

(* the boolean named by v, case-insensitively *)
Definition spec_word (v : string) : option bool :=
  let w := lower v in
  if str_in w SPEC_TRUE then Some true else if str_in w SPEC_FALSE then Some false else None.

Definition is_padded (v : string) : bool := negb (String.eqb (strip v) v).

(* an occurrence, by what the user meant *)
Inductive okind := PosBare | NegBare | PosVal (v : string) | NegVal (v : string).

Inductive expect := MustBe (b : bool) | MustReject | Unspecified.

Definition spec_occ (k : okind) : expect :=
  match k with
  | PosBare => MustBe true
  | NegBare => MustBe false
  | PosVal v => if is_padded v then Unspecified       (* blanks around a word: the property is silent *)
                else match spec_word v with Some b => MustBe b | None => MustReject end
  | NegVal _ => MustReject                             (* a negative flag takes no value *)
  end.

(* several occurrences: processed left to right, the first rejected one rejects the command line,
   otherwise the last one determines the value; no occurrence: the default, or rejection when required *)
Fixpoint spec_occs (cur : option bool) (ks : list okind) : expect :=
  match ks with
  | [] => match cur with Some b => MustBe b | None => Unspecified end
  | k :: r => match spec_occ k with
              | MustBe b => spec_occs (Some b) r
              | MustReject => MustReject
              | Unspecified => Unspecified
              end
  end.

Definition spec_flag (default : option bool) (ks : list okind) : expect :=
  match ks with
  | [] => match default with Some d => MustBe d | None => MustReject end
  | _ => spec_occs None ks
  end.

Definition expect_allows (e : expect) (obs : res bool) : bool :=
  match e, obs with
  | MustBe b, Ok x => Bool.eqb b x
  | MustBe _, Err _ => false
  | MustReject, Err _ => true
  | MustReject, Ok _ => false
  | Unspecified, _ => true
  end.

(* documented naming of the negative option of a long positive option:
   "--P.n" -> "--P.<neg>n" (same path prefix), "--n" -> "<negative_prefix>n" *)
Definition spec_negative (negative_prefix : string) (path : list string) (n : string) : string :=
  let k := count_leading_dashes negative_prefix in
  let w := lstrip_dashes negative_prefix in
  match path with
  | [] => negative_prefix ++ n
  | _ => repeat_char "-"%char k ++ join_dot (path ++ [w ++ n])
  end.
