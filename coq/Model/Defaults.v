(* Model/Defaults.v — what SimpleParsing computes for an EMPTY command line (property C01).

   Source being modelled (faithfully, defects included):
     wrappers/dataclass_wrapper.py  DataclassWrapper.__init__ (push-down of the default instance into field wrappers and
                                    child wrappers), .defaults, .destinations, .merge
     wrappers/field_wrapper.py      FieldWrapper.default (order of the default sources, packaging for re-used fields),
                                    .duplicate_if_needed, .postprocess (Model/Leaf.v), .__call__
     conflicts.py                   ConflictResolver.resolve_and_flatten: NONE/EXPLICIT/AUTO = Model/OptStr.v; ALWAYS_MERGE here
     parsing.py                     _preprocessing, _postprocessing, _fill_constructor_arguments_with_fields,
                                    _instantiate_dataclasses, _create_dataclass_instance, parse()

   Three executable pieces:
     run_fields / parse_plain   structural recursion over the class tree; NONE, EXPLICIT and AUTO (every wrapper has one destination)
     parse_merge                ALWAYS_MERGE on arbitrary forests: an interpreter over the store of dataclass wrappers (mirrors the
                                mutable wrapper graph of the code; used for the correspondence run and for the refutation witnesses)
     uni_fields / parse_uniform ALWAYS_MERGE when the same class is registered at every destination and no name is shared otherwise
                                (merge_clean): per-destination default lists, packaging, dealing — structural, so that it can be
                                reasoned about by induction.  The correspondence run checks BOTH against the implementation.
   The decision points that live in the source as literals are Section variables, instantiated from Gen/FactsDefaults.v. *)
From SPV Require Export Base.Str Model.Leaf Model.LeafSpec Model.OptStr.

(* ---------- value trees: what a destination holds ---------- *)
Inductive vt :=
| VL (v : value)                                   (* a leaf value; VL VNone is also the None of an Optional dataclass member *)
| VD (cname : string) (fs : list (string * vt)).   (* a dataclass instance: class name, attributes in field order *)

Definition list_beq {A} (eqb : A -> A -> bool) : list A -> list A -> bool :=
  fix go l1 l2 := match l1, l2 with
                  | [], [] => true
                  | x :: r1, y :: r2 => eqb x y && go r1 r2
                  | _, _ => false end.

Definition vnone : vt := VL VNone.
Definition is_VNone (v : value) : bool := match v with VNone => true | _ => false end.
Definition is_vnone (v : vt) : bool := match v with VL VNone => true | _ => false end.
Definition some_inst (v : vt) : option vt := if is_vnone v then None else Some v.
Definition as_value (v : vt) : value := match v with VL x => x | VD _ _ => VNone end.

Fixpoint vt_eqb (a b : vt) : bool :=
  match a, b with
  | VL x, VL y => value_eqb x y
  | VD c1 f1, VD c2 f2 =>
      String.eqb c1 c2
      && (fix go (l1 l2 : list (string * vt)) : bool :=
            match l1, l2 with
            | [], [] => true
            | (n1, x) :: r1, (n2, y) :: r2 => String.eqb n1 n2 && vt_eqb x y && go r1 r2
            | _, _ => false
            end) f1 f2
  | _, _ => false
  end.

(* getattr(instance, name) *)
Definition attr (i : vt) (n : string) : vt :=
  match i with
  | VD _ fs => match find (fun p => String.eqb (fst p) n) fs with Some p => snd p | None => vnone end
  | VL _ => vnone
  end.

(* ---------- dataclass trees ---------- *)
Inductive ndef :=
| DFac                  (* field(default_factory=<the member's class>) *)
| DNone                 (* = None (Optional members only) *)
| DInst (i : vt).       (* field(default_factory=lambda: <instance expression>) / a frozen instance as default *)

Inductive fld :=
| FLeaf (n : string) (t : ty) (d : value) (fac : bool)                       (* fac: the default comes from a default_factory *)
| FNest (n : string) (opt : bool) (cn : string) (fs : list fld) (d : ndef).  (* member of dataclass type cn / Optional[cn] *)

Definition fname (f : fld) : string := match f with FLeaf n _ _ _ | FNest n _ _ _ _ => n end.
Definition dcls := (string * list fld)%type.
Definition entry := (string * dcls * option vt)%type.      (* destination, class, caller-supplied default instance *)
Definition forest := list entry.

(* what the dataclass constructor produces by itself *)
Fixpoint construct_fld (f : fld) : string * vt :=
  match f with
  | FLeaf n _ d _ => (n, VL d)
  | FNest n _ cn cfs nd => (n, match nd with DFac => VD cn (map construct_fld cfs) | DNone => vnone | DInst i => i end)
  end.
Definition construct_fields (fs : list fld) : list (string * vt) := map construct_fld fs.
Definition construct (c : dcls) : vt := VD (fst c) (construct_fields (snd c)).

(* utils.default_value(field) of a member *)
Definition default_value (cn : string) (cfs : list fld) (nd : ndef) : vt :=
  match nd with DFac => VD cn (construct_fields cfs) | DNone => vnone | DInst i => i end.

(* ---------- configuration ---------- *)
Inductive cmode := MPlain (m : crmode) | MMerge.          (* ConflictResolution: NONE / EXPLICIT / AUTO ; ALWAYS_MERGE *)
Inductive api := AParser | AParse.                         (* ArgumentParser(...).parse_args([]) ; simple_parsing.parse(cls, args=[]) *)
Record pcfg := mkp { p_mode : cmode; p_cfg : cfg; p_api : api }.

(* ---------- decision points regenerated from the source ---------- *)
Inductive guard_kind :=
| GDefault                   (* `wrapper.optional and wrapper.default is None` *)
| GDefaultAndDefaults.       (* ... `and all(default in (None, SUPPRESS) for default in wrapper.defaults)` *)
Inductive dsource := SManual | SSubgroup | SParentDefaults | SFieldDefault | SFactory | SStoreTrue | SStoreFalse.
Inductive dvsrc := DvDefault | DvFactory.        (* utils.default_value: `field.default is not MISSING`, `field.default_factory is not MISSING` *)
Inductive mreset :=                               (* DataclassWrapper.merge: whose field wrappers get set_default(None) *)
| MrSelf | MrOther | MrNone.
Inductive len_test := LenEqN | LenEqOne.          (* duplicate_if_needed: tests of the final chain on len(parsed_values) *)
Inductive dup_act := DAsIs | DTimesN | DInconsistent.
(* the arms of FieldWrapper.postprocess, by what their body does (tied to Model/Leaf.v postprocess by a lemma in the proofs) *)
Inductive post_arm :=
| PaEnumByName | PaChoiceDict | PaTupleOfSeq | PaBoolId | PaListOfTuple | PaSubparserId | PaOptTupleOfList | PaCallType.
Inductive pk_test :=
| PkSingleValue              (* the default is one value for one destination (repaired trees only) *)
| PkContainerTypeAndLenNeN   (* utils.is_tuple_or_list(self.field.type) and len(default) != n_destinations *)
| PkNotIsList.               (* not isinstance(default, list) *)

(* ---------- FieldWrapper.postprocess applied to a default ---------- *)
(* An Enum member is handed to argparse by name and turned back into the member; modelled as the member itself. *)
Definition raw_of_value (v : value) : raw :=
  match v with
  | VNone => RNone
  | VList vs | VTup vs => RMany vs
  | _ => ROne v
  end.
Definition post (t : ty) (v : value) : value := postprocess t (raw_of_value v).

Definition is_seq_ty (t : ty) : bool := match t with TList _ | TTupFix _ | TTupVar _ => true | _ => false end.
Definition is_vlist (v : value) : bool := match v with VList _ => true | _ => false end.
Definition py_len (v : value) : option nat :=
  match v with VList l | VTup l => Some (List.length l) | VStr s => Some (String.length s) | _ => None end.
Fixpoint nlevel (v : value) : nat :=                                       (* utils.get_nesting_level *)
  match v with
  | VList l | VTup l => S (fold_right (fun x acc => Nat.max (nlevel x) acc) 0 l)
  | _ => 0
  end.

(* ---------- structural equality of classes, name inventories ---------- *)
Fixpoint ty_beq (a b : ty) : bool :=
  match a, b with
  | TInt, TInt | TFloat, TFloat | TStr, TStr | TBool, TBool | TPath, TPath => true
  | TEnum m1, TEnum m2 => list_beq String.eqb m1 m2
  | TLit c1, TLit c2 =>
      list_beq (fun x y => match x, y with LStr s1, LStr s2 => String.eqb s1 s2 | LInt z1, LInt z2 => Z.eqb z1 z2 | _, _ => false end) c1 c2
  | TList x, TList y | TTupVar x, TTupVar y | TOpt x, TOpt y => ty_beq x y
  | TTupFix l1, TTupFix l2 =>
      (fix go (l1 l2 : list ty) : bool :=
         match l1, l2 with [], [] => true | x :: r1, y :: r2 => ty_beq x y && go r1 r2 | _, _ => false end) l1 l2
  | _, _ => false
  end.

Definition ndef_beq (a b : ndef) : bool :=
  match a, b with DFac, DFac | DNone, DNone => true | DInst x, DInst y => vt_eqb x y | _, _ => false end.

Fixpoint fld_beq (a b : fld) : bool :=
  match a, b with
  | FLeaf n1 t1 d1 f1, FLeaf n2 t2 d2 f2 => String.eqb n1 n2 && ty_beq t1 t2 && value_eqb d1 d2 && Bool.eqb f1 f2
  | FNest n1 o1 c1 fs1 d1, FNest n2 o2 c2 fs2 d2 =>
      String.eqb n1 n2 && Bool.eqb o1 o2 && String.eqb c1 c2 && ndef_beq d1 d2
      && (fix go (l1 l2 : list fld) : bool :=
            match l1, l2 with [], [] => true | x :: r1, y :: r2 => fld_beq x y && go r1 r2 | _, _ => false end) fs1 fs2
  | _, _ => false
  end.
Definition dcls_beq (a b : dcls) : bool := String.eqb (fst a) (fst b) && list_beq fld_beq (snd a) (snd b).

Fixpoint leaf_names_fld (f : fld) : list string :=
  match f with FLeaf n _ _ _ => [n] | FNest _ _ _ cfs _ => flat_map leaf_names_fld cfs end.
Definition leaf_names (fs : list fld) : list string := flat_map leaf_names_fld fs.
Fixpoint has_optional_fld (f : fld) : bool :=
  match f with FLeaf _ _ _ _ => false | FNest _ opt _ cfs _ => opt || existsb has_optional_fld cfs end.
Definition has_optional (fs : list fld) : bool := existsb has_optional_fld fs.
Fixpoint count_members_fld (f : fld) : nat :=
  match f with FLeaf _ _ _ _ => 0 | FNest _ _ _ cfs _ => S (list_sum (map count_members_fld cfs)) end.
Definition count_members (fs : list fld) : nat := list_sum (map count_members_fld fs).

(* python `l * n` *)
Fixpoint list_times {A} (l : list A) (n : nat) : list A :=
  match n with 0 => [] | S k => (l ++ list_times l k)%list end.

Section MapRes.
  Context {A B : Type}.
  Variable f : A -> res B.
  Fixpoint map_res (l : list A) : res (list B) :=
    match l with
    | [] => Ok []
    | x :: r => match f x with
                | Err e => Err e
                | Ok y => match map_res r with Ok ys => Ok (y :: ys) | Err e => Err e end
                end
    end.
End MapRes.

Section WithFacts.
  Variable guard : guard_kind.
  Variable order : list dsource.            (* the if/elif order of the default sources in FieldWrapper.default *)
  Variable factory_cached : bool.           (* the factory result is kept in `_default` (and so becomes a "manually set" default) *)
  Variable pk_chain : list pk_test.         (* `if self.is_reused and default is not None:` chain; every arm is [default] * n *)
  Variable deepest_first : bool.            (* _instantiate_dataclasses: sorted(..., key=nesting_level, reverse=True) *)
  Variable parse_is_parser : bool.          (* parse() = ArgumentParser(nested_mode=..., ...) + add_arguments(cls, dest, default) + parse_args *)
  Variable merge_rest_sorted : bool.        (* _fix_conflict_merge loops over the sorted list (false today: conflict.wrappers[1:]) *)
  Variable max_attempts : nat.
  Variable resolve : (fw -> list string) -> crmode -> list fw -> res (list fw).     (* Gen/FactsConflicts.resolve_gen *)
  Variable dv_srcs : list dvsrc.            (* utils.default_value: which sources of a member's default it looks at, in order *)
  Variable merge_resets : mreset.           (* DataclassWrapper.merge resets `_default` of self.fields (MrSelf today) *)
  Variable dup_chain : list (len_test * dup_act).   (* duplicate_if_needed: final if/elif chain on len(parsed_values) *)
  Variable dup_else : dup_act.
  Variable init_caches : bool.              (* DataclassWrapper.__init__ evaluates field_wrapper.default and self.defaults (debug
                                               messages): `_destinations` and `_defaults` are cached when the wrapper is created *)
  Variable forwards_default : bool.         (* add_arguments -> _add_arguments -> DataclassWrapper(..., default=default) *)
  Variable pipeline_std : bool.             (* parse_known_args: _preprocessing, argparse, _postprocessing = fill then instantiate *)

  (* ---------- FieldWrapper.default, before packaging ---------- *)
  (* manual = `_default`; defs = parent.defaults.  Result: the default and whether it is a single value. *)
  Definition non_none (defs : list vt) : list vt := filter (fun D => negb (is_vnone D)) defs.

  Fixpoint raw_default (srcs : list dsource) (manual : option value) (defs : list vt) (n : string) (d : value) (fac : bool)
    : value * bool :=
    match srcs with
    | [] => (VNone, true)
    | s :: r =>
        let next := raw_default r manual defs n d fac in
        match s with
        | SManual => match manual with Some v => (v, false) | None => next end
        | SParentDefaults =>
            match non_none defs with
            | [] => next
            | D :: more =>
                if Nat.eqb (List.length defs) 1 then (as_value (attr D n), true)
                else (VList (map (fun D' => as_value (attr D' n)) (D :: more)), false)
            end
        | SFieldDefault => if fac then next else (d, true)
        | SFactory => if fac then (d, true) else next
        | SSubgroup | SStoreTrue | SStoreFalse => next          (* no subgroups, no custom actions in this model *)
        end
    end.

  Definition norm_manual (v : value) : option value := if is_VNone v then None else Some v.

  (* `_default` after DataclassWrapper.__init__: the debug message evaluates .default once (a factory result is cached when no
     other source applies), then set_default(getattr(default, name)) when the wrapper was given a default instance *)
  Definition manual_init (wd : option vt) (defs : list vt) (n : string) (d : value) (fac : bool) : option value :=
    match wd with
    | Some D => norm_manual (as_value (attr D n))
    | None => match non_none defs with
              | [] => if factory_cached && fac then norm_manual d else None
              | _ => None
              end
    end.

  (* one destination: no packaging *)
  Definition leaf_default (n : string) (d : value) (fac : bool) (wd : option vt) (defs : list vt) : value :=
    fst (raw_default order (manual_init wd defs n d fac) defs n d fac).

  (* ---------- _create_dataclass_instance: the test besides wrapper.optional ---------- *)
  Definition guard_none (wd : option vt) (defs : list vt) : bool :=
    match wd with
    | Some _ => false
    | None => match guard with GDefault => true | GDefaultAndDefaults => forallb is_vnone defs end
    end.

  (* ====================================================================================================== *)
  (* NONE / EXPLICIT / AUTO: every wrapper has exactly one destination                                       *)
  (* ====================================================================================================== *)
  Definition child_default (wd : option vt) (n : string) : option vt :=
    match wd with Some D => some_inst (attr D n) | None => None end.
  (* DataclassWrapper.defaults of a child wrapper *)
  (* utils.default_value(field) of a member; None = dataclasses.MISSING *)
  Fixpoint dvalue (srcs : list dvsrc) (cn : string) (cfs : list fld) (nd : ndef) : option vt :=
    match srcs with
    | [] => None
    | DvDefault :: r => match nd with DNone => Some vnone | _ => dvalue r cn cfs nd end
    | DvFactory :: r => match nd with DNone => dvalue r cn cfs nd | _ => Some (default_value cn cfs nd) end
    end.
  Definition dvalues (cn : string) (cfs : list fld) (nd : ndef) : list vt :=
    match dvalue dv_srcs cn cfs nd with Some v => [v] | None => [] end.

  Definition child_defaults (cd : option vt) (defs : list vt) (n cn : string) (cfs : list fld) (nd : ndef) : list vt :=
    match cd with
    | Some c => [c]
    | None => match defs with
              | [] => dvalues cn cfs nd
              | _ => map (fun D => if is_vnone D then vnone else attr D n) defs
              end
    end.

  (* `arg_value != default_value` never holds for a leaf field of the wrapper *)
  Fixpoint leaves_at_default (fs : list fld) (vals : list (string * vt)) (wd : option vt) (defs : list vt) : bool :=
    match fs, vals with
    | FLeaf n _ d fac :: r, (_, v) :: rv => vt_eqb v (VL (leaf_default n d fac wd defs)) && leaves_at_default r rv wd defs
    | FNest _ _ _ _ _ :: r, _ :: rv => leaves_at_default r rv wd defs
    | _, _ => true
    end.

  (* one constructor argument of a wrapper; a member is instantiated from its own arguments first (bottom-up) *)
  Fixpoint run_fld (wd : option vt) (defs : list vt) (f : fld) {struct f} : string * vt :=
    match f with
    | FLeaf n t d fac => (n, VL (post t (leaf_default n d fac wd defs)))
    | FNest n opt cn cfs nd =>
        let cd := child_default wd n in
        let cdefs := child_defaults cd defs n cn cfs nd in
        let vals := map (run_fld cd cdefs) cfs in
        (n, if opt && guard_none cd cdefs && leaves_at_default cfs vals cd cdefs then vnone else VD cn vals)
    end.
  Definition run_fields (fs : list fld) (wd : option vt) (defs : list vt) : list (string * vt) := map (run_fld wd defs) fs.

  Definition root_defaults (i : option vt) : list vt := match i with Some D => [D] | None => [] end.
  Definition parse_plain (f : forest) : list (string * vt) :=
    map (fun e : entry => let '(d, c, i) := e in (d, VD (fst c) (run_fields (snd c) i (root_defaults i)))) f.

  (* the field wrappers in the resolver's traversal order: a wrapper's own leaves, then its child wrappers, depth first *)
  Definition leaf_fws (path : list string) (fs : list fld) : list fw :=
    flat_map (fun f => match f with FLeaf n _ _ _ => [mkfw path n "" [] false] | FNest _ _ _ _ _ => [] end) fs.
  Fixpoint member_fws (path : list string) (f : fld) {struct f} : list fw :=
    match f with
    | FLeaf _ _ _ _ => []
    | FNest n _ _ cfs _ => (leaf_fws (path ++ [n]) cfs ++ flat_map (member_fws (path ++ [n])) cfs)%list
    end.
  Definition flat_fws (path : list string) (fs : list fld) : list fw :=
    (leaf_fws path fs ++ flat_map (member_fws path) fs)%list.
  Definition forest_fws (f : forest) : list fw :=
    flat_map (fun e : entry => let '(d, c, _) := e in flat_fws [d] (snd c)) f.

  Fixpoint has_nested (fs : list fld) : bool :=
    match fs with [] => false | FLeaf _ _ _ _ :: r => has_nested r | FNest _ _ _ _ _ :: _ => true end.
  Definition forest_nested (f : forest) : bool := existsb (fun e : entry => has_nested (snd (snd (fst e)))) f.

  (* ====================================================================================================== *)
  (* ALWAYS_MERGE, re-used fields                                                                            *)
  (* ====================================================================================================== *)
  Fixpoint pk_holds (tests : list pk_test) (t : ty) (n : nat) (v : value) (single : bool) : res bool :=
    match tests with
    | [] => Ok false
    | PkSingleValue :: r => if single then Ok true else pk_holds r t n v single
    | PkContainerTypeAndLenNeN :: r =>
        if is_seq_ty t then
          match py_len v with
          | None => Err (Raise "TypeError")
          | Some k => if negb (Nat.eqb k n) then Ok true else pk_holds r t n v single
          end
        else pk_holds r t n v single
    | PkNotIsList :: r => if negb (is_vlist v) then Ok true else pk_holds r t n v single
    end.

  (* `if self.is_reused and default is not None:` ... `assert len(default) == n_destinations` *)
  Definition package (t : ty) (n : nat) (dv : value * bool) : res value :=
    let '(v, single) := dv in
    if Nat.leb n 1 || is_VNone v then Ok v else
    match pk_holds pk_chain t n v single with
    | Err e => Err e
    | Ok wrap =>
        let v' := if wrap then VList (repeat v n) else v in
        match py_len v' with
        | Some k => if Nat.eqb k n then Ok v' else Err (Raise "AssertionError")
        | None => Err (Raise "TypeError")
        end
    end.

  Definition is_tuple_ty (t : ty) : bool := match t with TTupFix _ | TTupVar _ => true | _ => false end.
  Definition is_list_ty (t : ty) : bool := match t with TList _ => true | _ => false end.

  (* FieldWrapper.duplicate_if_needed on the namespace value *)
  Definition duplicate_if_needed (t : ty) (v : value) (n : nat) : res (list value) :=
    let v := match v with VTup l => if is_list_ty t then VList l else v | _ => v end in
    let shortcut :=
      if negb (is_tuple_ty t) && negb (is_list_ty t) then
        match v with
        | VList [x] => if Nat.eqb (nlevel v) 2 then
                         match x with
                         | VList l | VTup l => if Nat.eqb (List.length l) n then Some l else None
                         | _ => None
                         end
                       else None
        | _ => None
        end
      else None in
    match shortcut with
    | Some l => Ok l
    | None =>
        let vs := match v with VList l | VTup l => l | _ => [v] end in
        let act a := match a with DAsIs => Ok vs | DTimesN => Ok (list_times vs n) | DInconsistent => Err Inconsistent end in
        (fix go (chain : list (len_test * dup_act)) : res (list value) :=
           match chain with
           | [] => act dup_else
           | (LenEqN, a) :: r => if Nat.eqb (List.length vs) n then act a else go r
           | (LenEqOne, a) :: r => if Nat.eqb (List.length vs) 1 then act a else go r
           end) dup_chain
    end.

  (* ---------- the same class at every destination, nothing else shared (see merge_clean in DefaultsSpec) ---------- *)
  (* value of one leaf at destination number i of k *)
  Definition uni_leaf (k i : nat) (n : string) (t : ty) (d : value) (fac : bool) (defs : list vt) : res value :=
    match package t k (raw_default order None defs n d fac) with      (* merge() resets `_default` *)
    | Err e => Err e
    | Ok v =>
        if Nat.leb k 1 then Ok (post t v) else
        match duplicate_if_needed t v k with
        | Err e => Err e
        | Ok vs => Ok (post t (nth i vs VNone))
        end
    end.

  Fixpoint uni_fld (k i : nat) (defs : list vt) (f : fld) {struct f} : res (string * vt) :=
    match f with
    | FLeaf n t d fac => match uni_leaf k i n t d fac defs with Ok v => Ok (n, VL v) | Err e => Err e end
    | FNest n opt cn cfs nd =>
        if opt then Err (Raise "OptionalMemberNotModelled") else
        let cdefs := match defs with
                     | [] => List.concat (repeat (dvalues cn cfs nd) k)
                     | _ => map (fun D => attr D n) defs
                     end in
        match map_res (uni_fld k i cdefs) cfs with
        | Ok sub => Ok (n, VD cn sub)
        | Err e => Err e
        end
    end.
  Definition uni_fields (k i : nat) (fs : list fld) (defs : list vt) : res (list (string * vt)) := map_res (uni_fld k i defs) fs.

  Fixpoint all_some {A} (l : list (option A)) : option (list A) :=
    match l with
    | [] => Some []
    | Some x :: r => match all_some r with Some xs => Some (x :: xs) | None => None end
    | None :: _ => None
    end.

  (* every destination registers class c; the caller defaults are all absent or all present *)
  Fixpoint uniform_go (k : nat) (c : dcls) (defs : list vt) (i : nat) (l : forest) : res (list (string * vt)) :=
    match l with
    | [] => Ok []
    | (d, _, _) :: r =>
        match uni_fields k i (snd c) defs, uniform_go k c defs (S i) r with
        | Ok fs, Ok rest => Ok ((d, VD (fst c) fs) :: rest)
        | Err e, _ => Err e
        | _, Err e => Err e
        end
    end.
  Definition uniform_defaults (f : forest) : list vt :=
    match all_some (map (fun e : entry => snd e) f) with Some ds => ds | None => [] end.
  Definition parse_uniform (c : dcls) (f : forest) : res (list (string * vt)) :=
    uniform_go (List.length f) c (uniform_defaults f) 0 f.

  (* ---------- arbitrary forests: the store of dataclass wrappers ---------- *)
  Record lf := mklf { lf_name : string; lf_ty : ty; lf_d : value; lf_fac : bool; lf_manual : option value }.
  Record wrap := mkw {
    w_key : string;               (* Wrapper.dest of the wrapper as created: the key; never changes *)
    w_path : list string;
    w_cn : string;
    w_cls : list fld;
    w_leaves : list lf;           (* DataclassWrapper.fields *)
    w_parent : option string;
    w_optional : bool;
    w_default : option vt;        (* _default *)
    w_defaults : list vt;         (* _defaults; VL VNone = a None entry *)
    w_dests : list string;        (* _destinations (cached at construction: every wrapper has a leaf field at or below it) *)
    w_children : list string      (* _children *)
  }.
  Definition store := list wrap.

  Definition set_children (w : wrap) (c : list string) : wrap :=
    mkw (w_key w) (w_path w) (w_cn w) (w_cls w) (w_leaves w) (w_parent w) (w_optional w) (w_default w) (w_defaults w) (w_dests w) c.
  Definition set_merged (w : wrap) (dests : list string) (defs : list vt) : wrap :=
    mkw (w_key w) (w_path w) (w_cn w) (w_cls w)
        (match merge_resets with
         | MrSelf => map (fun l => mklf (lf_name l) (lf_ty l) (lf_d l) (lf_fac l) None) (w_leaves w)   (* set_default(None) on self.fields *)
         | MrOther | MrNone => w_leaves w       (* the absorbed wrapper is dropped: resetting its fields changes nothing *)
         end)
        (w_parent w) (w_optional w) (w_default w) defs dests (w_children w).

  Definition getw (st : store) (k : string) : res wrap :=
    match find (fun w => String.eqb (w_key w) k) st with Some w => Ok w | None => Err (Raise "KeyError") end.
  Definition putw (st : store) (w : wrap) : store :=
    map (fun x => if String.eqb (w_key x) (w_key w) then w else x) st.

  Fixpoint leaves_of (fs : list fld) (wd : option vt) (defs : list vt) : list lf :=
    match fs with
    | [] => []
    | FLeaf n t d fac :: r => mklf n t d fac (manual_init wd defs n d fac) :: leaves_of r wd defs
    | FNest _ _ _ _ _ :: r => leaves_of r wd defs
    end.

  Definition member_keys (path : list string) (fs : list fld) : list string :=
    flat_map (fun f => match f with FLeaf _ _ _ _ => [] | FNest n _ _ _ _ => [join_dot (path ++ [n])] end) fs.

  (* DataclassWrapper.__init__, recursively: the wrapper, then its child wrappers in field order (pre-order) *)
  Fixpoint build_member (ppath : list string) (wd : option vt) (defs : list vt) (f : fld) {struct f} : list wrap :=
    match f with
    | FLeaf _ _ _ _ => []
    | FNest n o c cfs nd =>
        let path := (ppath ++ [n])%list in
        let cd := child_default wd n in
        let cdefs := child_defaults cd defs n c cfs nd in
        mkw (join_dot path) path c cfs (leaves_of cfs cd cdefs) (Some (join_dot ppath)) o cd cdefs [join_dot path] (member_keys path cfs)
        :: flat_map (build_member path cd cdefs) cfs
    end.
  Definition build_root (d : string) (c : dcls) (i : option vt) : list wrap :=
    let defs := root_defaults i in
    mkw d [d] (fst c) (snd c) (leaves_of (snd c) i defs) None false i defs [d] (member_keys [d] (snd c))
    :: flat_map (build_member [d] i defs) (snd c).

  Definition build_forest (f : forest) : store :=
    flat_map (fun e : entry => let '(d, c, i) := e in build_root d c i) f.

  Definition wlevel (w : wrap) : nat := List.length (w_path w) - 1.

  Fixpoint descendants (fuel : nat) (st : store) (k : string) : res (list string) :=
    match fuel with
    | 0 => Err OutOfFuel
    | S fu =>
        match getw st k with
        | Err e => Err e
        | Ok w =>
            (fix go (cs : list string) : res (list string) :=
               match cs with
               | [] => Ok []
               | c :: r => match descendants fu st c, go r with
                           | Ok ds, Ok rest => Ok (c :: ds ++ rest)%list
                           | Err e, _ => Err e
                           | _, Err e => Err e
                           end
               end) (w_children w)
        end
    end.

  Fixpoint remove_first (k : string) (l : list string) : list string :=
    match l with [] => [] | x :: r => if String.eqb x k then r else x :: remove_first k r end.

  (* ConflictResolver._remove *)
  Definition remove_w (fuel : nat) (st : store) (flat : list string) (k : string) : res (store * list string) :=
    if negb (str_in k flat) then Err (Raise "ValueError") else
    match descendants fuel st k with
    | Err e => Err e
    | Ok ds =>
        match fold_left (fun (acc : res (list string)) c =>
                           match acc with
                           | Err e => Err e
                           | Ok fl => if str_in c fl then Ok (remove_first c fl) else Err (Raise "ValueError")
                           end) ds (Ok (remove_first k flat)) with
        | Err e => Err e
        | Ok flat' =>
            Ok (map (fun o => if str_in (w_key o) flat' && str_in k (w_children o)
                              then set_children o (remove_first k (w_children o)) else o) st, flat')
        end
    end.

  (* DataclassWrapper.merge: a absorbs b *)
  Fixpoint merge_w (fuel : nat) (st : store) (a b : string) : res store :=
    match fuel with
    | 0 => Err OutOfFuel
    | S fu =>
        match getw st a, getw st b with
        | Err e, _ | _, Err e => Err e
        | Ok wa, Ok wb =>
            let dests := fold_left (fun acc d => if str_in d acc then acc else (acc ++ [d])%list) (w_dests wb) (w_dests wa) in
            (* self.defaults.extend(other.defaults): a top-level wrapper without default hands out a fresh [] each time *)
            let defs := match w_defaults wa with [] => [] | _ => (w_defaults wa ++ w_defaults wb)%list end in
            let st1 := putw st (set_merged wa dests defs) in
            (fix go (st : store) (ca cb : list string) : res store :=
               match ca, cb with
               | x :: ra, y :: rb => match merge_w fu st x y with Err e => Err e | Ok st' => go st' ra rb end
               | _, _ => Ok st
               end) st1 (w_children wa) (w_children wb)
        end
    end.

  Definition st_fuel (st : store) : nat := S (List.length st).

  (* the field wrappers of the wrappers in `flat`, each with the key of its dataclass wrapper *)
  Definition keyed_fws (st : store) (flat : list string) : list (fw * string) :=
    flat_map (fun k => match getw st k with
                       | Ok w => map (fun l => (mkfw (w_path w) (lf_name l) "" [] false, k)) (w_leaves w)
                       | Err _ => []
                       end) flat.

  (* ConflictResolver._fix_conflict_merge; holders = containing wrappers of conflict.wrappers, in that order *)
  Definition fix_merge (st : store) (flat : list string) (holders : list string) : res (store * list string) :=
    let lvl k := match getw st k with Ok w => wlevel w | Err _ => 0 end in
    let srt := sort_by lvl holders in
    match srt with
    | [] => Err (Raise "IndexError")
    | first :: srt_rest =>
        match getw st first with
        | Err e => Err e
        | Ok wf0 =>
            match remove_w (st_fuel st) st flat first with
            | Err e => Err e
            | Ok (st1, flat1) =>
                let others := if merge_rest_sorted then srt_rest else tl holders in
                match fold_left (fun (acc : res (store * list string)) k =>
                                   match acc with
                                   | Err e => Err e
                                   | Ok (s, fl) =>
                                       match remove_w (st_fuel s) s fl k with
                                       | Err e => Err e
                                       | Ok (s', fl') => match merge_w (st_fuel s') s' first k with
                                                         | Err e => Err e
                                                         | Ok s'' => Ok (s'', fl')
                                                         end
                                       end
                                   end) others (Ok (st1, flat1)) with
                | Err e => Err e
                | Ok (st2, flat2) =>
                    match getw st2 first with
                    | Err e => Err e
                    | Ok wf2 =>
                        if Nat.leb (List.length (w_dests wf2)) 1 then Err (Raise "AssertionError") else
                        match descendants (st_fuel st2) st2 first with
                        | Err e => Err e
                        | Ok ds =>
                            let flat3 := (flat2 ++ first :: ds)%list in
                            match w_parent wf0 with
                            | None => Ok (st2, flat3)
                            | Some p => match getw st2 p with
                                        | Err e => Err e
                                        | Ok wp => Ok (putw st2 (set_children wp (w_children wp ++ [first])%list), flat3)
                                        end
                            end
                        end
                    end
                end
            end
        end
    end.

  (* resolve_and_flatten under ALWAYS_MERGE; as in the code, the attempt that brings the counter to max_attempts raises *)
  Fixpoint merge_loop (opts : fw -> list string) (fuel : nat) (st : store) (flat : list string) : res (store * list string) :=
    let kf := keyed_fws st flat in
    match get_conflict opts (map fst kf) with
    | None => Ok (st, flat)
    | Some (_, ids) =>
        match fuel with
        | 0 => Err CRE
        | S k =>
            match fix_merge st flat (map (fun i => snd (nth i kf (mkfw [] "" "" [] false, ""))) ids) with
            | Err e => Err e
            | Ok (st', flat') => match k with 0 => Err CRE | _ => merge_loop opts k st' flat' end
            end
        end
    end.

  (* _flatten_wrappers: the roots in list order, each followed by its descendants *)
  Definition flatten (st : store) (flat : list string) : res (list string) :=
    if negb (str_nodupb flat) then Err (Raise "RuntimeError") else
    fold_left (fun (acc : res (list string)) k =>
                 match acc, getw st k with
                 | Err e, _ | _, Err e => Err e
                 | Ok out, Ok w =>
                     match w_parent w with
                     | Some _ => Ok out
                     | None => match descendants (st_fuel st) st k with
                               | Err e => Err e
                               | Ok ds => Ok (out ++ k :: ds)%list
                               end
                     end
                 end) flat (Ok []).

  (* FieldWrapper.default of a field of wrapper w *)
  Definition fw_default (w : wrap) (l : lf) : res value :=
    package (lf_ty l) (List.length (w_dests w))
            (raw_default order (lf_manual l) (w_defaults w) (lf_name l) (lf_d l) (lf_fac l)).

  (* constructor_arguments: destination -> attribute -> value *)
  Definition cargs := list (string * list (string * vt)).
  Definition ca_has (c : cargs) (d : string) : bool := existsb (fun p => String.eqb (fst p) d) c.
  Definition ca_touch (c : cargs) (d : string) : cargs := if ca_has c d then c else (c ++ [(d, [])])%list.
  Definition set_attr (l : list (string * vt)) (a : string) (v : vt) : list (string * vt) :=
    if existsb (fun p => String.eqb (fst p) a) l
    then map (fun p => if String.eqb (fst p) a then (a, v) else p) l
    else (l ++ [(a, v)])%list.
  Definition ca_set (c : cargs) (d a : string) (v : vt) : cargs :=
    map (fun p => if String.eqb (fst p) d then (d, set_attr (snd p) a v) else p) (ca_touch c d).
  Definition ca_pop (c : cargs) (d : string) : option (list (string * vt) * cargs) :=
    match find (fun p => String.eqb (fst p) d) c with
    | Some p => Some (snd p, filter (fun q => negb (String.eqb (fst q) d)) c)
    | None => None
    end.

  Fixpoint zip_set (c : cargs) (dests : list string) (a : string) (vs : list vt) : cargs :=
    match dests, vs with
    | d :: rd, v :: rv => zip_set (ca_set c d a v) rd a rv
    | _, _ => c
    end.

  (* _fill_constructor_arguments_with_fields for one wrapper (the namespace holds each field's default) *)
  Definition fill_wrapper (w : wrap) (c : cargs) : res cargs :=
    fold_left (fun (acc : res cargs) l =>
                 match acc with
                 | Err e => Err e
                 | Ok c =>
                     match fw_default w l with
                     | Err e => Err e
                     | Ok v =>
                         let n := List.length (w_dests w) in
                         match (if Nat.ltb 1 n then duplicate_if_needed (lf_ty l) v n else Ok [v]) with
                         | Err e => Err e
                         | Ok vs => Ok (zip_set c (w_dests w) (lf_name l) (map (fun x => VL (post (lf_ty l) x)) vs))
                         end
                     end
                 end) (w_leaves w) (Ok c).

  Definition lookup_attr (l : list (string * vt)) (a : string) : option vt :=
    option_map snd (find (fun p => String.eqb (fst p) a) l).

  (* the call constructor(constructor_args as keywords) *)
  Definition call_ctor (cn : string) (fs : list fld) (args : list (string * vt)) : res vt :=
    if negb (forallb (fun p => str_in (fst p) (map fname fs)) args) then Err (Raise "TypeError") else
    Ok (VD cn (map (fun f => match lookup_attr args (fname f) with
                            | Some v => (fname f, v)
                            | None => match f with
                                      | FLeaf n _ d _ => (n, VL d)
                                      | FNest n _ c cfs nd => (n, default_value c cfs nd)
                                      end
                            end) fs)).

  (* _create_dataclass_instance *)
  Definition create_instance (w : wrap) (args : list (string * vt)) : res vt :=
    let none_by_default :=
      if w_optional w && guard_none (w_default w) (w_defaults w) then
        fold_left (fun (acc : res bool) l =>
                     match acc with
                     | Err e => Err e
                     | Ok false => Ok false                                   (* break *)
                     | Ok true =>
                         match lookup_attr args (lf_name l), fw_default w l with
                         | None, _ => Err (Raise "KeyError")
                         | _, Err e => Err e
                         | Some a, Ok dv => Ok (vt_eqb a (VL dv))
                         end
                     end) (w_leaves w) (Ok true)
      else Ok false in
    match none_by_default with
    | Err e => Err e
    | Ok true => Ok vnone
    | Ok false => call_ctor (w_cn w) (w_cls w) args
    end.

  Definition split_last (d : string) : string * string :=
    match rev (split_dot d) with
    | a :: rp => (join_dot (rev rp), a)
    | [] => ("", d)
    end.

  (* _instantiate_dataclasses for one wrapper *)
  Definition instantiate_wrapper (w : wrap) (acc : res (cargs * list (string * vt))) : res (cargs * list (string * vt)) :=
    fold_left (fun (acc : res (cargs * list (string * vt))) d =>
                 match acc with
                 | Err e => Err e
                 | Ok (c, ns) =>
                     match ca_pop c d with
                     | None => Err (Raise "KeyError")
                     | Some (args, c') =>
                         match create_instance w args with
                         | Err e => Err e
                         | Ok v =>
                             match w_parent w with
                             | Some _ => let '(pk, a) := split_last d in Ok (ca_set c' pk a v, ns)
                             | None => if existsb (fun p => String.eqb (fst p) d) ns then Err (Raise "RuntimeError")
                                       else Ok (c', (ns ++ [(d, v)])%list)
                             end
                         end
                     end
                 end) (w_dests w) acc.

  Definition max_level (ws : list wrap) : nat := fold_right (fun w m => Nat.max (wlevel w) m) 0 ws.

  Definition parse_merge (opts : fw -> list string) (f : forest) : res (list (string * vt)) :=
    if negb init_caches then Err (Raise "LazyWrapperStateNotModelled") else
    let st0 := build_forest f in
    match merge_loop opts max_attempts st0 (map w_key st0) with
    | Err e => Err e
    | Ok (st, flat0) =>
        match flatten st flat0 with
        | Err e => Err e
        | Ok flat =>
            let ws := flat_map (fun k => match getw st k with Ok w => [w] | Err _ => [] end) flat in
            (* add_arguments evaluates every default (an exception here is a set-up failure); then the fill *)
            let c0 := fold_left (fun c w => fold_left ca_touch (w_dests w) c) ws [] in
            match map_res (fun w => map_res (fw_default w) (w_leaves w)) ws with
            | Err e => Err e
            | Ok _ =>
            match fold_left (fun (acc : res cargs) w => match acc with Err e => Err e | Ok c => fill_wrapper w c end) ws (Ok c0) with
            | Err e => Err e
            | Ok c1 =>
                let m := max_level ws in
                let sorted := if deepest_first then sort_by (fun w => m - wlevel w) ws else sort_by wlevel ws in
                match fold_left (fun acc w => instantiate_wrapper w acc) sorted (Ok (c1, [])) with
                | Err e => Err e
                | Ok (c2, ns) =>
                    match c2 with
                    | _ :: _ => Err (Raise "AssertionError")           (* assert not constructor_arguments *)
                    | [] =>
                        (fix go (l : forest) : res (list (string * vt)) :=
                           match l with
                           | [] => Ok []
                           | (d, _, _) :: r =>
                               match lookup_attr ns d, go r with
                               | None, _ => Err (Raise "AttributeError")
                               | _, Err e => Err e
                               | Some v, Ok rest => Ok ((d, v) :: rest)
                               end
                           end) f
                    end
                end
            end
            end
        end
    end.
  (* ====================================================================================================== *)
  (* the whole run for argv = []                                                                             *)
  (* ====================================================================================================== *)
  Definition is_some {A} (o : option A) : bool := match o with Some _ => true | None => false end.

  (* ALWAYS_MERGE, "the same class at every destination and no other shared name": the scope of parse_uniform *)
  Definition uniform_scope (f : forest) : bool :=
    match f with
    | [] => false
    | (_, c, i0) :: r =>
        forallb (fun e : entry => dcls_beq (snd (fst e)) c) r
        && forallb (fun e : entry => Bool.eqb (is_some (snd e)) (is_some i0)) r
        && str_nodupb (leaf_names (snd c))
        && (Nat.leb (List.length f) 1 || negb (has_optional (snd c)))
        && Nat.ltb (count_members (snd c)) max_attempts
    end.

  (* does the same field at two destinations get the same option string?  Not when only the nested spelling is generated and it
     keeps the root destination. *)
  Definition same_field_clashes (c : cfg) : bool :=
    negb (match gm c, nm c with GNested, NDefault => true | _, _ => false end).

  Definition api_ok (c : pcfg) (f : forest) : bool :=
    match p_api c with AParser => true | AParse => Nat.eqb (List.length f) 1 end.

  Definition strip_defaults (f : forest) : forest := map (fun e : entry => (fst e, None)) f.
  Definition resets_self : bool := match merge_resets with MrSelf => true | _ => false end.

  Definition sp_parse_empty (c : pcfg) (f0 : forest) : res (list (string * vt)) :=
    if negb pipeline_std then Err (Raise "PipelineNotModelled") else
    let f := if forwards_default then f0 else strip_defaults f0 in        (* what the dataclass wrappers are handed *)
    if negb (api_ok c f) then Err (Raise "TypeError") else                 (* parse() takes exactly one class *)
    if (match p_api c with AParse => negb parse_is_parser | AParser => false end) then Err (Raise "ParseHelperNotModelled") else
    if negb deepest_first && forest_nested f then Err (Raise "AssertionError") else   (* a parent popped before its members *)
    let opts := option_strings (p_cfg c) in
    match p_mode c with
    | MPlain m => match resolve opts m (forest_fws f) with
                  | Err e => Err e
                  | Ok _ => Ok (parse_plain f)
                  end
    | MMerge =>
        if uniform_scope f && resets_self && init_caches then
          if same_field_clashes (p_cfg c) then
            match f with
            | [_] => Ok (parse_plain f)                                   (* nothing is merged *)
            | (_, c0, _) :: _ => parse_uniform c0 f
            | [] => Ok []
            end
          else Ok (parse_plain f)    (* option strings carry the destination: no clash, nothing is merged *)
        else parse_merge opts f
    end.
End WithFacts.
