(* Model/HistorySpec.v — what C08 demands, stated on OBSERVATIONS only (no reference to how the code works):
   every parse in a history answers what a fresh interpreter answers for the same definition and argv. *)
From SPV Require Export Base.Str Model.History.

Definition vals_eqb (a b : vals) : bool :=
  match a, b with
  | Ok x, Ok y => kv_eqb x y
  | Err e, Err e' => err_eqb e e'
  | _, _ => false
  end.

Definition obs_eqb (a b : obs) : bool :=
  match a, b with
  | ONoParser, ONoParser | ONone, ONone | ODone, ODone => true
  | OParse x, OParse y => vals_eqb x y
  | OFail e, OFail e' => err_eqb e e'
  | _, _ => false
  end.

(* one entry per operation: what was observed, and - for parse operations - the fresh interpreter's answer *)
Definition observed := list (obs * option vals).

Definition entry_ok (e : obs * option vals) : bool :=
  match e with
  | (OParse r, Some fr) => vals_eqb r fr
  | (OParse _, None) => false          (* a parse without its oracle run cannot be judged *)
  | _ => true
  end.
Definition spec_history (l : observed) : bool := forallb entry_ok l.
