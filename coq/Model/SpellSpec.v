(* Model/SpellSpec.v — C10: the documented spelling rules, as a set of (dashes, body) pairs.
   FLAT: the field name; NESTED: the destination path (without its first word under WITHOUT_ROOT); BOTH: both.
   Declared aliases are accepted as written (their own leading dashes, or the length rule when they have none).
   UNDERSCORE keeps names as written, DASH writes generated names (not aliases) with dashes,
   UNDERSCORE_AND_DASH accepts, for every name and alias containing an underscore, the dashed spelling too.
   A one-letter field also gets the single-dash form of its literal spellings. *)
From SPV Require Export Base.Str Model.OptStr.

Definition doc_names (c : cfg) (d : list string) (n : string) : list string :=
  let nested := join_dot (match nm c with NDefault => d | NWithoutRoot => tl d end) in
  match gm c with GFlat => [n] | GNested => [nested] | GBoth => [n; nested] end.

Definition doc_pairs (c : cfg) (d : list string) (n : string) (als : list string) : list (string * string) :=
  let lits := match dv c with DDash => map us2dash (doc_names c d n) | _ => doc_names c d n end in
  let gen := flat_map (fun s => if String.eqb (dash_for n) "-" then [("-", s); ("--", s)] else [("--", s)]) lits in
  let lit := (gen ++ map alias_parts als)%list in
  let variants := match dv c with
                  | DBoth => flat_map (fun p => if has_char "_"%char (snd p)
                                               then [(dash_for (us2dash (snd p)), us2dash (snd p))] else []) lit
                  | _ => []
                  end in
  (lit ++ variants)%list.

Definition doc_options (c : cfg) (d : list string) (n : string) (als : list string) : list string :=
  map (fun p => fst p ++ snd p) (doc_pairs c d n als).
