(* Model/Pipeline.v — functional model of the namespace -> constructor-arguments plumbing:
     ArgumentParser._fill_constructor_arguments_with_fields (parsing.py) and FieldWrapper.__call__ (field_wrapper.py),
   over the interpreter's values (Model/MiniPy.v), so that Proofs/MiniPyPipeline.v can state: the regenerated source of the two
   functions (Gen/FactsPipelineSrc.v), run by the MiniPy interpreter, computes exactly this.
   What the two functions do not compute themselves is a field of the records below: the already evaluated attributes of the
   wrapper objects, and the two methods duplicate_if_needed / postprocess as tables (uninterpreted pure functions). *)
From SPV Require Export Model.MiniPy.

Record fieldw := mkfieldw {
  f_dest : string;                       (* FieldWrapper.dest: the key in the namespace *)
  f_default : val;                       (* FieldWrapper.default, evaluated *)
  f_is_subgroup : bool;
  f_init : bool;                         (* field.field.init *)
  f_is_reused : bool;
  f_dests : list string;                 (* FieldWrapper.destinations *)
  f_dup : list (val * val);              (* duplicate_if_needed as a table: argument -> result, (VC "raise", cls) = raises cls *)
  f_post : list (val * val);             (* postprocess as a table *)
  f_choices : val                        (* subgroup_choices (read by the subgroup branch only, which the fill never reaches) *)
}.
Record wrapperw := mkwrapperw {
  w_fields : list fieldw;                (* DataclassWrapper.fields *)
  w_defaults : list val                  (* DataclassWrapper.defaults *)
}.

(* f(a) for a function given by its table *)
Definition call_table (t : list (val * val)) (a : val) : res val :=
  match dget a t with
  | Some (VT [VC "raise"; VS cls]) => Err (Raise cls)
  | Some w => Ok w
  | None => Err (Raise "MiniPyUnknownCall")
  end.

(* constructor_arguments[parent][attribute] = v ; KeyError when there is no dict for the parent *)
Definition ca_put (ca : list (val * val)) (dest : string) (v : val) : res (list (val * val)) :=
  match upd_path (VD ca) [(false, VS (fst (split_dest dest))); (false, VS (snd (split_dest dest)))] v with
  | Ok (VD ca') => Ok ca'
  | Ok _ => rerr
  | Err z => Err z
  end.

(* FieldWrapper.__call__: the new constructor_arguments *)
Fixpoint call_loop (f : fieldw) (l : list (string * val)) (ca : list (val * val)) : res (list (val * val)) :=
  match l with
  | [] => Ok ca
  | (d, v) :: t =>
      if f_is_subgroup f then Ok ca else         (* `return` at the first destination *)
      match call_table (f_post f) v with
      | Err z => Err z
      | Ok v' => match ca_put ca d v' with Err z => Err z | Ok ca' => call_loop f t ca' end
      end
  end.

Definition call_fn (f : fieldw) (values : val) (ca : list (val * val)) : res (list (val * val)) :=
  match (if f_is_reused f then call_table (f_dup f) values else Ok (VL [values])) with
  | Err z => Err z
  | Ok vals => match seq_items vals with
               | Some vs => call_loop f (combine (f_dests f) vs) ca
               | None => rerr
               end
  end.

(* _fill_constructor_arguments_with_fields: which fields are skipped *)
Definition SUPPRESS : val := VC "argparse.SUPPRESS".
Definition skipped (w : wrapperw) (f : fieldw) (ns : list (string * val)) : bool :=
  (existsb (val_eqb SUPPRESS) (w_defaults w) && negb (is_some (rget (f_dest f) ns)))
  || f_is_subgroup f || negb (f_init f).

Fixpoint fill_fields (w : wrapperw) (fs : list fieldw) (ns : list (string * val)) (ca : list (val * val))
  : res (list (string * val) * list (val * val)) :=
  match fs with
  | [] => Ok (ns, ca)
  | f :: t =>
      if skipped w f ns then fill_fields w t ns ca else
      let values := match rget (f_dest f) ns with Some v => v | None => f_default f end in     (* pop(field.dest, field.default) *)
      match call_fn f values ca with
      | Err z => Err z
      | Ok ca' => fill_fields w t (rdel (f_dest f) ns) ca'
      end
  end.

Fixpoint fill_wrappers (ws : list wrapperw) (ns : list (string * val)) (ca : list (val * val))
  : res (list (string * val) * list (val * val)) :=
  match ws with
  | [] => Ok (ns, ca)
  | w :: t => match fill_fields w (w_fields w) ns ca with
              | Err z => Err z
              | Ok (ns', ca') => fill_wrappers t ns' ca'
              end
  end.

(* the whole function: (leftover namespace, constructor_arguments) *)
Definition fill_fn (merge : bool) (ws : list wrapperw) (ns : list (string * val)) (ca0 : list (val * val))
  : res (list (string * val) * list (val * val)) :=
  if negb merge && negb (Nat.eqb (List.length ws) (List.length ca0)) then Err (Raise "AssertionError")
  else fill_wrappers ws ns ca0.

(* ---------- the records as interpreter objects ---------- *)
Definition enc_field (f : fieldw) : val :=
  VR "FieldWrapper"
     [("dest", VS (f_dest f)); ("default", f_default f); ("is_subgroup", VB (f_is_subgroup f));
      ("field", VR "Field" [("init", VB (f_init f))]); ("is_reused", VB (f_is_reused f));
      ("destinations", VL (map VS (f_dests f))); ("duplicate_if_needed", VD (f_dup f)); ("postprocess", VD (f_post f));
      ("subgroup_choices", f_choices f)].
Definition enc_wrapper (w : wrapperw) : val :=
  VR "DataclassWrapper" [("fields", VL (map enc_field (w_fields w))); ("defaults", VL (w_defaults w))].
Definition MERGE : string := "ConflictResolution.ALWAYS_MERGE".
Definition enc_parser (mode : string) : val := VR "ArgumentParser" [("conflict_resolution", VS mode)].
