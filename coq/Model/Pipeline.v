(* Model/Pipeline.v — functional model of the namespace -> constructor-arguments plumbing:
     ArgumentParser._fill_constructor_arguments_with_fields (parsing.py) and FieldWrapper.__call__ (field_wrapper.py),
   over the interpreter's values (Model/MiniPy.v), so that Proofs/MiniPyPipeline.v can state: the regenerated source of the two
   functions (Gen/FactsPipelineSrc.v), run by the MiniPy interpreter, computes exactly this.
   What the two functions do not compute themselves is a field of the records below: the already evaluated attributes of the
   wrapper objects, and the two methods duplicate_if_needed / postprocess as tables (uninterpreted pure functions). *)
From SPV Require Export Model.MiniPy.

Record fieldw := mkfieldw {
  f_dest : string;                       (* FieldWrapper.dest: the key in the namespace *)
  f_default : val;                       (* FieldWrapper.default, evaluated *)
  f_is_subgroup : bool;
  f_init : bool;                         (* field.field.init *)
  f_is_reused : bool;
  f_dests : list string;                 (* FieldWrapper.destinations *)
  f_dup : list (val * val);              (* duplicate_if_needed as a table: argument -> result, (VC "raise", cls) = raises cls *)
  f_post : list (val * val);             (* postprocess as a table *)
  f_choices : val                        (* subgroup_choices (read by the subgroup branch only, which the fill never reaches) *)
}.
Record wrapperw := mkwrapperw {
  w_fields : list fieldw;                (* DataclassWrapper.fields *)
  w_defaults : list val                  (* DataclassWrapper.defaults *)
}.

(* f(a) for a function given by its table *)
Definition call_table (t : list (val * val)) (a : val) : res val :=
  match dget a t with
  | Some (VT [VC "raise"; VS cls]) => Err (Raise cls)
  | Some w => Ok w
  | None => Err (Raise "MiniPyUnknownCall")
  end.

(* constructor_arguments[parent][attribute] = v ; KeyError when there is no dict for the parent *)
Definition ca_put (ca : list (val * val)) (dest : string) (v : val) : res (list (val * val)) :=
  match upd_path (VD ca) [(false, VS (fst (split_dest dest))); (false, VS (snd (split_dest dest)))] v with
  | Ok (VD ca') => Ok ca'
  | Ok _ => rerr
  | Err z => Err z
  end.

(* FieldWrapper.__call__: the new constructor_arguments *)
Fixpoint call_loop (f : fieldw) (l : list (string * val)) (ca : list (val * val)) : res (list (val * val)) :=
  match l with
  | [] => Ok ca
  | (d, v) :: t =>
      if f_is_subgroup f then Ok ca else         (* `return` at the first destination *)
      match call_table (f_post f) v with
      | Err z => Err z
      | Ok v' => match ca_put ca d v' with Err z => Err z | Ok ca' => call_loop f t ca' end
      end
  end.

Definition call_fn (f : fieldw) (values : val) (ca : list (val * val)) : res (list (val * val)) :=
  match (if f_is_reused f then call_table (f_dup f) values else Ok (VL [values])) with
  | Err z => Err z
  | Ok vals => match seq_items vals with
               | Some vs => call_loop f (combine (f_dests f) vs) ca
               | None => rerr
               end
  end.

(* _fill_constructor_arguments_with_fields: which fields are skipped *)
Definition SUPPRESS : val := VC "argparse.SUPPRESS".
Definition skipped (w : wrapperw) (f : fieldw) (ns : list (string * val)) : bool :=
  (existsb (val_eqb SUPPRESS) (w_defaults w) && negb (is_some (rget (f_dest f) ns)))
  || f_is_subgroup f || negb (f_init f).

Fixpoint fill_fields (w : wrapperw) (fs : list fieldw) (ns : list (string * val)) (ca : list (val * val))
  : res (list (string * val) * list (val * val)) :=
  match fs with
  | [] => Ok (ns, ca)
  | f :: t =>
      if skipped w f ns then fill_fields w t ns ca else
      let values := match rget (f_dest f) ns with Some v => v | None => f_default f end in     (* pop(field.dest, field.default) *)
      match call_fn f values ca with
      | Err z => Err z
      | Ok ca' => fill_fields w t (rdel (f_dest f) ns) ca'
      end
  end.

Fixpoint fill_wrappers (ws : list wrapperw) (ns : list (string * val)) (ca : list (val * val))
  : res (list (string * val) * list (val * val)) :=
  match ws with
  | [] => Ok (ns, ca)
  | w :: t => match fill_fields w (w_fields w) ns ca with
              | Err z => Err z
              | Ok (ns', ca') => fill_wrappers t ns' ca'
              end
  end.

(* the whole function: (leftover namespace, constructor_arguments) *)
Definition fill_fn (merge : bool) (ws : list wrapperw) (ns : list (string * val)) (ca0 : list (val * val))
  : res (list (string * val) * list (val * val)) :=
  if negb merge && negb (Nat.eqb (List.length ws) (List.length ca0)) then Err (Raise "AssertionError")
  else fill_wrappers ws ns ca0.

(* ---------- the records as interpreter objects ---------- *)
Definition enc_field (f : fieldw) : val :=
  VR "FieldWrapper"
     [("dest", VS (f_dest f)); ("default", f_default f); ("is_subgroup", VB (f_is_subgroup f));
      ("field", VR "Field" [("init", VB (f_init f))]); ("is_reused", VB (f_is_reused f));
      ("destinations", VL (map VS (f_dests f))); ("duplicate_if_needed", VD (f_dup f)); ("postprocess", VD (f_post f));
      ("subgroup_choices", f_choices f)].
Definition enc_wrapper (w : wrapperw) : val :=
  VR "DataclassWrapper" [("fields", VL (map enc_field (w_fields w))); ("defaults", VL (w_defaults w))].
Definition MERGE : string := "ConflictResolution.ALWAYS_MERGE".
Definition enc_parser (mode : string) : val := VR "ArgumentParser" [("conflict_resolution", VS mode)].

(* ====================================================================================================================== *)
(* ArgumentParser._instantiate_dataclasses and _create_dataclass_instance (parsing.py)                                     *)
(* ====================================================================================================================== *)
Record ifield := mkifield { if_name : string; if_default : val }.       (* FieldWrapper.name, FieldWrapper.default (evaluated) *)
Record iwrapper := mkiwrapper {
  iw_level : nat;                        (* DataclassWrapper.nesting_level *)
  iw_dests : list string;                (* .destinations *)
  iw_ctor : list (val * val);            (* .dataclass_fn as a table: keyword dict -> instance, (VC "raise", cls) = raises cls *)
  iw_defaults : list val;                (* .defaults *)
  iw_optional : bool;
  iw_default : val;                      (* .default *)
  iw_fields : list ifield;
  iw_parent : val;                       (* .parent: None or the parent wrapper (only `is not None` is looked at) *)
  iw_dest : string                       (* .dest *)
}.

Definition is_none (v : val) : bool := match v with VNone => true | _ => false end.
Definition none_or_suppress (d : val) : bool := existsb (val_eqb d) [VNone; SUPPRESS].      (* default in (None, argparse.SUPPRESS) *)

(* the for .. else of _create_dataclass_instance: true = every constructor argument equals the field's default (no break) *)
Fixpoint at_defaults (fs : list ifield) (args : list (val * val)) : res bool :=
  match fs with
  | [] => Ok true
  | f :: t => match dget (VS (if_name f)) args with
              | None => Err (Raise "KeyError")
              | Some a => if negb (val_eqb a (if_default f)) then Ok false else at_defaults t args
              end
  end.

(* _create_dataclass_instance: the Optional-member guard, then the (uninterpreted) constructor on the keyword dict *)
Definition create_fn (w : iwrapper) (args : list (val * val)) : res val :=
  if iw_optional w && (is_none (iw_default w) && forallb none_or_suppress (iw_defaults w)) then
    match at_defaults (iw_fields w) args with
    | Err z => Err z
    | Ok true => Ok VNone
    | Ok false => call_table (iw_ctor w) (VD args)
    end
  else call_table (iw_ctor w) (VD args).

Definition dpop_default (k : val) (d : list (val * val)) : list (val * val) := if is_some (dget k d) then ddel k d else d.
Definition DC_TYPE_KEY : string := "_type_".

(* one destination of one wrapper: (constructor_arguments, namespace) -> the same, updated *)
Definition inst_dest (pdefaults : list (val * val)) (w : iwrapper) (d : string)
           (ca : list (val * val)) (ns : list (string * val)) : res (list (val * val) * list (string * val)) :=
  match dget (VS d) ca with
  | None => Err (Raise "KeyError")                                      (* constructor_arguments.pop(destination) *)
  | Some (VD args0) =>
      let ca1 := ddel (VS d) ca in
      let args := dpop_default (VS DC_TYPE_KEY) args0 in                (* constructor_args.pop(DC_TYPE_KEY, None) *)
      let sup := existsb (val_eqb SUPPRESS) (iw_defaults w) in
      match (if sup then Ok (if val_eqb (VD args) (VD []) then VNone else VD args) else create_fn w args) with
      | Err z => Err z
      | Ok value =>
          if sup && is_none value then Ok (ca1, ns)
          else if negb (is_none (iw_parent w)) then
            match ca_put ca1 d value with Ok ca2 => Ok (ca2, ns) | Err z => Err z end
          else if negb (is_some (rget d ns)) then Ok (ca1, rset d value ns)
          else if is_some (dget (VS (iw_dest w)) pdefaults) then Ok (ca1, rset d value ns)
          else Err (Raise "RuntimeError")
      end
  | Some _ => rerr
  end.

Fixpoint inst_dests (pdefaults : list (val * val)) (w : iwrapper) (ds : list string) (ca : list (val * val)) (ns : list (string * val))
  : res (list (val * val) * list (string * val)) :=
  match ds with
  | [] => Ok (ca, ns)
  | d :: t => match inst_dest pdefaults w d ca ns with
              | Err z => Err z
              | Ok (ca', ns') => inst_dests pdefaults w t ca' ns'
              end
  end.
Fixpoint inst_wrappers (pdefaults : list (val * val)) (ws : list iwrapper) (ca : list (val * val)) (ns : list (string * val))
  : res (list (val * val) * list (string * val)) :=
  match ws with
  | [] => Ok (ca, ns)
  | w :: t => match inst_dests pdefaults w (iw_dests w) ca ns with
              | Err z => Err z
              | Ok (ca', ns') => inst_wrappers pdefaults t ca' ns'
              end
  end.

(* sorted(wrappers, key=lambda w: w.nesting_level, reverse=True): deepest first, stable *)
Fixpoint ins_level (x : iwrapper) (l : list iwrapper) : list iwrapper :=
  match l with
  | [] => [x]
  | y :: t => if Nat.ltb (iw_level y) (iw_level x) then x :: l else y :: ins_level x t
  end.
Definition deepest_first (ws : list iwrapper) : list iwrapper := fold_left (fun acc w => ins_level w acc) ws [].

(* the whole function: the namespace with the instances set *)
Definition instantiate_fn (merge : bool) (pdefaults : list (val * val)) (ws : list iwrapper) (ns : list (string * val))
           (ca0 : list (val * val)) : res (list (string * val)) :=
  if negb merge && negb (Nat.eqb (List.length ws) (List.length ca0)) then Err (Raise "AssertionError")
  else match inst_wrappers pdefaults (deepest_first ws) ca0 ns with
       | Err z => Err z
       | Ok (ca', ns') => match ca' with [] => Ok ns' | _ :: _ => Err (Raise "AssertionError") end      (* assert not constructor_arguments *)
       end.

Definition enc_ifield (f : ifield) : val := VR "FieldWrapper" [("name", VS (if_name f)); ("default", if_default f)].
Definition enc_iwrapper (w : iwrapper) : val :=
  VR "DataclassWrapper"
     [("nesting_level", VN (iw_level w)); ("destinations", VL (map VS (iw_dests w))); ("dataclass_fn", VD (iw_ctor w));
      ("defaults", VL (iw_defaults w)); ("optional", VB (iw_optional w)); ("default", iw_default w);
      ("fields", VL (map enc_ifield (iw_fields w))); ("parent", iw_parent w); ("dest", VS (iw_dest w))].
Definition enc_iparser (mode : string) (pdefaults : list (val * val)) : val :=
  VR "ArgumentParser" [("conflict_resolution", VS mode); ("_defaults", VD pdefaults)].
