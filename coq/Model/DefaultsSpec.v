(* Model/DefaultsSpec.v — what property C01 demands, written without reference to how the code computes it:
   at every registered destination the instance equals the caller's default instance if one was given, else what the dataclass
   constructor produces by itself.  Executable, so the correspondence run evaluates it on every observed behaviour.
   Also: the well-formedness of the inputs the property quantifies over, and the decidable side conditions that name the input
   shapes on which the code is known to deviate (DESIGN 5: #3, #4, #19, #20). *)
From SPV Require Export Model.Defaults.

(* ---------- the demand ---------- *)
Definition spec_C01 (f : forest) : list (string * vt) :=
  map (fun e : entry => let '(d, c, i) := e in (d, match i with Some D => D | None => construct c end)) f.

Definition results_eqb (a b : list (string * vt)) : bool :=
  list_beq (fun x y => String.eqb (fst x) (fst y) && vt_eqb (snd x) (snd y)) a b.

(* An observed run satisfies C01 when it delivers the demanded instances.  A ConflictResolutionError is the documented refusal of a
   configuration (NONE with a clash, option strings that cannot be told apart): the statement is then vacuous.  Any other ending
   (a crash while the parser is set up) is not. *)
Definition spec_ok_obs (f : forest) (obs : res (list (string * vt))) : bool :=
  match obs with
  | Ok r => results_eqb r (spec_C01 f)
  | Err CRE => true
  | Err _ => false
  end.

(* ---------- the inputs: well-typed defaults, well-formed instances, distinct names ---------- *)
Fixpoint wf_inst_fld (f : fld) (v : vt) {struct f} : bool :=          (* v can be the attribute of field f *)
  match f with
  | FLeaf _ t _ _ => match v with VL x => has_type x t | VD _ _ => false end
  | FNest _ opt cn cfs _ =>
      match v with
      | VL VNone => opt
      | VL _ => false
      | VD c vals =>
          String.eqb c cn
          && (fix go (fs : list fld) (vs : list (string * vt)) : bool :=
                match fs, vs with
                | [], [] => true
                | g :: rf, (n, x) :: rv => String.eqb n (fname g) && wf_inst_fld g x && go rf rv
                | _, _ => false
                end) cfs vals
      end
  end.

Fixpoint wf_attrs (fs : list fld) (vs : list (string * vt)) : bool :=
  match fs, vs with
  | [], [] => true
  | g :: rf, (n, x) :: rv => String.eqb n (fname g) && wf_inst_fld g x && wf_attrs rf rv
  | _, _ => false
  end.
Definition wf_inst (cn : string) (fs : list fld) (D : vt) : bool :=
  match D with VD c vals => String.eqb c cn && wf_attrs fs vals | VL _ => false end.

Fixpoint wf_fld (f : fld) : bool :=
  match f with
  | FLeaf _ t d _ => cli_type t && has_type d t
  | FNest _ opt cn cfs nd =>
      forallb wf_fld cfs && str_nodupb (map fname cfs)
      && match nd with DFac => true | DNone => opt | DInst i => wf_inst cn cfs i end
  end.
Definition wf_fields (fs : list fld) : bool := forallb wf_fld fs && str_nodupb (map fname fs).

Definition wf_entry (e : entry) : bool :=
  let '(_, c, i) := e in
  wf_fields (snd c) && match i with Some D => wf_inst (fst c) (snd c) D | None => true end.
Definition dests (f : forest) : list string := map (fun e : entry => fst (fst e)) f.
Definition wf_forest (f : forest) : bool := str_nodupb (dests f) && forallb wf_entry f.

(* ---------- #3: an Optional member whose default is an instance, reached without a caller-supplied default ---------- *)
Definition guard_repaired (g : guard_kind) : bool := match g with GDefaultAndDefaults => true | GDefault => false end.

(* E = the member's effective default instance; has_wd = the wrapper was handed a default instance (wrapper.default is set) *)
Fixpoint shape3_free_fld (g : guard_kind) (has_wd : bool) (E : option vt) (f : fld) {struct f} : bool :=
  match f with
  | FLeaf _ _ _ _ => true
  | FNest n opt cn cfs nd =>
      match (match E with Some D => some_inst (attr D n) | None => some_inst (default_value cn cfs nd) end) with
      | None => true
      | Some a => (has_wd || negb opt || guard_repaired g) && forallb (shape3_free_fld g has_wd (Some a)) cfs
      end
  end.
Definition shape3_free (g : guard_kind) (f : forest) : bool :=
  forallb (fun e : entry => let '(_, c, i) := e in forallb (shape3_free_fld g (is_some i) i) (snd c)) f.

(* ---------- #4: a default that is a Python list is taken for "one value per destination" ---------- *)
Definition pk_repaired (chain : list pk_test) : bool := match chain with PkSingleValue :: _ => true | _ => false end.
Definition dealt_shape (k : nat) (t : ty) (d : value) : bool :=
  match d with
  | VList l => match t with TList _ => Nat.eqb (List.length l) k | _ => true end
  | _ => false
  end.
Definition no_dealt (chain : list pk_test) (f : forest) : bool :=
  pk_repaired chain
  || match f with
     | (_, c, None) :: _ :: _ =>
         forallb (fun x => match x with FLeaf _ t d _ => negb (dealt_shape (List.length f) t d) | FNest _ _ _ _ _ => true end) (snd c)
     | _ => true
     end.

(* ---------- the side condition of the partial theorem ---------- *)
(* NONE / EXPLICIT / AUTO: only #3's shape.  ALWAYS_MERGE: additionally the same class at every destination and nothing else shared
   (excludes #20: merged wrappers at different depths), default instances on all destinations or on none (#19), no Optional member
   when something is merged, and #4's shape. *)
Definition side_ok (g : guard_kind) (chain : list pk_test) (max_attempts : nat) (c : pcfg) (f : forest) : bool :=
  match p_mode c with
  | MPlain _ => shape3_free g f
  | MMerge => uniform_scope max_attempts f && no_dealt chain f && shape3_free g f
  end.

(* the demand on a run, as a proposition (the boolean spec_ok_obs decides it) *)
Definition meets_C01 (f : forest) (o : res (list (string * vt))) : Prop :=
  match o with
  | Ok r => r = spec_C01 f
  | Err CRE => True
  | Err _ => False
  end.
