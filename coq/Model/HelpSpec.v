(* Model/HelpSpec.v — what property C16 demands of `--help`, stated on the OBSERVED help (parsed into entries) and on
   the definition, without reference to how the code builds it.  Executable: the correspondence run evaluates it on
   every observation.  Only the record types are shared with Model/Help.v. *)
From SPV Require Export Base.Str Model.OptStr Model.Help.

(* a field is exposed on the command line unless it is init=False or declared cmd=False *)
Definition spec_exposed (f : hfield) : bool :=
  hf_init f && match hf_cmd f with Some false => false | _ => true end.

(* the effective default: a default (falsy or not) coming from a default instance / set_defaults / a config file wins over the
   definition's (how those sources are layered among themselves is property C06) *)
Definition spec_effective (D : dmap) (f : hfield) : option string :=
  match dlookup (dest (hf_fw f)) D with Some v => Some (dv_text v) | None => hf_default f end.

(* one group per wrapper, titled with the class and its destination(s) - for a merged wrapper all of them, in the order
   in which they were registered *)
Definition spec_title (w : hwrap) : string :=
  hw_qual w ++ " [" ++ String.concat ", " (map (fun d => "'" ++ d ++ "'") (join_dot (hw_path w) :: hw_more w)) ++ "]".

(* the description of a group: what is written about the member that holds the dataclass (docstring below it, else the
   comment above it, else the inline comment), else the description part of the class docstring - shortened only when it
   is huge AND the fields carry their own documentation; nothing when the class has no docstring *)
Definition spec_description (is_member : bool) (below above inline class_docstring description shortened : string)
           (fields_have_docstrings huge : bool) : string :=
  if is_member && negb (String.eqb below "") then below
  else if is_member && negb (String.eqb above "") then above
  else if is_member && negb (String.eqb inline "") then inline
  else if String.eqb class_docstring "" then ""
  else if fields_have_docstrings && huge then shortened
  else description.

Fixpoint forall2b {A B} (p : A -> B -> bool) (l1 : list A) (l2 : list B) : bool :=
  match l1, l2 with
  | [], [] => true
  | x :: r1, y :: r2 => p x y && forall2b p r1 r2
  | _, _ => false
  end.

Definition same_strs (a b : list string) : bool :=
  forallb (fun x => str_in x b) a && forallb (fun x => str_in x a) b.

Fixpoint alookup (k : string) (m : list (string * list string)) : list string :=
  match m with [] => [] | (k', v) :: r => if String.eqb k k' then v else alookup k r end.

Definition opt_str_eqb (a b : option string) : bool :=
  match a, b with Some x, Some y => String.eqb x y | None, None => true | _, _ => false end.

(* an entry describes a field: it is the entry of that field's action, it shows every option string the parser accepts
   for the field (each once), the effective default, and the field's help text.  A field whose effective default is
   None may show nothing or "None". *)
Definition entry_describes (D : dmap) (accepted : list (string * list string)) (f : hfield) (e : entry) : bool :=
  String.eqb (e_dest e) (dest (hf_fw f))
  && negb (match e_opts e with [] => true | _ => false end)
  && str_nodupb (e_opts e)
  && same_strs (e_opts e) (alookup (dest (hf_fw f)) accepted)
  && match spec_effective D f with
     | Some v => opt_str_eqb (e_default e) (Some v)
     | None => opt_str_eqb (e_default e) None || opt_str_eqb (e_default e) (Some "None")
     end
  && String.eqb (e_help e) (hf_help f).

(* what a group must say about its dataclass: the documentation of the member that holds it, else of the class
   (spec_description).  In the modelled domain a member carries no documentation of its own (no inspectable source) and
   the description part of a one-line docstring is the docstring: the group of a class with a docstring shows it *)
Definition spec_group_description (w : hwrap) : string :=
  spec_description (Nat.ltb 1 (List.length (hw_path w))) "" "" "" (hw_doc w) (hw_doc w) "" false false.

(* complete and accurate: groups <-> wrappers in order, each with its heading and its description; inside a group,
   entries <-> exposed fields in declaration order *)
Definition help_describes (D : dmap) (accepted : list (string * list string)) (F : list hwrap) (gs : list group) : bool :=
  forall2b (fun w g => String.eqb (g_title g) (spec_title w)
                       && String.eqb (g_desc g) (spec_group_description w)
                       && forall2b (entry_describes D accepted) (filter spec_exposed (hw_fields w)) (g_entries g)) F gs.

(* a field that is not exposed has no action (so it is never shown) and every spelling of it is rejected *)
Definition hidden_ok (F : list hwrap) (action_dests : list string) (probes_rejected : list (string * bool)) : bool :=
  forallb (fun w => forallb (fun f => spec_exposed f || negb (str_in (dest (hf_fw f)) action_dests)) (hw_fields w)) F
  && forallb (fun p => snd p) probes_rejected.

(* ... and its name appears in no group description either ("never appear") *)
Definition hidden_not_mentioned (F : list hwrap) (gs : list group) : bool :=
  forallb (fun w => forallb (fun f => spec_exposed f
                                      || forallb (fun g => negb (occurs (name (hf_fw f)) (g_desc g))) gs) (hw_fields w)) F.

(* `--help` ends with exit status 0, everything on stdout *)
Definition ends_well (e : err) (where_ : option stream) : bool :=
  err_eqb e (Exit 0) && match where_ with Some SOut => true | _ => false end.
