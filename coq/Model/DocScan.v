(* Model/DocScan.v — executable model of simple_parsing/docstring.py (the line-oriented scanner that finds
   the documentation of one dataclass field in the text returned by inspect.getsource) and of the help
   precedence of FieldWrapper.help.

   Shape.  Every predicate the scanner evaluates on a line (`_contains_field_definition`, `_is_empty`,
   `_is_comment`, a-triple-quote-occurs, the text after '#', the pieces around a triple-quote token) is a
   function of that line alone, so the model first computes the VIEW of each line (record `lview`) and the
   scanner proper (`find_field`, `comment_above`, `doc_open`, `doc_body`) is a structural recursion over the
   list of views.  The character constants, the two triple-quote tokens, the accumulated parts and the two
   or-chains are PARAMETERS, instantiated from the source by harness/translate/Doc.py (Gen/FactsDoc.v).

   Not modelled (oracle inputs of a case): inspect.getsource / inspect.getdoc, docstring_parser. *)
From SPV Require Export Base.Str.

(* ---------- string primitives ---------- *)
Fixpoint before_char (c : ascii) (s : string) : string :=          (* s.partition(c)[0] *)
  match s with
  | EmptyString => EmptyString
  | String a r => if Ascii.eqb a c then EmptyString else String a (before_char c r)
  end.

Fixpoint after_char (c : ascii) (s : string) : option string :=    (* s.split(c, 1)[1] when c occurs *)
  match s with
  | EmptyString => None
  | String a r => if Ascii.eqb a c then Some r else after_char c r
  end.

Fixpoint skip_n (n : nat) (s : string) : string :=
  match n, s with
  | S k, String _ r => skip_n k r
  | _, _ => s
  end.

(* first (leftmost) occurrence of the non-empty token: (text before it, text after it) *)
Fixpoint split_first (tok s : string) : option (string * string) :=
  match s with
  | EmptyString => None
  | String a r =>
      if prefixb tok s then Some (EmptyString, skip_n (String.length tok) s)
      else match split_first tok r with
           | Some (x, y) => Some (String a x, y)
           | None => None
           end
  end.

Definition contains (tok s : string) : bool :=
  match split_first tok s with Some _ => true | None => false end.

Fixpoint str_all (p : ascii -> bool) (s : string) : bool :=
  match s with EmptyString => true | String a r => p a && str_all p r end.

Definition is_lower_c (a : ascii) : bool := let n := ascii_nat a in Nat.leb 97 n && Nat.leb n 122.
Definition is_id_start (a : ascii) : bool := is_upper a || is_lower_c a || Ascii.eqb a "_"%char.
Definition is_id_char (a : ascii) : bool := is_id_start a || is_digit a.
(* str.isidentifier() on ASCII text (keywords included, as in Python) *)
Definition is_ident (s : string) : bool :=
  match s with EmptyString => false | String a r => is_id_start a && str_all is_id_char r end.

Definition join_nl (l : list string) : string := String.concat (String (ascii_of_nat 10) "") l.

Definition str_nonempty (s : string) : bool := negb (String.eqb s "").

(* ---------- what the scanner produces ---------- *)
Record parts := mkparts { p_above : string; p_inline : string; p_below : string; p_cls : string }.
Inductive part := PAbove | PInline | PBelow | PCls.
Definition get_part (p : part) (d : parts) : string :=
  match p with PAbove => p_above d | PInline => p_inline d | PBelow => p_below d | PCls => p_cls d end.
Definition set_part (p : part) (v : string) (d : parts) : parts :=
  match p with
  | PAbove => mkparts v (p_inline d) (p_below d) (p_cls d)
  | PInline => mkparts (p_above d) v (p_below d) (p_cls d)
  | PBelow => mkparts (p_above d) (p_inline d) v (p_cls d)
  | PCls => mkparts (p_above d) (p_inline d) (p_below d) v
  end.
Definition part_eqb (a b : part) : bool :=
  match a, b with PAbove, PAbove | PInline, PInline | PBelow, PBelow | PCls, PCls => true | _, _ => false end.
Definition parts_eqb (a b : parts) : bool :=
  String.eqb (p_above a) (p_above b) && String.eqb (p_inline a) (p_inline b)
  && String.eqb (p_below a) (p_below b) && String.eqb (p_cls a) (p_cls b).

(* `a or b or c`: the first non-empty value, else the last one *)
Fixpoint first_nonempty (chain : list part) (d : parts) : string :=
  match chain with
  | [] => ""
  | [p] => get_part p d
  | p :: r => if str_nonempty (get_part p d) then get_part p d else first_nonempty r d
  end.

Inductive quote := QD | QS.                       (* the triple-double-quote token / the triple-single-quote token *)
Definition quote_eqb (a b : quote) : bool := match a, b with QD, QD | QS, QS => true | _, _ => false end.

(* everything the scanner ever asks about one line *)
Record lview := mkview {
  v_isdef : bool;                                  (* _contains_field_definition(line) *)
  v_defname : option string;                       (* Some n: _line_contains_definition_for(line, f) iff f = n *)
  v_quote : bool;                                  (* a triple-quote token occurs in the line *)
  v_empty : bool;                                  (* _is_empty *)
  v_iscomment : bool;                              (* _is_comment *)
  v_comment : string;                              (* _get_comment_at_line: text after the first '#', stripped; empty without '#' *)
  v_inline : string;                               (* _get_inline_comment_at_line: text after the first '#' OUTSIDE a string literal *)
  v_open : option (quote * bool * string);         (* first line of a docstring: token, closed on this line?, text *)
  v_closeD : option string;                        (* triple-double token in line: text before it, stripped *)
  v_closeS : option string;
  v_strip : string
}.
Definition v_close (q : quote) (v : lview) : option string :=
  match q with QD => v_closeD v | QS => v_closeS v end.

(* ---------- _split_at_comment: one pass over the characters with the state (quote, skip) ---------- *)
(* what the loop body does with one character; the decision chain itself is regenerated from the source
   (Gen/FactsDoc.v split_step_gen) *)
Inductive sstep :=
| SReturn                       (* return line[:i], line[i + 1:] *)
| SSkipNext                     (* i += 1: the next character is not looked at *)
| SQuote (q : option ascii)     (* quote = ... *)
| SKeep.                        (* nothing but the final i += 1 *)

Definition pre_char (c : ascii) (o : option (string * string)) : option (string * string) :=
  match o with Some (a, b) => Some (String c a, b) | None => None end.

(* Some (code, comment) | None = the line has no comment *)
Fixpoint split_run (step : option ascii -> ascii -> sstep) (s : string) (quote : option ascii) (skip : bool)
  : option (string * string) :=
  match s with
  | EmptyString => None
  | String c r =>
      if skip then pre_char c (split_run step r quote false)
      else match step quote c with
           | SReturn => Some (EmptyString, r)
           | SSkipNext => pre_char c (split_run step r quote true)
           | SQuote q => pre_char c (split_run step r q false)
           | SKeep => pre_char c (split_run step r quote false)
           end
  end.

Section Scanner.
  Variables HASH COLON EQUALS : ascii.             (* Gen: the literals of _contains_field_definition & co *)
  Variables TRIPLE_S TRIPLE_D : string.            (* Gen: triple_single / triple_double *)
  Variable SPLIT_STEP : option ascii -> ascii -> sstep.   (* Gen: the loop body of _split_at_comment *)

  (* _contains_field_definition *)
  Definition contains_def (line0 : string) : bool :=
    let line := before_char HASH line0 in
    if negb (has_char COLON line) then false else
    let attribute_and_type := if has_char EQUALS line then before_char EQUALS line else line in
    let field_name := strip (before_char COLON attribute_and_type) in
    let type := match after_char COLON attribute_and_type with Some t => t | None => "" end in
    if has_char COLON type then false
    else if String.eqb field_name "" then false
    else is_ident field_name.

  (* _line_contains_definition_for(line, f)  <->  def_name line = Some f *)
  Definition def_name (line0 : string) : option string :=
    let line := strip line0 in
    if negb (contains_def line) then None else
    let attribute := strip (before_char COLON line) in
    if is_ident attribute then Some attribute else None.

  (* _get_comment_at_line (comment lines above a field): the first # whatever surrounds it *)
  Definition comment_of (line : string) : string :=
    match after_char HASH line with Some c => strip c | None => "" end.

  (* _get_inline_comment_at_line *)
  Definition inline_of (line : string) : string :=
    match split_run SPLIT_STEP line None false with Some (_, c) => strip c | None => "" end.

  Definition tok_of (q : quote) : string := match q with QD => TRIPLE_D | QS => TRIPLE_S end.

  (* the token-is-None branch of _get_docstring_starting_at_line on a line that is neither empty, a field
     definition nor a comment *)
  Definition open_of (line : string) : option (quote * bool * string) :=
    let q := match split_first TRIPLE_S line, split_first TRIPLE_D line with
             | Some (a, _), Some (b, _) => Some (if Nat.ltb (String.length a) (String.length b) then QS else QD)
             | None, Some _ => Some QD
             | Some _, None => Some QS
             | None, None => None
             end in
    match q with
    | None => None
    | Some q =>
        match split_first (tok_of q) line with
        | None => None
        | Some (_, rest) =>                       (* line.split(token, maxsplit=2) *)
            match split_first (tok_of q) rest with
            | Some (between, _) => Some (q, true, strip between)
            | None => Some (q, false, strip rest)
            end
        end
    end.

  Definition close_of (q : quote) (line : string) : option string :=
    match split_first (tok_of q) line with Some (before, _) => Some (strip before) | None => None end.

  Definition view (line : string) : lview :=
    mkview (contains_def line) (def_name line)
           (contains TRIPLE_D line || contains TRIPLE_S line)
           (String.eqb (strip line) "")
           (prefixb (String HASH "") (strip line))
           (comment_of line) (inline_of line)
           (open_of line) (close_of QD line) (close_of QS line) (strip line).
End Scanner.

(* ---------- the scanner over views ---------- *)
(* inside a docstring whose token is q *)
Fixpoint doc_body (q : quote) (vs : list lview) : list string :=
  match vs with
  | [] => []
  | v :: r => match v_close q v with
              | Some s => [s]
              | None => v_strip v :: doc_body q r
              end
  end.

(* _get_docstring_starting_at_line, on the lines below the field *)
Fixpoint doc_open (vs : list lview) : string :=
  match vs with
  | [] => ""
  | v :: r =>
      if v_empty v then doc_open r
      else if v_isdef v || v_iscomment v then ""
      else match v_open v with
           | None => ""
           | Some (_, true, s) => s
           | Some (q, false, s) => join_nl (s :: doc_body q r)
           end
  end.

(* the upward walk of _get_comment_ending_at_line; input: the lines above, nearest first, WITHOUT line 0.
   stop_other (Gen: FIX_WALK): the walk also ends at a line that is neither empty nor a comment *)
(* stop_quote (Gen: walk_stops_at_quote_lines_gen): it ends at every line that holds a triple-quote token *)
Definition walk_stop (stop_other stop_quote : bool) (v : lview) : bool :=
  v_isdef v || (stop_quote && v_quote v) || (stop_other && negb (v_empty v || v_iscomment v)).

Fixpoint walk_up (stop_other stop_quote : bool) (vs : list lview) : list lview :=
  match vs with
  | [] => []
  | v :: r => if walk_stop stop_other stop_quote v then [] else v :: walk_up stop_other stop_quote r
  end.

(* above_rev: all the lines above the field, nearest first (its last element is line 0, never examined) *)
Definition comment_above (stop_other stop_quote : bool) (above_rev : list lview) : string :=
  strip (join_nl (map v_comment (filter (fun v => negb (v_empty v))
                                        (rev (walk_up stop_other stop_quote (removelast above_rev)))))).

Definition defines (f : string) (v : lview) : bool :=
  v_isdef v && match v_defname v with Some n => String.eqb n f | None => false end.

(* the loop of _get_attribute_docstring: first field-definition line that defines f *)
Fixpoint find_field (stop_other stop_quote : bool) (f : string) (above_rev vs : list lview)
  : option (string * string * string) :=
  match vs with
  | [] => None
  | v :: r => if defines f v then Some (comment_above stop_other stop_quote above_rev, v_inline v, doc_open r)
              else find_field stop_other stop_quote f (v :: above_rev) r
  end.

(* ---------- source text -> code_lines ---------- *)
Definition NL : ascii := ascii_of_nat 10.
(* source.replace(doc, NL, 1) *)
Definition replace_first (pat rep s : string) : string :=
  match split_first pat s with Some (a, b) => a ++ rep ++ b | None => s end.
(* str.splitlines() for text whose only line boundary is NL (in_scope of a case checks that) *)
Definition splitlines (s : string) : list string :=
  let l := split_on NL s "" in
  match rev l with
  | EmptyString :: r => rev r
  | _ => l
  end.
Definition join_lines (l : list string) : string := join_nl l.

(* one class as the scanner sees it *)
Record klass := mkklass {
  k_name : string;
  k_src : option (list string);        (* inspect.getsource(cls).split(NL); None = source not available *)
  k_doc : option (list string);        (* cls.__doc__.split(NL) when truthy *)
  k_args : list (string * string)      (* oracle: docstring_parser params of inspect.getdoc(cls): (arg_name, description or empty) *)
}.

Fixpoint last_assoc (f : string) (l : list (string * string)) (cur : string) : string :=
  match l with
  | [] => cur
  | (n, d) :: r => last_assoc f r (if String.eqb n f then d else cur)
  end.

Section Class.
  Variables HASH COLON EQUALS : ascii.
  Variables TRIPLE_S TRIPLE_D : string.
  Variable SPLIT_STEP : option ascii -> ascii -> sstep.
  Variable STOP_OTHER : bool.     (* Gen FIX_WALK: the comment walk stops at code lines *)
  Variable STOP_QUOTE : bool.     (* Gen walk_stops_at_quote_lines_gen *)
  Variable ENTRY_ALONE : bool.    (* Gen FIX_ENTRY: a class that only documents the field in its docstring still answers *)

  Definition code_lines (k : klass) : option (list string) :=
    match k_src k with
    | None => None
    | Some src =>
        let source := join_lines src in
        let source := match k_doc k with
                      | Some d => let doc := join_lines d in
                                  if str_nonempty doc && contains doc source
                                  then replace_first doc (String NL "") source else source
                      | None => source
                      end in
        Some (splitlines source)
    end.

  Definition scan_lines (lines : list string) (f : string) : option (string * string * string) :=
    find_field STOP_OTHER STOP_QUOTE f [] (map (view HASH COLON EQUALS TRIPLE_S TRIPLE_D SPLIT_STEP) lines).

  (* _get_attribute_docstring(cls, f) *)
  Definition scan_class (k : klass) (f : string) : option parts :=
    match code_lines k with
    | None => None
    | Some lines =>
        let entry := last_assoc f (k_args k) "" in
        match scan_lines lines f with
        | None => if ENTRY_ALONE && str_nonempty entry then Some (mkparts "" "" "" entry) else None
        | Some (above, inline, below) => Some (mkparts above inline below entry)
        end
    end.
End Class.

(* ---------- get_attribute_docstring: accumulation along the MRO, with the lru_cache ---------- *)
Section Mro.
  Variable ACC : list part.                         (* Gen: the parts updated in the `else:` branch *)
  Variable COPY : bool.                             (* Gen FIX_ALIAS: `created` is a copy of the cached object *)
  Definition part_in (p : part) (l : list part) : bool := existsb (part_eqb p) l.

  (* created.p = created.p or attribute.p, for each accumulated p *)
  Definition merge (c d : parts) : parts :=
    fold_left (fun acc p => if str_nonempty (get_part p acc) then acc else set_part p (get_part p d) acc) ACC c.

  (* pure reading: every class's own scan result, no cache *)
  Fixpoint acc_pure (scans : list (option parts)) (created : option parts) : option parts :=
    match scans with
    | [] => created
    | None :: r => acc_pure r created
    | Some d :: r => match created with
                     | None => acc_pure r (Some d)
                     | Some c => acc_pure r (Some (merge c d))
                     end
    end.

  (* the cache of _get_attribute_docstring for ONE field name: class name -> cached (and mutated) object *)
  Definition cache := list (string * option parts).
  Fixpoint cache_get (st : cache) (k : string) : option (option parts) :=
    match st with
    | [] => None
    | (n, v) :: r => if String.eqb n k then Some v else cache_get r k
    end.
  Fixpoint cache_set (st : cache) (k : string) (v : option parts) : cache :=
    match st with
    | [] => [(k, v)]
    | (n, w) :: r => if String.eqb n k then (n, v) :: r else (n, w) :: cache_set r k v
    end.

  Section Stateful.
    Variable CACHED : bool.                          (* Gen: _get_attribute_docstring carries functools.lru_cache *)
    Variable scan : string -> option parts.          (* class name -> fresh _get_attribute_docstring result *)

    Definition fetch (st : cache) (k : string) : option parts * cache :=
      if CACHED then
        match cache_get st k with
        | Some v => (v, st)
        | None => let v := scan k in (v, cache_set st k v)
        end
      else (scan k, st).

    (* the for loop; `created` is the cached object of class k0, updated in place - unless it is a COPY *)
    Fixpoint acc_loop (mro : list string) (created : option (string * parts)) (st : cache)
      : option (string * parts) * cache :=
      match mro with
      | [] => (created, st)
      | k :: r =>
          let (v, st1) := fetch st k in
          match v with
          | None => acc_loop r created st1
          | Some d => match created with
                      | None => acc_loop r (Some (k, d)) st1
                      | Some (k0, c) => let c' := merge c d in
                                        acc_loop r (Some (k0, c')) (if COPY then st1 else cache_set st1 k0 (Some c'))
                      end
          end
      end.

    Definition EMPTY_PARTS : parts := mkparts "" "" "" "".

    (* get_attribute_docstring(cls, f) with accumulate_from_bases=True; mro excludes `object` *)
    Definition get_doc (mro : list string) (st : cache) : parts * cache :=
      match acc_loop mro None st with
      | (Some (_, c), st') => (c, st')
      | (None, st') => (EMPTY_PARTS, st')
      end.

    (* a history of queries for the same field name *)
    Fixpoint run_queries (qs : list (list string)) (st : cache) : list parts :=
      match qs with
      | [] => []
      | mro :: r => let (d, st') := get_doc mro st in d :: run_queries r st'
      end.
  End Stateful.
End Mro.

(* ---------- FieldWrapper.help ---------- *)
(* explicit: field.metadata.get('help') (None/empty = absent).  Result None = no help text. *)
Definition help_of (chain : list part) (explicit : option string) (d : parts) : option string :=
  match explicit with
  | Some h => if str_nonempty h then Some h
              else let s := first_nonempty chain d in if str_nonempty s then Some s else None
  | None => let s := first_nonempty chain d in if str_nonempty s then Some s else None
  end.

(* ---------- FieldWrapper.get_arg_options: the help= handed to the argparse action ---------- *)
(* the if/elif chain is regenerated (Gen ACTION_HELP_TABLE): tests and values it may use *)
Inductive ahtest := AHasHelp (* if self.help *) | ADefaultNotNone (* self.default is not None *).
Inductive ahval := AVHelp (* self.help *) | AVToken (* TEMPORARY_TOKEN, erased again by the help formatter *).

Fixpoint action_help (token : string) (tbl : list (ahtest * ahval)) (help : option string) (has_default : bool)
  : option string :=
  match tbl with
  | [] => None                                      (* no 'help' key in the options *)
  | (t, v) :: r =>
      if match t with
         | AHasHelp => match help with Some h => str_nonempty h | None => false end
         | ADefaultNotNone => has_default
         end
      then match v with AVHelp => help | AVToken => Some token end
      else action_help token r help has_default
  end.

(* FieldWrapper.arg_options: options = get_arg_options(); options.update(custom_arg_options) when OVERRIDE (Gen
   CUSTOM_OVERRIDES); custom: the help= keyword given to simple_parsing's field(), kept in metadata['custom_args'] *)
Definition final_help (override : bool) (custom base : option string) : option string :=
  if override then match custom with Some h => Some h | None => base end else base.
