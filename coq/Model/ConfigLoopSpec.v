(* Model/ConfigLoopSpec.v — what property C15 demands: the instance that comes back equals the instance that was saved,
   each field in its declared type.  Written on instances and observed outcomes only (no reference to how the file is
   produced or consumed), so the correspondence run evaluates it on what the implementation returned. *)
From SPV Require Export Base.Str Model.Leaf Model.LeafSpec Model.ConfigLoop.

Fixpoint inst_eqb (a b : inst) : bool :=
  match a, b with
  | ILeaf v, ILeaf w => value_eqb v w
  | INode fs, INode gs => all2b inst_eqb fs gs
  | IOpaque a, IOpaque b => String.eqb a b
  | _, _ => false
  end.

(* every field of the instance has its declared type *)
Fixpoint inst_typed (s : schema) (x : inst) {struct s} : bool :=
  match s, x with
  | SLeaf t _, ILeaf v => has_type v t
  | SNode fs, INode xs => all2b inst_typed fs xs
  | SOpt _, ILeaf VNone => true
  | SOpt s', INode _ => inst_typed s' x
  | _, _ => false
  end.

(* C15: the parse succeeds and returns an instance equal to the saved one, every field in its declared type *)
Definition spec_loop (s : schema) (saved : inst) (got : res inst) : bool :=
  match got with
  | Ok g => inst_eqb g saved && inst_typed s g
  | Err _ => false
  end.

Definition spec_leaf (t : ty) (saved : value) (got : res value) : bool :=
  match got with
  | Ok g => value_eqb g saved && has_type g t
  | Err _ => false
  end.

(* ---------- the property's quantifier ---------- *)
(* the intersection of the CLI grammar (C02, without Literal) and the serialization grammar *)
Definition cfg_type (t : ty) : bool :=
  match t with TLit _ => false | _ => cli_type t end.

(* a definition default, when there is one, is an instance of the annotation *)
Definition defn_typed (t : ty) (defn : option value) : bool :=
  match defn with Some d => has_type d t | None => true end.

(* a class whose definition defaults, where present, are instances of the annotations (the class of an Optional member that is None) *)
Fixpoint member_loads (s : schema) : bool :=
  match s with
  | SLeaf t defn => match defn with
                    | None | Some VNone => true
                    | Some d => cfg_type t && has_type d t
                    end
  | SNode fs => forallb (fun kv => member_loads (snd kv)) fs
  | SOpt s' => member_loads s'
  end.

(* field names are distinct in every class; every leaf is in the grammar, with a well-typed default and a well-typed value *)
Fixpoint in_quantifier (s : schema) (x : inst) {struct s} : bool :=
  match s, x with
  | SLeaf t defn, ILeaf v => cfg_type t && defn_typed t defn && has_type v t
  | SNode fs, INode xs =>
      str_nodupb (map fst fs) && all2b in_quantifier fs xs
  | SOpt s', ILeaf VNone => match s' with SNode _ => member_loads s' | _ => false end
  | SOpt s', INode _ => match s' with SNode _ => in_quantifier s' x | _ => false end
  | _, _ => false
  end.

Definition four_suffixes : list string := [".json"; ".yaml"; ".yml"; ".pkl"].

(* ---------- the side conditions under which the loop closes on the current tree ---------- *)
(* container items are int / float / str / bool (what json/yaml carry natively) *)
Definition plain_item (t : ty) : bool :=
  match t with TInt | TFloat | TStr | TBool => true | _ => false end.
Definition items_plain_c (t : ty) : bool :=
  match t with
  | TList u | TTupVar u => plain_item u
  | TTupFix ts => forallb plain_item ts
  | _ => true
  end.
Definition items_plain (t : ty) : bool :=
  match t with TOpt u => items_plain_c u | _ => items_plain_c t end.

(* None is not saved over a definition default that is not None *)
Definition not_null_over_default (defn : option value) (v : value) : bool :=
  match v, defn with
  | VNone, Some VNone | VNone, None => true
  | VNone, Some _ => false
  | _, _ => true
  end.

Fixpoint side_conditions (s : schema) (x : inst) {struct s} : bool :=
  match s, x with
  | SLeaf t defn, ILeaf v => items_plain t && not_null_over_default defn v
  | SNode fs, INode xs => all2b side_conditions fs xs
  | SOpt _, ILeaf VNone => true
  | SOpt s', INode _ => side_conditions s' x
  | _, _ => false
  end.
