(* Model/Annot.v — executable model of how SimpleParsing turns a field annotation, as WRITTEN, into the type object
   its predicates look at, and of how the field list of a dataclass is collected along an inheritance chain.

   (a) norm        : simple_parsing.annotation_utils.get_field_annotations._replace_UnionType_with_typing_Union
                     on runtime type objects (rty); its dispatch order and its else-branch are regenerated facts.
   (b) old_style   : ..._get_old_style_annotation, the TEXTUAL `A | B` -> `Union[A, B]` rewriter, character level,
                     with the assertion / NotImplementedError exits of the code; its literals are regenerated facts.
   (c) chain_fields: dataclasses' field collection over base classes (dict semantics: a re-declared field keeps its
                     first position and takes its last declaration) + DataclassWrapper's / _get_dataclass_fields' filters.
   Also: eval (what Python's typing machinery builds from a written annotation, 3.12), canon (what is_list / is_tuple /
   is_union / get_args see), resolve (DataclassWrapper.__init__ l.81-92 + get_field_type_from_annotations on the
   normal `get_type_hints succeeds` path), a small parser for annotation strings. *)
From SPV Require Export Base.Str.
Open Scope list_scope.

(* ====================================================================================================== *)
(* character lists (Python str), the string methods the rewriter uses                                      *)
(* ====================================================================================================== *)
Definition chars (s : string) : list ascii := list_ascii_of_string s.
Definition unchars (l : list ascii) : string := string_of_list_ascii l.

Definition mem (c : ascii) (s : list ascii) : bool := existsb (Ascii.eqb c) s.

Fixpoint lstripl (s : list ascii) : list ascii :=
  match s with [] => [] | a :: r => if is_space a then lstripl r else s end.
Definition rstripl (s : list ascii) : list ascii := rev (lstripl (rev s)).
Definition stripl (s : list ascii) : list ascii := rstripl (lstripl s).

(* str.split(c): never [] *)
Fixpoint splitc (c : ascii) (s : list ascii) : list (list ascii) :=
  match s with
  | [] => [[]]
  | a :: r => if Ascii.eqb a c then [] :: splitc c r
              else match splitc c r with h :: t => (a :: h) :: t | [] => [[a]] end
  end.

(* str.partition(c) -> (before, sep, after); not found: (s, "", "") *)
Fixpoint partc (c : ascii) (s : list ascii) : list ascii * list ascii * list ascii :=
  match s with
  | [] => ([], [], [])
  | a :: r => if Ascii.eqb a c then ([], [c], r)
              else let '(b, sp, af) := partc c r in (a :: b, sp, af)
  end.

(* str.rpartition(c) -> (before, sep, after); not found: ("", "", s) *)
Definition rpartc (c : ascii) (s : list ascii) : list ascii * list ascii * list ascii :=
  let '(b, sp, af) := partc c (rev s) in
  match sp with [] => ([], [], s) | _ => (rev af, sp, rev b) end.

Fixpoint joinl (sep : list ascii) (l : list (list ascii)) : list ascii :=
  match l with [] => [] | [x] => x | x :: r => x ++ sep ++ joinl sep r end.

Definition mapM {A B} (f : A -> res B) : list A -> res (list B) :=
  fix go (l : list A) : res (list B) :=
    match l with
    | [] => Ok []
    | x :: r => bind (f x) (fun y => bind (go r) (fun ys => Ok (y :: ys)))
    end.

(* ====================================================================================================== *)
(* (b) the textual rewriter                                                                                *)
(* ====================================================================================================== *)
Section Rewriter.
  Variable bar lbr rbr comma : ascii.                 (* Gen: "|" "[" "]" "," *)
  Variable union_open join_sep union_close : list ascii. (* Gen: "Union[" ", " "]" *)
  Variable exc_not_supported : string.                  (* Gen: what _not_supported raises *)

  Definition assertion : err := Raise "AssertionError".

  Fixpoint old_style_fuel (n : nat) (s : list ascii) : res (list ascii) :=
    match n with
    | 0 => Err OutOfFuel
    | S n' =>
        if negb (mem bar s) then Ok s else
        let s := stripl s in
        if negb (mem lbr s) then
          if mem rbr s then Err assertion
          else Ok (union_open ++ joinl join_sep (map stripl (splitc bar s)) ++ union_close)
        else
          let '(before, lsep, rest) := partc lbr s in
          let '(middle, rsep, after) := rpartc rbr rest in
          if negb (match stripl after with [] => true | _ => false end) then Err assertion else
          if mem bar before || mem bar after then Err (Raise exc_not_supported) else
          if negb (mem bar middle) then Err assertion else
          bind (if mem comma middle
                then bind (mapM (old_style_fuel n') (map stripl (splitc comma middle)))
                          (fun parts => Ok (joinl join_sep parts))
                else Ok middle)
               (fun middle' =>
                  bind (old_style_fuel n' middle')
                       (fun new_middle => Ok (before ++ lsep ++ new_middle ++ rsep ++ after)))
    end.

  (* every recursive call is on a strictly shorter string or on a string without the bar (one more step) *)
  Definition old_style (s : list ascii) : res (list ascii) := old_style_fuel (S (S (List.length s))) s.
End Rewriter.

(* ====================================================================================================== *)
(* annotations as written                                                                                  *)
(* ====================================================================================================== *)
Inductive texp :=
| TName (n : string)                       (* int, E, In, None, ... (the Ellipsis inside Tuple[X, ...]) *)
| TSub (n : string) (args : list texp)     (* n[args]: List/list, Tuple/tuple, Dict/dict, Optional, Union *)
| TBar (ts : list texp).                   (* a | b | c *)

(* the text of an annotation, as `from __future__ import annotations` stores it (compiler's unparse spacing) *)
Fixpoint pr (t : texp) : list ascii :=
  match t with
  | TName n => chars n
  | TSub n args => chars n ++ "["%char :: joinl (chars ", ") (map pr args) ++ ["]"%char]
  | TBar ts => joinl (chars " | ") (map pr ts)
  end.

(* `A | B` spelled `Union[A, B]`, everything else unchanged: what the rewriter is meant to compute *)
Fixpoint to_old (t : texp) : texp :=
  match t with
  | TName n => TName n
  | TSub n args => TSub n (map to_old args)
  | TBar ts => TSub "Union" (map to_old ts)
  end.

(* ---------- a parser for annotation strings (the reading `eval` gives them) ---------- *)
Inductive tok := KName (s : list ascii) | KL | KR | KBar | KComma.

Definition is_delim (a : ascii) : bool :=
  Ascii.eqb a "["%char || Ascii.eqb a "]"%char || Ascii.eqb a "|"%char || Ascii.eqb a ","%char || is_space a.

Definition flush (cur : list ascii) (k : list tok) : list tok :=
  match cur with [] => k | _ => KName (rev cur) :: k end.

Fixpoint lex_acc (s cur : list ascii) : list tok :=
  match s with
  | [] => flush cur []
  | a :: r =>
      if Ascii.eqb a "["%char then flush cur (KL :: lex_acc r [])
      else if Ascii.eqb a "]"%char then flush cur (KR :: lex_acc r [])
      else if Ascii.eqb a "|"%char then flush cur (KBar :: lex_acc r [])
      else if Ascii.eqb a ","%char then flush cur (KComma :: lex_acc r [])
      else if is_space a then flush cur (lex_acc r [])
      else lex_acc r (a :: cur)
  end.
Definition lex (s : list ascii) : list tok := lex_acc s [].

Definition mk_bar (ts : list texp) : texp := match ts with [t] => t | _ => TBar ts end.

(* expr := term ('|' term)* ;  term := NAME ('[' expr (',' expr)* ']')?   — fuel-driven recursive descent *)
Fixpoint p_expr (n : nat) (ts : list tok) : option (texp * list tok) :=
  match n with
  | 0 => None
  | S n' =>
      match p_term n' ts with
      | None => None
      | Some (t, rest) => p_bars n' [t] rest
      end
  end
with p_term (n : nat) (ts : list tok) : option (texp * list tok) :=
  match n with
  | 0 => None
  | S n' =>
      match ts with
      | KName s :: KL :: rest =>
          match p_expr n' rest with
          | None => None
          | Some (a, rest') => p_args n' (unchars s) [a] rest'
          end
      | KName s :: rest => Some (TName (unchars s), rest)
      | _ => None
      end
  end
with p_bars (n : nat) (acc : list texp) (ts : list tok) : option (texp * list tok) :=
  match n with
  | 0 => None
  | S n' =>
      match ts with
      | KBar :: rest =>
          match p_term n' rest with
          | None => None
          | Some (t, rest') => p_bars n' (acc ++ [t]) rest'
          end
      | _ => Some (mk_bar acc, ts)
      end
  end
with p_args (n : nat) (name : string) (acc : list texp) (ts : list tok) : option (texp * list tok) :=
  match n with
  | 0 => None
  | S n' =>
      match ts with
      | KComma :: rest =>
          match p_expr n' rest with
          | None => None
          | Some (a, rest') => p_args n' name (acc ++ [a]) rest'
          end
      | KR :: rest => Some (TSub name acc, rest)
      | _ => None
      end
  end.

Definition parse (s : list ascii) : option texp :=
  let ts := lex s in
  match p_expr (S (2 * List.length ts)) ts with
  | Some (t, []) => Some t
  | _ => None
  end.

(* ====================================================================================================== *)
(* runtime type objects and what Python's typing machinery builds (CPython 3.12)                           *)
(* ====================================================================================================== *)
Inductive origin := OList | OTuple | ODict | OSet | OType.
Inductive rty :=
| RCls (n : string)                              (* a class object: int, E, In, ...; "NoneType" is type(None) *)
| RNone                                          (* the value None *)
| REllipsis
| RGen (alias : bool) (o : origin) (args : list rty)   (* alias=true: typing.List[..]; false: list[..] (types.GenericAlias) *)
| RTUnion (args : list rty)                      (* typing.Union[...] *)
| RUType (args : list rty).                      (* types.UnionType, `a | b` *)

Definition origin_eqb (a b : origin) : bool :=
  match a, b with
  | OList, OList | OTuple, OTuple | ODict, ODict | OSet, OSet | OType, OType => true
  | _, _ => false
  end.

Fixpoint rty_eqb (a b : rty) {struct a} : bool :=
  let fix go (l1 l2 : list rty) {struct l1} : bool :=
      match l1, l2 with
      | [], [] => true
      | x :: r1, y :: r2 => rty_eqb x y && go r1 r2
      | _, _ => false
      end in
  match a, b with
  | RCls n, RCls m => String.eqb n m
  | RNone, RNone => true
  | REllipsis, REllipsis => true
  | RGen al o l1, RGen bl p l2 => Bool.eqb al bl && origin_eqb o p && go l1 l2
  | RTUnion l1, RTUnion l2 => go l1 l2
  | RUType l1, RUType l2 => go l1 l2
  | _, _ => false
  end.

Definition rty_in (x : rty) (l : list rty) : bool := existsb (rty_eqb x) l.

(* first occurrences kept, as dict.fromkeys / the C dedup loop do *)
Fixpoint rdedupe (l seen : list rty) : list rty :=
  match l with
  | [] => []
  | x :: r => if rty_in x seen then rdedupe r seen else x :: rdedupe r (seen ++ [x])
  end.

Definition none_to_cls (r : rty) : rty := match r with RNone => RCls "NoneType" | _ => r end.

Definition union_members (r : rty) : list rty :=
  match r with RTUnion l | RUType l => l | _ => [r] end.

Definition type_error : err := Raise "TypeError".

(* typing.Union[args]: None -> NoneType, nested unions of either kind flattened, duplicates dropped, a single
   remaining member is returned itself *)
Definition mk_tunion (args : list rty) : res rty :=
  match rdedupe (flat_map union_members (map none_to_cls args)) [] with
  | [] => Err type_error
  | [x] => Ok x
  | l => Ok (RTUnion l)
  end.

Definition typingish (r : rty) : bool :=
  match r with RGen true _ _ | RTUnion _ => true | _ => false end.

Definition unionable (r : rty) : bool :=
  match r with RCls _ | RNone | RGen false _ _ | RUType _ => true | _ => false end.

(* a | b : type.__or__ / GenericAlias.__or__ build a types.UnionType; a typing alias on either side answers with
   typing.Union instead *)
Definition bin_or (a b : rty) : res rty :=
  if typingish a || typingish b then
    (if (typingish a || unionable a) && (typingish b || unionable b) then mk_tunion [a; b] else Err type_error)
  else
    match a, b with
    | RNone, RNone => Err type_error
    | _, _ =>
        if unionable a && unionable b then
          match rdedupe (flat_map union_members [none_to_cls a; none_to_cls b]) [] with
          | [] => Err type_error
          | [x] => Ok x
          | l => Ok (RUType l)
          end
        else Err type_error
    end.

Fixpoint fold_or (acc : rty) (l : list rty) : res rty :=
  match l with
  | [] => Ok acc
  | x :: r => bind (bin_or acc x) (fun acc' => fold_or acc' r)
  end.

(* subscriptable names *)
Inductive head := HGen (alias : bool) (o : origin) | HOptional | HUnion.

Definition head_of (n : string) : option head :=
  if String.eqb n "List" then Some (HGen true OList) else
  if String.eqb n "list" then Some (HGen false OList) else
  if String.eqb n "Tuple" then Some (HGen true OTuple) else
  if String.eqb n "tuple" then Some (HGen false OTuple) else
  if String.eqb n "Dict" then Some (HGen true ODict) else
  if String.eqb n "dict" then Some (HGen false ODict) else
  if String.eqb n "Set" then Some (HGen true OSet) else
  if String.eqb n "set" then Some (HGen false OSet) else
  if String.eqb n "Type" then Some (HGen true OType) else
  if String.eqb n "type" then Some (HGen false OType) else
  if String.eqb n "Optional" then Some HOptional else
  if String.eqb n "Union" then Some HUnion else None.

Fixpoint assoc (k : string) (l : list (string * string)) : option string :=
  match l with [] => None | (a, b) :: r => if String.eqb a k then Some b else assoc k r end.

Section Eval.
  (* names rebound before lookup: get_field_annotations.forward_refs_to_types on the string path, [] otherwise *)
  Variable env : list (string * string).
  Definition rename (n : string) : string := match assoc n env with Some b => b | None => n end.

  Definition arity_ok (o : origin) (k : nat) : bool :=
    match o with OList | OSet | OType => Nat.eqb k 1 | ODict => Nat.eqb k 2 | OTuple => Nat.ltb 0 k end.

  Fixpoint eval (t : texp) : res rty :=
    let fix evals (l : list texp) : res (list rty) :=
        match l with
        | [] => Ok []
        | x :: r => bind (eval x) (fun y => bind (evals r) (fun ys => Ok (y :: ys)))
        end in
    match t with
    | TName n =>
        let n := rename n in
        if String.eqb n "None" then Ok RNone
        else if String.eqb n "..." then Ok REllipsis
        else match head_of n with
             | Some (HGen true o) => Ok (RGen true o [])          (* bare typing.List *)
             | Some (HGen false _) => Ok (RCls n)                  (* the builtin class *)
             | Some _ => Err type_error
             | None => Ok (RCls n)
             end
    | TSub n args =>
        bind (evals args) (fun rs =>
          match head_of (rename n) with
          | Some (HGen true o) =>
              if arity_ok o (List.length rs) then Ok (RGen true o (map none_to_cls rs)) else Err type_error
          | Some (HGen false o) => Ok (RGen false o rs)
          | Some HOptional => match rs with [a] => mk_tunion [a; RCls "NoneType"] | _ => Err type_error end
          | Some HUnion => mk_tunion rs
          | None => Err type_error
          end)
    | TBar ts =>
        bind (evals ts) (fun rs => match rs with [] => Err (Raise "SyntaxError") | a :: r => fold_or a r end)
    end.
End Eval.

(* ====================================================================================================== *)
(* what SimpleParsing's type predicates see                                                                *)
(* ====================================================================================================== *)
Inductive cty :=
| CAtom (n : string)
| CNone
| CDots
| CList (t : cty)
| CTuple (ts : list cty)
| CTupleVar (t : cty)
| CDict (k v : cty)
| CUnion (ts : list cty)
| CBad.

Fixpoint canon (r : rty) : cty :=
  match r with
  | RCls n => if String.eqb n "NoneType" then CNone else CAtom n
  | RNone => CNone
  | REllipsis => CDots
  | RGen _ OList [a] => CList (canon a)
  | RGen _ OTuple [a; REllipsis] => CTupleVar (canon a)
  | RGen _ OTuple l => CTuple (map canon l)
  | RGen _ ODict [k; v] => CDict (canon k) (canon v)
  | RGen _ _ _ => CBad
  | RTUnion l => CUnion (map canon l)
  | RUType l => CUnion (map canon l)
  end.

(* ====================================================================================================== *)
(* simple_parsing.utils type predicates (their decision chains and name lists are regenerated facts)       *)
(* ====================================================================================================== *)
Definition BUILTIN_CLASS_NAMES : list string :=
  ["int"; "float"; "str"; "bool"; "list"; "tuple"; "dict"; "set"; "type"; "object"; "bytes"; "complex"; "frozenset"].

(* utils._mro: `if <test>: return <answer>` chain *)
Inductive mtest := MIsNone | MHasDunderMro | MOriginIsType | MHasMroMethod.
Inductive mans := MEmpty | MDunderMro | MCallMro.

Definition origin_name (o : origin) : string :=
  match o with OList => "list" | OTuple => "tuple" | ODict => "dict" | OSet => "set" | OType => "type" end.

(* CPython: a class has __mro__; types.GenericAlias forwards every attribute to its origin; a typing alias forwards
   only non-dunder attributes (so no __mro__, but mro()); unions, None and Ellipsis have neither *)
Definition mtest_holds (t : mtest) (r : rty) : bool :=
  match t, r with
  | MIsNone, RNone => true
  | MHasDunderMro, RCls _ => true
  | MHasDunderMro, RGen false _ _ => true
  | MOriginIsType, RGen _ OType _ => true
  | MHasMroMethod, RCls _ => true
  | MHasMroMethod, RGen _ _ _ => true
  | _, _ => false
  end.

(* the builtin / typing classes along the MRO (only list / tuple / dict / Mapping membership is ever asked; a class
   that is not a builtin contributes nothing that could be looked for) *)
Definition mro_names (r : rty) : list string :=
  match r with
  | RCls n => if str_in n BUILTIN_CLASS_NAMES then [n; "object"] else ["object"]
  | RGen _ o _ => [origin_name o; "object"]
  | _ => []
  end.

Definition mans_val (a : mans) (r : rty) : list string :=
  match a with MEmpty => [] | MDunderMro | MCallMro => mro_names r end.

Fixpoint mro_m (chain : list (mtest * mans)) (els : mans) (r : rty) : list string :=
  match chain with
  | [] => mans_val els r
  | (t, a) :: rest => if mtest_holds t r then mans_val a r else mro_m rest els r
  end.

(* utils.is_list / is_tuple / is_dict: `<name> in _mro(t)` for the listed names *)
Definition in_mro (chain : list (mtest * mans)) (els : mans) (names : list string) (r : rty) : bool :=
  existsb (fun n => str_in n (mro_m chain els r)) names.

(* utils.is_union: which runtime representations of a union it accepts *)
Inductive ukind := UKUnionType | UKTypingUnion.
Definition ukind_eqb (a b : ukind) : bool :=
  match a, b with UKUnionType, UKUnionType | UKTypingUnion, UKTypingUnion => true | _, _ => false end.

Definition is_union_m (kinds : list ukind) (r : rty) : bool :=
  match r with
  | RUType _ => existsb (ukind_eqb UKUnionType) kinds
  | RTUnion _ => existsb (ukind_eqb UKTypingUnion) kinds
  | _ => false
  end.

(* utils.get_type_arguments = typing.get_args *)
Definition get_args_m (r : rty) : list rty :=
  match r with RGen _ _ l | RTUnion l | RUType l => l | _ => [] end.

(* ====================================================================================================== *)
(* (a) _replace_UnionType_with_typing_Union                                                                *)
(* ====================================================================================================== *)
Inductive ntest := NIsUnionType | NIsList | NIsTuple | NIsDict | NInBuiltins | NIsClass
                 | NIsEllipsis.   (* not in the source today: the arm a repair of the Tuple[X, ...] defect would add *)
Inductive nact := AUnion | AList | ATuple | ADict | AId | ARaise (cls : string).

Definition ntest_holds (is_list is_tuple is_dict : rty -> bool) (t : ntest) (r : rty) : bool :=
  match t, r with
  | NIsUnionType, RUType _ => true
  | NIsList, _ => is_list r
  | NIsTuple, _ => is_tuple r
  | NIsDict, _ => is_dict r
  | NInBuiltins, RCls n => str_in n BUILTIN_CLASS_NAMES
  | NIsClass, RCls _ => true
  | NIsEllipsis, REllipsis => true
  | _, _ => false
  end.

Fixpoint seq_res {A} (l : list (res A)) : res (list A) :=
  match l with
  | [] => Ok []
  | x :: r => bind x (fun y => bind (seq_res r) (fun ys => Ok (y :: ys)))
  end.

(* get_field_type_from_annotations: what is done to the evaluated hint, in source order *)
Inductive rstep := SForwardRefArg | SNormTopUnionType | SRewriteStrBar | SReevaluate.

Section Norm.
  Variables is_list is_tuple is_dict : rty -> bool.   (* Gen: utils.is_list / is_tuple / is_dict over utils._mro *)
  Variable norm_table : list (ntest * nact).   (* Gen: the `if ...: return ...` chain, in source order *)
  Variable norm_else : nact.                    (* Gen: what happens when no test holds *)

  Fixpoint pick (tbl : list (ntest * nact)) (r : rty) : nact :=
    match tbl with
    | [] => norm_else
    | (t, a) :: rest => if ntest_holds is_list is_tuple is_dict t r then a else pick rest r
    end.

  (* ns = the recursive results for typing.get_args(r), left to right, consumed lazily by the action *)
  Definition run_act (a : nact) (r : rty) (ns : list (res rty)) : res rty :=
    match a with
    | AUnion => bind (seq_res ns) mk_tunion
    | AList => match ns with
               | [] => Err (Raise "IndexError")
               | x :: _ => bind x (fun x' => Ok (RGen false OList [x']))
               end
    | ATuple => bind (seq_res ns) (fun l => Ok (RGen false OTuple l))
    | ADict => match ns with
               | [] => Ok (RCls "dict")
               | [k; v] => bind k (fun k' => bind v (fun v' => Ok (RGen false ODict [k'; v'])))
               | _ => Err (Raise "AssertionError")
               end
    | AId => Ok r
    | ARaise c => Err (Raise c)
    end.

  Fixpoint norm (r : rty) : res rty :=
    let ns : list (res rty) :=
        match r with
        | RGen _ _ l | RTUnion l | RUType l =>
            (fix go (l : list rty) : list (res rty) := match l with [] => [] | x :: t => norm x :: go t end) l
        | _ => []
        end in
    run_act (pick norm_table r) r ns.

  (* DataclassWrapper.__init__ l.81-92 / FieldWrapper.type: a str annotation is resolved by
     get_field_type_from_annotations (get_type_hints succeeds: names are bound; a top-level None becomes NoneType);
     then the steps of the function in source order (Gen).  On an evaluated hint only the normalisation of a top-level
     types.UnionType does anything: a ForwardRef / str is not what get_type_hints returned, re-evaluating an evaluated
     hint gives it back; InitVar[...] is not a UnionType and is unwrapped later. *)
  Variable steps : list rstep.

  Definition apply_step (initvar : bool) (s : rstep) (r : rty) : res rty :=
    match s with
    | SNormTopUnionType => match r with RUType _ => if initvar then Ok r else norm r | _ => Ok r end
    | SForwardRefArg | SRewriteStrBar | SReevaluate => Ok r
    end.

  Fixpoint run_steps (initvar : bool) (l : list rstep) (r : rty) : res rty :=
    match l with [] => Ok r | s :: rest => bind (apply_step initvar s r) (run_steps initvar rest) end.

  Definition resolve (env : list (string * string)) (postponed initvar : bool) (t : texp) : res rty :=
    if postponed then bind (eval env t) (fun r => run_steps initvar steps (none_to_cls r))
    else eval [] t.
End Norm.

(* ====================================================================================================== *)
(* which fields become nested-dataclass wrappers (DataclassWrapper.__init__ dispatch + utils helpers)       *)
(* ====================================================================================================== *)
Inductive ctest := CTIsDataclass | CTSeqOfDataclasses | CTIsUnion.       (* utils.contains_dataclass_type_arg *)
Inductive cans := CATrue | CAAnyArg | CAFalse.
Inductive dtest := DSubparserOrChoice | DDataclassDefaultNotNone | DContainsDataclass.   (* DataclassWrapper.__init__ *)
Inductive wkind := WField | WChild | WOptChild.

Definition wkind_eqb (a b : wkind) : bool :=
  match a, b with WField, WField | WChild, WChild | WOptChild, WOptChild => true | _, _ => false end.

Section Wrap.
  Variables is_list is_tuple : rty -> bool.          (* Gen *)
  Variable ukinds : list ukind.                      (* Gen: utils.is_union *)
  Variable contains_chain : list (ctest * cans).     (* Gen: utils.contains_dataclass_type_arg *)
  Variable contains_else : cans.
  Variable guard_seq_raises : bool.                  (* Gen: list/tuple of dataclasses -> NotImplementedError *)
  Variable wrap_chain : list (dtest * wkind).        (* Gen: if/elif chain of the loop body *)
  Variable wrap_else : wkind.
  Variable dcs : list string.                        (* the dataclass classes in scope *)

  Definition is_dc (r : rty) : bool := match r with RCls n => str_in n dcs | _ => false end.

  (* utils.get_item_type: the first of __args__ (classes have none) *)
  Definition item_is_dc (r : rty) : bool :=
    match r with
    | RGen _ _ (a :: _) | RTUnion (a :: _) | RUType (a :: _) => is_dc a
    | _ => false
    end.

  Definition seq_of_dc (r : rty) : bool := (is_list r || is_tuple r) && item_is_dc r.

  Definition ctest_holds (t : ctest) (r : rty) : bool :=
    match t with
    | CTIsDataclass => is_dc r
    | CTSeqOfDataclasses => seq_of_dc r
    | CTIsUnion => is_union_m ukinds r
    end.

  Fixpoint cpick (tbl : list (ctest * cans)) (r : rty) : cans :=
    match tbl with
    | [] => contains_else
    | (t, a) :: rest => if ctest_holds t r then a else cpick rest r
    end.

  Fixpoint contains_dc (r : rty) : bool :=
    let sub : bool :=
        match r with
        | RGen _ _ l | RTUnion l | RUType l =>
            (fix go (l : list rty) : bool := match l with [] => false | x :: t => contains_dc x || go t end) l
        | _ => false
        end in
    match cpick contains_chain r with CATrue => true | CAAnyArg => sub | CAFalse => false end.

  (* utils.is_subparser_field (no subparsers= / choices= metadata): a union all of whose members are dataclasses *)
  Definition is_subparser (r : rty) : bool := is_union_m ukinds r && forallb is_dc (get_args_m r).

  Definition dtest_holds (t : dtest) (r : rty) (default_none : bool) : bool :=
    match t with
    | DSubparserOrChoice => is_subparser r
    | DDataclassDefaultNotNone => is_dc r && negb default_none
    | DContainsDataclass => contains_dc r
    end.

  Fixpoint dpick (tbl : list (dtest * wkind)) (r : rty) (default_none : bool) : wkind :=
    match tbl with
    | [] => wrap_else
    | (t, k) :: rest => if dtest_holds t r default_none then k else dpick rest r default_none
    end.

  Definition wrapper_kind (r : rty) (default_none : bool) : res wkind :=
    if guard_seq_raises && seq_of_dc r then Err (Raise "NotImplementedError")
    else Ok (dpick wrap_chain r default_none).
End Wrap.

(* ====================================================================================================== *)
(* (c) the field list of a class in an inheritance chain                                                    *)
(* ====================================================================================================== *)
Section Fields.
  Context {A : Type}.

  (* fields[name] = f on an insertion-ordered dict *)
  Fixpoint set_field (kv : string * A) (l : list (string * A)) : list (string * A) :=
    match l with
    | [] => [kv]
    | (k, v) :: r => if String.eqb k (fst kv) then (k, snd kv) :: r else (k, v) :: set_field kv r
    end.

  Definition set_all (kvs acc : list (string * A)) : list (string * A) :=
    fold_left (fun a kv => set_field kv a) kvs acc.

  (* dataclasses._process_class: for b in reversed(mro[1:]): fields.update(b.__dataclass_fields__); then own *)
  Definition class_fields (bases : list (list (string * A))) (own : list (string * A)) : list (string * A) :=
    set_all own (fold_left (fun acc bf => set_all bf acc) bases []).

  (* chain = own declarations, base-most class first; result = __dataclass_fields__ of every class of the chain *)
  Definition all_class_fields (chain : list (list (string * A))) : list (list (string * A)) :=
    fold_left (fun done own => done ++ [class_fields done own]) chain [].

  Definition chain_fields (chain : list (list (string * A))) : list (string * A) :=
    last (all_class_fields chain) [].
End Fields.

Inductive fkind := KField | KInitVar | KClassVar.
Definition fkind_eqb (a b : fkind) : bool :=
  match a, b with KField, KField | KInitVar, KInitVar | KClassVar, KClassVar => true | _, _ => false end.

Record fdecl := mkf {
  f_ty : cty;            (* the type meant (rendered in the spelling of the module) *)
  f_kind : fkind;
  f_init : bool;         (* field(init=...) *)
  f_cmd : bool;          (* field(metadata cmd=...) *)
  f_dnone : bool         (* the default is None *)
}.

(* _get_dataclass_fields keeps the kinds in `kinds` (Gen); DataclassWrapper skips init=False and cmd=False *)
Definition wrapper_fields (kinds : list fkind) (l : list (string * fdecl)) : list (string * fdecl) :=
  filter (fun kv => existsb (fkind_eqb (f_kind (snd kv))) kinds && f_init (snd kv) && f_cmd (snd kv)) l.

(* ====================================================================================================== *)
(* spellings                                                                                                *)
(* ====================================================================================================== *)
Inductive spelling := SpTyping | SpBuiltin | Sp604.

Definition is_cnone (c : cty) : bool := match c with CNone => true | _ => false end.
Definition is_tnone (t : texp) : bool := match t with TName n => String.eqb n "None" | _ => false end.

Definition gen_name (sp : spelling) (o : origin) : string :=
  match sp, o with
  | SpTyping, OList => "List" | _, OList => "list"
  | SpTyping, OTuple => "Tuple" | _, OTuple => "tuple"
  | SpTyping, ODict => "Dict" | _, ODict => "dict"
  | SpTyping, OSet => "Set" | _, OSet => "set"
  | SpTyping, OType => "Type" | _, OType => "type"
  end.

Fixpoint render (sp : spelling) (c : cty) : texp :=
  match c with
  | CAtom n => TName n
  | CNone => TName "None"
  | CDots => TName "..."
  | CList a => TSub (gen_name sp OList) [render sp a]
  | CTuple l => TSub (gen_name sp OTuple) (map (render sp) l)
  | CTupleVar a => TSub (gen_name sp OTuple) [render sp a; TName "..."]
  | CDict k v => TSub (gen_name sp ODict) [render sp k; render sp v]
  | CUnion l =>
      let rl := map (render sp) l in
      match sp with
      | Sp604 => TBar rl
      | _ =>
          if existsb is_tnone rl then
            match filter (fun t => negb (is_tnone t)) rl with
            | [a] => TSub "Optional" [a]
            | non => TSub "Optional" [TSub "Union" non]
            end
          else TSub "Union" rl
      end
  | CBad => TName "object"
  end.

(* the runtime object each spelling evaluates to, written down directly *)
Fixpoint rt (sp : spelling) (c : cty) : rty :=
  let alias := match sp with SpTyping => true | _ => false end in
  match c with
  | CAtom n => RCls n
  | CNone => RNone
  | CDots => REllipsis
  | CList a => RGen alias OList [rt sp a]
  | CTuple l => RGen alias OTuple (map (rt sp) l)
  | CTupleVar a => RGen alias OTuple [rt sp a; REllipsis]
  | CDict k v => RGen alias ODict [rt sp k; rt sp v]
  | CUnion l =>
      match sp with
      | Sp604 => RUType (map (fun c => none_to_cls (rt sp c)) l)
      | _ => RTUnion (map (fun c => none_to_cls (rt sp c)) l)
      end
  | CBad => RCls "object"
  end.

(* ====================================================================================================== *)
(* the wrapper field list of one rendering: names and canonicalised FieldWrapper.type, or the set-up error  *)
(* ====================================================================================================== *)
Definition field_types (is_list is_tuple is_dict : rty -> bool) (norm_table : list (ntest * nact)) (norm_else : nact)
           (steps : list rstep) (env : list (string * string)) (kinds : list fkind) (initvar_unwrapped : bool)
           (sp : spelling) (postponed : bool) (l : list (string * fdecl))
  : res (list (string * cty)) :=
  mapM (fun kv =>
          let iv := fkind_eqb (f_kind (snd kv)) KInitVar in
          bind (resolve is_list is_tuple is_dict norm_table norm_else steps env postponed iv
                        (render sp (f_ty (snd kv))))
               (fun o => Ok (fst kv, if iv && negb initvar_unwrapped then CBad else canon o)))   (* FieldWrapper.type *)
       (wrapper_fields kinds l).
