(* Model/SubclassSpec.v — what property C14 demands of `Base.from_dict(to_dict(derived))`, written over the class table
   only (field sets, the below-relation, the user's decode_into_subclasses declarations), never over the code's search:
   no sort, no enumeration order, no first match appear here.  Executable, so the correspondence run evaluates it on
   every OBSERVED result.  (Imports the model file for the shared vocabulary: values, class tables, ancestors.) *)
From SPV Require Export Base.Str Model.Subclass.

Definition has_all (c : cdecl) (keys : list string) : bool := forallb (fun k => str_in k (field_names c)) keys.
Definition nfields (c : cdecl) : nat := List.length (c_fields c).

(* b itself or a class below b *)
Definition in_cone (h : hier) (b : string) (c : cdecl) : bool :=
  String.eqb (c_name c) b || str_in b (ancestors h (c_name c)).
Definition cone (h : hier) (b : string) : list cdecl := filter (in_cone h b) h.

Definition same_fields (a b : cdecl) : bool := has_all a (field_names b) && has_all b (field_names a).
(* "its field set identifies it": no other class at or below b has the same set of fields *)
Definition identified (h : hier) (b : string) (d : cdecl) : bool :=
  in_cone h b d && forallb (fun c => String.eqb (c_name c) (c_name d) || negb (same_fields c d)) (cone h b).

(* R is a class strictly below b that has every serialized key, and no class below b that has them all has fewer fields *)
Definition min_superset (h : hier) (b : string) (keys : list string) (R : string) : bool :=
  match find_class h R with
  | None => false
  | Some r => str_in b (ancestors h R) && has_all r keys
              && forallb (fun c => negb (has_all c keys) || Nat.leb (nfields r) (nfields c)) (descendants h b)
  end.

(* decode_into_subclasses as the user declared it: the nearest explicit keyword going up through the first bases *)
Fixpoint spec_enabled (fuel : nat) (h : hier) (n : string) : bool :=
  match fuel with
  | 0 => false
  | S k => match find_class h n with
           | None => false
           | Some c => match c_kw c with
                       | Some b => b
                       | None => match c_bases c with b :: _ => spec_enabled k h b | [] => false end
                       end
           end
  end.
(* does this call drop unknown keys?  drop_extra_fields given, else "not decode_into_subclasses" *)
Definition spec_effdrop (h : hier) (b : string) (dropo : option bool) : bool :=
  match dropo with Some d => d | None => negb (spec_enabled (S (List.length h)) h b) end.

(* ---- flat data: integer payloads only ---- *)
Definition flat_class (c : cdecl) : bool := forallb (fun f => match f_ty f with TInt => true | _ => false end) (c_fields c).
Fixpoint flat_fields (fs : vfields) : bool :=
  match fs with VNil => true | VCons _ (VInt _) r => flat_fields r | _ => false end.
Definition flatv (v : value) : bool := match v with VObj _ fs => flat_fields fs | _ => false end.
Fixpoint int_kvs (kvs : sfields) : bool :=
  match kvs with SNil => true | SCons _ (SInt _) r => int_kvs r | _ => false end.

(* the instance of class c that takes every field from the dict when it is there and its default otherwise;
   None = a required field is missing (the constructor must fail) *)
Fixpoint spec_fill (fs : list fdecl) (kvs : sfields) : option vfields :=
  match fs with
  | [] => Some VNil
  | f :: r =>
      match (match sf_get (f_name f) kvs with Some (SInt z) => Some (VInt z) | Some _ => None | None => f_default f end),
            spec_fill r kvs with
      | Some v, Some vs => Some (VCons (f_name f) v vs)
      | _, _ => None
      end
  end.
(* drop_extra_fields=True on flat data: exactly the base, unknown keys dropped *)
Definition spec_drop (b : cdecl) (kvs : sfields) : res value :=
  match spec_fill (c_fields b) kvs with Some vs => Ok (VObj (c_name b) vs) | None => Err (Raise "RuntimeError") end.

(* every integer field of the original that the result also has carries the same value *)
Fixpoint ints_agree (fs fs' : vfields) : bool :=
  match fs with
  | VNil => true
  | VCons k (VInt z) r => match vf_get k fs' with
                          | Some (VInt z') => Z.eqb z z'
                          | Some _ => false
                          | None => true
                          end && ints_agree r fs'
  | VCons _ _ r => ints_agree r fs'
  end.

(* hereditarily identified: v and every object reached from it through dataclass-typed fields is identified at or below
   the class it is loaded through (for a field: its declared type); Lists / Dicts on the way are empty *)
Fixpoint hid (h : hier) (b : string) (v : value) {struct v} : bool :=
  match v with
  | VObj D fs => match find_class h D with
                 | Some d => identified h b d && strs_eq (vf_keys fs) (field_names d) && hid_fields h d fs
                 | None => false
                 end
  | _ => false
  end
with hid_fields (h : hier) (d : cdecl) (fs : vfields) {struct fs} : bool :=
  match fs with
  | VNil => true
  | VCons k v r =>
      match ftype_of d k, v with
      | Some TInt, VInt _ => true
      | Some (TDc b'), VObj _ _ => hid h b' v
      | Some (TList _), VList VNil | Some (TDict _), VDict VNil => true
      | _, _ => false
      end && hid_fields h d r
  end.

(* loading WITHOUT dropping, level by level through the dataclass-typed fields: an identified class comes back as itself,
   any other as a class at/below the loading class with every serialized field; integer fields keep their values *)
Fixpoint spec_nondrop (h : hier) (b : string) (v v' : value) {struct v} : bool :=
  match v, v' with
  | VObj D fs, VObj R fs' =>
      match find_class h D, find_class h R with
      | Some d, Some r =>
          strs_eq (vf_keys fs') (field_names r)
          && (if identified h b d then String.eqb R D else in_cone h b r && has_all r (vf_keys fs))
          && nd_fields h d fs fs'
      | _, _ => false
      end
  | _, _ => false
  end
with nd_fields (h : hier) (d : cdecl) (fs fs' : vfields) {struct fs} : bool :=
  match fs with
  | VNil => true
  | VCons k x r =>
      match x with
      | VInt z => match vf_get k fs' with Some (VInt z') => Z.eqb z z' | _ => false end
      | VObj _ _ => match ftype_of d k, vf_get k fs' with
                    | Some (TDc b'), Some x' => spec_nondrop h b' x x'
                    | _, _ => false
                    end
      | _ => true                                   (* List / Dict items: decoded by the item type's own default *)
      end && nd_fields h d r fs'
  end.

(* ---- the demand on an observed result ---- *)
(* source = an instance v of class D, serialized with save_dc_types=save, loaded through b *)
Definition spec_instance (h : hier) (b : string) (v : value) (save effdrop : bool) (obs : res value) : bool :=
  match v, obs with
  | VObj D fs, Ok v' =>
      if save then value_eqb v' v                    (* the exact classes, at every level, whatever the field sets *)
      else if effdrop then
        match v' with
        | VObj R fs' => match find_class h R with
                        | Some r => strs_eq (vf_keys fs') (field_names r) && ints_agree fs fs' && String.eqb R b
                        | None => false                                                  (* exactly the base *)
                        end
        | _ => false
        end
      else spec_nondrop h b v v' && (negb (hid h b v) || value_eqb v' v)   (* equal to the original when identified *)
  | _, _ => false                                    (* the serialized form of an instance always loads *)
  end.

(* source = a hand-written flat dict without a type entry *)
Definition admissible (h : hier) (b : string) (keys : list string) (effdrop : bool) (R : string) : bool :=
  match find_class h b with
  | None => false
  | Some B => if effdrop || has_all B keys then String.eqb R b else min_superset h b keys R
  end.
Definition missing_required (c : cdecl) (keys : list string) : bool :=
  existsb (fun f => match f_default f with None => negb (str_in (f_name f) keys) | Some _ => false end) (c_fields c).
Definition spec_raw (h : hier) (b : string) (kvs : sfields) (effdrop : bool) (obs : res value) : bool :=
  let keys := sf_keys kvs in
  match obs with
  | Ok (VObj R fs') =>
      admissible h b keys effdrop R
      && match find_class h R with
         | Some r => match spec_fill (c_fields r) kvs with Some vs => vfields_eqb fs' vs | None => false end
         | None => false
         end
  | Ok _ => false
  | Err e =>
      err_eqb e (Raise "RuntimeError")
      && (existsb (fun c => admissible h b keys effdrop (c_name c) && missing_required c keys) h
          || negb (existsb (fun c => admissible h b keys effdrop (c_name c)) h))
  end.

(* source = a hand-written dict whose type entry names t (module-qualified): the named class, or (when the dict has
   keys that class does not know) a class below it; a name that resolves to nothing cannot load *)
Definition spec_named (h : hier) (qualified : cdecl -> string) (t : string) (obs : res value) : bool :=
  match find (fun c => String.eqb (qualified c) t) h, obs with
  | None, Err _ => true
  | None, Ok _ => false
  | Some c, Ok (VObj R _) => match find_class h R with Some r => in_cone h (c_name c) r | None => false end
  | Some _, Ok _ => false
  | Some _, Err _ => true
  end.

(* ---- C14_dc_types: the inputs on which the type entries reach every dataclass ---- *)
(* no dataclass sits inside a List[..]/Dict[..] value *)
Fixpoint dc_only (v : value) : bool :=
  match v with
  | VInt _ => true
  | VObj _ fs => dc_only_fields fs
  | VList VNil | VDict VNil => true
  | VList _ | VDict _ => false
  end
with dc_only_fields (fs : vfields) : bool :=
  match fs with VNil => true | VCons _ v r => dc_only v && dc_only_fields r end.

(* the key under which save_dc_types=True stores the class (as documented) *)
Definition SPEC_TYPE_KEY : string := "_type_".
