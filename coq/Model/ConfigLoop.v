(* Model/ConfigLoop.v — save() followed by config_path: what a field value becomes on its way
     instance --to_dict/encode--> document --json|yaml|pickle file--> read_file --> DataclassWrapper.set_default
     --> FieldWrapper.default --> argparse's handling of an option that does not occur --> FieldWrapper.postprocess
     --> constructor argument.
   Faithful, defects included: `None` read from the file is FieldWrapper's "unset" sentinel, and the items of a list read from the
   file are never converted.  The encode registrations, the file-suffix table and the enum-default conversion are parameters,
   regenerated from the source into Gen/FactsConfigLoop.v.  Definitions only.
   Reused from Model/Leaf.v: ty, value, conv/convert, arg_options (the action's type= converter), postprocess. *)
From SPV Require Export Base.Str Model.Leaf Model.LeafSpec.   (* LeafSpec: value_eqb (Python == on values) *)

(* ---------- what save() hands to json.dump / yaml.dump / pickle.dump for one field ---------- *)
Inductive prim :=
| PInt (z : Z) | PFlt (neg : bool) (ip : Z) (frac : string) | PStr (s : string) | PBool (b : bool) | PNull
| PList (ps : list prim)
| PObj (v : value).            (* encode's fallback: copy.deepcopy(obj), the Python object itself *)

(* bodies of the functions registered on the singledispatch function `encode` *)
Inductive erule :=
| ESeq        (* list(map(encode, obj)) *)
| EMap        (* encode_dict *)
| EFspath     (* obj.__fspath__() *)
| EVars       (* encode(vars(obj)) *)
| EName.      (* obj.name *)

Inductive codec := CJson | CYaml | CPickle | COther (cls : string).

(* ---------- wiring read off the source (Gen/FactsConfigLoop.v), interpreted below ---------- *)
(* FieldWrapper.postprocess: the if/elif chain, test and body of every arm *)
Inductive pp_test := PtEnum | PtChoice | PtTuple | PtBool | PtList | PtSubparser | PtOptional | PtNotBuiltin.
Inductive pp_rule :=
| PrEnumByName                  (* if isinstance(raw, str): raw = self.type[raw]; return raw *)
| PrChoice                      (* choice_dict lookup (Literal fields: outside this grammar) *)
| PrTuple (none_guard : bool)   (* if [raw is not None and] not isinstance(raw, tuple): return tuple(raw); otherwise falls to the end *)
| PrIdentity                    (* return raw *)
| PrListOfTuple                 (* tuple -> list(raw), anything else as it is *)
| PrOptTuple                    (* Optional[Tuple..] and a list -> tuple(raw); otherwise falls to the end *)
| PrCallType.                   (* try: return self.type(raw) except Exception: return raw *)
(* FieldWrapper.default: the chain of sources *)
Inductive dsrc := DManual | DSubgroup | DParent | DFieldDefault | DFactory | DStoreTrue | DStoreFalse.
(* _create_dataclass_instance: conjuncts of the "this Optional member is None" guard *)
Inductive gtest := GOptional | GDefaultNone | GDefaultsAllNone.
(* parse_known_args: where config files are applied from, in order *)
Inductive csrc := CCtor | CCli.
Inductive nmode := NmDefault | NmWithoutRoot | NmOther (name : string).
Definition nmode_eqb (a b : nmode) : bool :=
  match a, b with
  | NmDefault, NmDefault | NmWithoutRoot, NmWithoutRoot => true
  | NmOther x, NmOther y => String.eqb x y
  | _, _ => false
  end.
(* how the file reaches the parser, and which entry point builds the parser *)
Inductive route := RCtor | RCli.
Inductive api := AParse | AParser.

(* the Enum classes a case declares with a mixed-in data type.  A class is named by its member list (as in Leaf.v's TEnum).
   IntEnum / (str, Enum) members ARE ints / strs: some are falsy, and a str-mixin member passes argparse's isinstance(default, str) *)
Record enum_env := mkenv {
  e_str : list (list string);            (* member lists of the (str, Enum) classes *)
  e_falsy : list (list string * string)  (* (class, member whose value is falsy: 0, '') *)
}.
Definition strs_same (a b : list string) : bool :=
  (fix eq l1 l2 := match l1, l2 with [], [] => true | x :: r1, y :: r2 => String.eqb x y && eq r1 r2 | _, _ => false end) a b.
Definition is_str_enum (E : enum_env) (ms : list string) : bool := existsb (strs_same ms) (e_str E).
Definition is_falsy_member (E : enum_env) (ms : list string) (m : string) : bool :=
  existsb (fun p => strs_same ms (fst p) && String.eqb m (snd p)) (e_falsy E).
(* the field's annotation is a (str, Enum) class or Optional of one *)
Definition is_str_member (E : enum_env) (t : ty) : bool :=
  match t with TEnum ms | TOpt (TEnum ms) => is_str_enum E ms | _ => false end.

Record wiring := mkwiring {
  w_pp : list (pp_test * pp_rule);      (* postprocess chain *)
  w_dchain : list dsrc;                 (* FieldWrapper.default chain *)
  w_wdr : bool;                         (* DataclassWrapper.set_default stores a dict as the wrapper's own default *)
  w_oguard : list gtest;                (* _create_dataclass_instance guard *)
  w_csources : list csrc;               (* parse_known_args: config sources applied before set-up *)
  w_parse_nm : nmode;                   (* parse(): default nested_mode *)
  w_parser_nm : nmode;                  (* ArgumentParser(): default nested_mode *)
  w_reroot : list nmode;                (* set_defaults re-roots the file under the (single) destination for these modes *)
  w_enum_named_if_not_none : bool;      (* get_arg_options, enum arm: the default is named `if self.default is not None` (true) / `if self.default` (false) *)
  w_member_passthrough : bool           (* parse_enum: a value that already is a member is returned as it is *)
}.

Fixpoint assoc {A} (k : string) (l : list (string * A)) : option A :=
  match l with
  | [] => None
  | (k', a) :: r => if String.eqb k k' then Some a else assoc k r
  end.

(* a document: what to_dict returns / what read_file returns *)
Inductive doc := DPrim (p : prim) | DDict (kvs : list (string * doc)).

(* a dataclass definition (leaf = command-line field with its annotation and definition default; None = no default) and an instance *)
Inductive schema := SLeaf (t : ty) (defn : option value) | SNode (fs : list (string * schema))
                  | SOpt (s : schema).     (* a member `m: Optional[Class] = None`; s is the SNode of Class; the instance holds ILeaf VNone or an INode *)
Inductive inst := ILeaf (v : value) | INode (fs : list (string * inst))
                | IOpaque (what : string).    (* an observation the harness could not express; never produced by the model *)

(* json.load / yaml.safe_load / pickle.load: the Python object a primitive is read back as *)
Fixpoint decode (p : prim) : value :=
  match p with
  | PInt z => VInt z | PFlt n i f => VFlt n i f | PStr s => VStr s | PBool b => VBool b | PNull => VNone
  | PList ps => VList (map decode ps)
  | PObj v => v
  end.

(* json and yaml.safe_load only carry primitives; pickle carries any object *)
Fixpoint plain (p : prim) : bool :=
  match p with PObj _ => false | PList ps => forallb plain ps | _ => true end.
Fixpoint doc_plain (d : doc) : bool :=
  match d with
  | DPrim p => plain p
  | DDict kvs => forallb (fun kv => doc_plain (snd kv)) kvs
  end.

(* dump to the file, load it back *)
Definition transport (c : codec) (d : doc) : res doc :=
  match c with
  | CPickle => Ok d
  | CJson => if doc_plain d then Ok d else Err (Raise "TypeError")              (* json.dump: not JSON serializable *)
  | CYaml => if doc_plain d then Ok d else Err (Raise "ConstructorError")       (* yaml.dump tags the object, safe_load refuses the tag *)
  | COther _ => Err (Raise "OutOfModel")
  end.

(* the value handed to FieldWrapper.postprocess, as Leaf.v's `raw` *)
Definition to_raw (x : value) : raw :=
  match x with VNone => RNone | VList vs => RMany vs | _ => ROne x end.

(* the members of one class, in definition order: each takes the entry of the section that carries its name *)
Section LoadFields.
  Variable load : schema -> option doc -> res inst.
  Variable kvs : list (string * doc).
  Fixpoint load_fields (l : list (string * schema)) : res (list (string * inst)) :=
    match l with
    | [] => Ok []
    | (n, s') :: r =>
        match load s' (assoc n kvs) with
        | Err e => Err e
        | Ok x => match load_fields r with Err e => Err e | Ok xs => Ok ((n, x) :: xs) end
        end
    end.
End LoadFields.

(* the first member (definition order) that fails *)
Section FirstErr.
  Variable chk : schema -> option err.
  Fixpoint first_err_fields (l : list (string * schema)) : option err :=
    match l with
    | [] => None
    | (_, s') :: r => match chk s' with Some e => Some e | None => first_err_fields r end
    end.
End FirstErr.

(* two member lists agree name by name and satisfy R member by member *)
Section All2b.
  Context {A B : Type}.
  Variable R : A -> B -> bool.
  Fixpoint all2b (l1 : list (string * A)) (l2 : list (string * B)) : bool :=
    match l1, l2 with
    | [], [] => true
    | (n, a) :: r1, (m, b) :: r2 => String.eqb n m && R a b && all2b r1 r2
    | _, _ => false
    end.
End All2b.

Section WithFacts.
  Variable str2bool : string -> option bool.            (* Gen (FactsBool) *)
  Variable enum_miss_cls : string.                      (* Gen (FactsLeaf) *)
  Variable enc : list (string * erule).                 (* Gen: encode.register(<class>) -> body *)
  Variable exts : list (string * codec).                (* Gen: serializable.extensions *)
  Variable enum_default_as_name : bool.                 (* Gen: get_arg_options turns an Enum default into its name *)
  Variable W : wiring.                                  (* Gen: the tables above *)
  Variable E : enum_env.                                (* per case: the mixed-in Enum classes it declares *)

  (* encode(value): dispatch on the class of the value *)
  Fixpoint encode_cfg (v : value) : prim :=
    match v with
    | VInt z => PInt z | VFlt n i f => PFlt n i f | VStr s => PStr s | VBool b => PBool b | VNone => PNull
    | VEnum m => match assoc "Enum" enc with Some EName => PStr m | _ => PObj v end
    | VPath s => match assoc "PathLike" enc with Some EFspath => PStr s | _ => PObj v end
    | VList vs => match assoc "list" enc with Some ESeq => PList (map encode_cfg vs) | _ => PObj v end
    | VTup vs => match assoc "tuple" enc with Some ESeq => PList (map encode_cfg vs) | _ => PObj v end
    end.

  (* to_dict: nested dataclasses recurse, every other attribute goes through encode *)
  Fixpoint to_dict (x : inst) : doc :=
    match x with
    | ILeaf v => DPrim (encode_cfg v)
    | INode fs => DDict (map (fun kv => (fst kv, to_dict (snd kv))) fs)
    | IOpaque _ => DPrim PNull
    end.

  (* save(obj, path) then read_file(path): get_extension(path) on both sides *)
  Definition file_roundtrip (suffix : string) (d : doc) : res doc :=
    match assoc suffix exts with
    | None => Err (Raise "RuntimeError")
    | Some c => transport c d
    end.

  (* ---------- one field ---------- *)
  (* FieldWrapper.default after set_default(raw): `self._default is not None` decides; otherwise the definition default
     (for a nested field: the attribute of the enclosing member's default instance) *)
  Definition field_default (defn : option value) (from_file : value) : value :=
    (fix go (l : list dsrc) : value :=
       match l with
       | [] => VNone                                                         (* else: default = None *)
       | DManual :: r => match from_file with VNone => go r | _ => from_file end   (* self._default is not None *)
       | DParent :: r | DFieldDefault :: r | DFactory :: r =>                (* the definition default, wherever it is declared *)
           match defn with Some d => d | None => go r end
       | _ :: r => go r                                                      (* subgroups, store_true/store_false: outside this grammar *)
       end) (w_dchain W).

  (* get_arg_options, `elif self.is_enum:` arm: the default of a (non-Optional) Enum field is given to argparse by name *)
  Definition as_argparse_default (t : ty) (d : value) : value :=
    if enum_default_as_name
    then match t, d with
         | TEnum ms, VEnum m =>      (* `if self.default is not None:` (every member) / `if self.default:` (truthy members only) *)
             if negb (w_enum_named_if_not_none W) && is_falsy_member E ms m then d else VStr m
         | _, _ => d
         end
    else d.

  (* argparse, option absent: a default that is a str goes through the action's type=; anything else is used as it is *)
  Definition argparse_default (t : ty) (a : action) (d : value) : res value :=
    match d with
    | VStr s => match a with
                | AStore _ k _ => convert str2bool enum_miss_cls k 0 s
                | ABoolFlag => match str2bool s with Some b => Ok (VBool b) | None => Err (Exit 2) end
                end
    | VEnum m =>
        (* a member of a (str, Enum) class IS a str: it is passed through type= like any str default.  type=str (plain Enum field, reached
           only by a member that was not turned into its name) gives str(member) = "Class.NAME", never a member name; the by-name
           converter of an Optional[Enum] field returns a member as it is (w_member_passthrough), or else looks the member's VALUE up
           among the names and fails (values are assumed not to coincide with names) *)
        if is_str_member E t
        then match t with
             | TEnum _ => Ok (VStr ("." ++ m))
             | _ => if w_member_passthrough W then Ok d else Err (conv_err enum_miss_cls)
             end
        else Ok d
    | _ => Ok d
    end.

  (* FieldWrapper.postprocess on a Python object: the first arm of the regenerated chain whose test holds for the annotation runs its
     body; a body that does not return falls to the final `return raw_parsed_value` *)
  Definition pp_test_holds (c : pp_test) (t : ty) : bool :=
    match c, t with
    | PtEnum, TEnum _ | PtChoice, TLit _ | PtTuple, TTupFix _ | PtTuple, TTupVar _ | PtBool, TBool | PtList, TList _
    | PtOptional, TOpt _ => true
    | PtNotBuiltin, (TInt | TFloat | TStr | TBool) => false      (* utils.builtin_types *)
    | PtNotBuiltin, _ => true
    | _, _ => false
    end.

  Definition pp_run (r : pp_rule) (t : ty) (x : value) : res value :=
    match r with
    | PrEnumByName => match t, x with
                      | TEnum ms, VStr s => if str_in s ms then Ok (VEnum s) else Err (Raise "KeyError")
                      | _, _ => Ok x
                      end
    | PrChoice => Ok (postprocess t (to_raw x))
    | PrTuple g => match x with
                   | VNone => if g then Ok VNone else Err (Raise "TypeError")        (* tuple(None) *)
                   | VList vs => Ok (VTup vs)
                   | VTup _ => Ok x
                   | _ => Err (Raise "OutOfModel")                                    (* tuple(<scalar>) *)
                   end
    | PrIdentity => Ok x
    | PrListOfTuple => match x with VTup vs => Ok (VList vs) | _ => Ok x end
    | PrOptTuple => match t, x with
                    | TOpt (TTupFix _), VList vs | TOpt (TTupVar _), VList vs => Ok (VTup vs)
                    | _, _ => Ok x
                    end
    | PrCallType => match t, x with TPath, VStr s => Ok (VPath s) | _, _ => Ok x end   (* Path(str); Path(Path) is the same path *)
    end.

  Definition post_value (t : ty) (x : value) : res value :=
    (fix go (l : list (pp_test * pp_rule)) : res value :=
       match l with
       | [] => Ok x
       | (c, r) :: rest => if pp_test_holds c t then pp_run r t x else go rest
       end) (w_pp W).

  (* from the action's default to the constructor argument (the option does not occur on the command line) *)
  Definition finish_default (t : ty) (d : value) : res value :=
    bind (argparse_default t (arg_options t) (as_argparse_default t d)) (post_value t).

  (* the constructor argument of a field of type t with definition default defn when the file holds p for it *)
  Definition value_via_config (t : ty) (defn : option value) (p : prim) : res value :=
    let d := field_default defn (decode p) in
    match d with
    | VNone => match t, defn with
               | TOpt _, _ => finish_default t d
               | _, Some VNone => finish_default t d     (* `x: T = None` is treated like Optional[T] *)
               | _, _ => Err (Exit 2)                    (* a required option that does not occur *)
               end
    | _ => finish_default t d
    end.

  (* the fields of an Optional member that is None are still processed (none of them is required): each gets its definition
     default, or None; without the None guard, postprocess of a Tuple field calls tuple(None) *)
  Fixpoint absent_err (s : schema) : option err :=
    match s with
    | SLeaf t defn => match finish_default t (field_default defn VNone) with Ok _ => None | Err e => Some e end
    | SNode fs => first_err_fields absent_err fs
    | SOpt s' => absent_err s'
    end.

  (* the guard of _create_dataclass_instance, for a member of Optional type whose definition default is None *)
  Definition guard_holds (has_section : bool) : bool :=
    forallb (fun g => match g with
                      | GOptional | GDefaultsAllNone => true
                      | GDefaultNone => negb (has_section && w_wdr W)
                      end) (w_oguard W).

  (* `arg_value != default_value` over wrapper.fields: the parsed (postprocessed) value against FieldWrapper.default *)
  Definition leaf_at_default (t : ty) (defn : option value) (p : prim) : bool :=
    let d := field_default defn (decode p) in
    match finish_default t d with Ok a => value_eqb a d | Err _ => true end.
  Definition fields_at_defaults (s : schema) (kvs : list (string * doc)) : bool :=
    match s with
    | SNode fs => forallb (fun kv => match snd kv with
                                     | SLeaf t defn => leaf_at_default t defn (match assoc (fst kv) kvs with Some (DPrim p) => p | _ => PNull end)
                                     | _ => true
                                     end) fs
    | _ => true
    end.

  (* ---------- a tree of dataclasses: DataclassWrapper.set_default distributes the document by field name ---------- *)
  Fixpoint load_cfg (s : schema) (d : option doc) : res inst :=
    match s with
    | SLeaf t defn =>
        match d with
        | None => bind (value_via_config t defn PNull) (fun v => Ok (ILeaf v))
        | Some (DPrim p) => bind (value_via_config t defn p) (fun v => Ok (ILeaf v))
        | Some (DDict _) => Err (Raise "OutOfModel")
        end
    | SNode fs =>
        let kvs := match d with Some (DDict kvs) => Some kvs | None | Some (DPrim PNull) => Some [] | _ => None end in
        match kvs with
        | None => Err (Raise "OutOfModel")
        | Some kvs =>
            if negb (forallb (fun kv => str_in (fst kv) (map fst fs)) kvs) then Err (Raise "RuntimeError")   (* "... are not fields of ..." *)
            else bind (load_fields load_cfg kvs fs) (fun xs => Ok (INode xs))
        end
    | SOpt s' =>
        (* _create_dataclass_instance: the member is None when the (regenerated) guard holds and every plain field's parsed value
           equals the field's default - always so on an empty command line when the file has no section (set_default(None), or no
           entry); a section in the file becomes the wrapper's own default (set_default(dict)) when w_wdr, which defeats the guard *)
        match d with
        | None | Some (DPrim PNull) => match absent_err s' with Some e => Err e | None => Ok (ILeaf VNone) end
        | Some (DDict kvs) =>
            if guard_holds true && fields_at_defaults s' kvs
            then match load_cfg s' d with Err e => Err e | Ok _ => Ok (ILeaf VNone) end
            else load_cfg s' d
        | Some (DPrim _) => Err (Raise "OutOfModel")
        end
    end.

  (* x.save(path) / save(x, path), then parse(cls, config_path=path, args=[]) (un-rooted layout) *)
  Definition config_loop (suffix : string) (s : schema) (x : inst) : res inst :=
    bind (file_roundtrip suffix (to_dict x)) (fun d => load_cfg s (Some d)).

  (* the four ways of handing the file to a parser.  parse(cls, ...) is given the un-rooted file, ArgumentParser + add_arguments(cls,
     dest) the file keyed by dest; parse_known_args applies the constructor's files and the --config_path files (whose default is the
     constructor's) before set-up; set_defaults re-roots the document under the single destination for the listed nested modes and
     hands each destination its section (no section: the definition defaults) *)
  Definition applies (via : route) : bool :=
    let has c := existsb (fun x => match x, c with CCtor, CCtor | CCli, CCli => true | _, _ => false end) (w_csources W) in
    match via with RCtor => has CCtor || has CCli | RCli => has CCli end.
  Definition rerooted (a : api) : bool :=
    existsb (nmode_eqb (match a with AParse => w_parse_nm W | AParser => w_parser_nm W end)) (w_reroot W).
  Definition config_run (via : route) (a : api) (dest suffix : string) (s : schema) (x : inst) : res inst :=
    let file := match a with AParse => to_dict x | AParser => DDict [(dest, to_dict x)] end in
    bind (file_roundtrip suffix file)
         (fun d => if negb (applies via) then load_cfg s None else
                   match (if rerooted a then DDict [(dest, d)] else d) with
                   | DDict kvs => load_cfg s (assoc dest kvs)
                   | DPrim _ => Err (Raise "OutOfModel")
                   end).
End WithFacts.
