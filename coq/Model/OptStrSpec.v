(* Model/OptStrSpec.v — what C03 and C10 demand of the registered option strings, as executable predicates
   over what is OBSERVED (the option strings the parser registered), independent of how they were computed. *)
From SPV Require Export Base.Str Model.OptStr.

Fixpoint is_suffix_of (ws full : list string) : bool :=
  if Nat.eqb (List.length ws) (List.length full) then
    (fix eq l1 l2 := match l1, l2 with
                     | [], [] => true
                     | x :: r1, y :: r2 => String.eqb x y && eq r1 r2
                     | _, _ => false end) ws full
  else match full with [] => false | _ :: r => is_suffix_of ws r end.

Definition body_words (o : string) : list string := split_dot (lstrip_dashes o).

Definition count_name (n : string) (fs : list fw) : nat :=
  List.length (filter (fun f => String.eqb (name f) n) fs).

(* one field's registered options satisfy the naming clauses of C03 (no user-supplied prefixes) *)
Definition naming_ok (explicit : bool) (fs : list fw) (f : fw) (opts : list string) : bool :=
  let full := (path f ++ [name f])%list in
  forallb (fun o =>
    let w := body_words o in
    negb (Nat.eqb (List.length w) 0)
    && is_suffix_of w full
    && (if explicit then Nat.eqb (List.length w) 1 || Nat.eqb (List.length w) (List.length full) else true)
    && (if Nat.eqb (count_name (name f) fs) 1 then Nat.eqb (List.length w) 1 else true)) opts.

Fixpoint naming_all (explicit : bool) (all fs : list fw) (obs : list (list string)) : bool :=
  match fs, obs with
  | [], [] => true
  | f :: r, o :: ro => naming_ok explicit all f o && naming_all explicit all r ro
  | _, _ => false
  end.

(* every option string, when passed, changed exactly the leaf it belongs to *)
Fixpoint effects_ok (fs : list fw) (obs : list (list string)) (effects : list (string * (bool * list string))) : bool :=
  match fs, obs with
  | [], [] => true
  | f :: r, os :: ro =>
      forallb (fun o => match find (fun e => String.eqb (fst e) o) effects with
                        | Some (_, (true, [leaf])) => String.eqb leaf (dest f)
                        | _ => false end) os
      && effects_ok r ro effects
  | _, _ => false
  end.
