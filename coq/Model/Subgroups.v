(* Model/Subgroups.v — executable model of subgroup fields (simple_parsing.subgroups) as the parser treats them:
   ArgumentParser._resolve_subgroups (iterative rounds over a throw-away argparse parser), the final parse of the
   main parser, _remove_subgroups_from_namespace, and the bottom-up construction of the value; plus the
   Union-of-dataclasses sub-command fields (FieldWrapper.add_subparsers).  Definitions only.

   Option SPELLINGS are not predicted here: `optab` (written option string -> destination) is an input.  In the
   correspondence it is read from the implementation's field wrappers case by case; in the theorems it is
   universally quantified.  What the model decides is WHICH destinations are registered in which round and in
   the final parser, which key each subgroup gets, and what value is built.

   The booleans of `Section Facts` are regenerated from the source into Gen/FactsSubgroups.v. *)
From SPV Require Export Base.Str.

Definition path := list string.                 (* a destination, split at the dots: ["c"; "model"; "lr"] *)
Definition tok := (string * string)%type.       (* one `--opt value` / `--opt=value` occurrence *)
Definition optab := list (string * path).       (* registered spelling -> destination *)

Fixpoint path_eqb (a b : path) : bool :=
  match a, b with
  | [], [] => true
  | x :: r, y :: s => String.eqb x y && path_eqb r s
  | _, _ => false
  end.
Definition snoc (p : path) (f : string) : path := (p ++ [f])%list.
Definition path_in (p : path) (l : list path) : bool := existsb (path_eqb p) l.

(* how the chosen table entry was written: a dataclass type, functools.partial(type, **ov), a frozen instance *)
Inductive source := SType | SPartial (ov : list (string * Z)) | SInst (lv : list (string * Z)).

(* A dataclass with int leaves (name, default) and subgroup fields.  A subgroup field is unresolved (SUn: declared
   default key, table) or resolved (SRe: the same, plus the chosen key, how its entry was written, and the entry's
   dataclass with its own subgroup fields in turn unresolved/resolved).  A declared tree has no SRe. *)
Inductive dc := Dc (cname : string) (leaves : list (string * Z)) (subs : sgfs)
with sgfs :=
| SNil
| SUn (f : string) (dflt : option string) (tbl : alts) (rest : sgfs)
| SRe (f : string) (dflt : option string) (tbl : alts) (key : string) (src : source) (n : dc) (rest : sgfs)
with alts :=
| ANil
| ACons (key : string) (src : source) (d : dc) (rest : alts).

(* the value that is built *)
Inductive val := V (cname : string) (leaves : list (string * Z)) (subs : vals)
with vals := VNil | VCons (f : string) (v : val) (rest : vals).

Fixpoint keys (t : alts) : list string :=
  match t with ANil => [] | ACons k _ _ r => k :: keys r end.
Fixpoint find_alt (k : string) (t : alts) : option (source * dc) :=
  match t with
  | ANil => None
  | ACons k' s d r => if String.eqb k' k then Some (s, d) else find_alt k r
  end.

Fixpoint assoc_leaf (n : string) (l : list (string * Z)) : option Z :=
  match l with [] => None | (m, v) :: r => if String.eqb m n then Some v else assoc_leaf n r end.
Definition override (l ov : list (string * Z)) : list (string * Z) :=
  map (fun nd => (fst nd, match assoc_leaf (fst nd) ov with Some v => v | None => snd nd end)) l.

(* int(): the harness writes leaf values as plain decimal digit strings or as words *)
Fixpoint parse_int_acc (s : string) (acc : Z) : option Z :=
  match s with
  | EmptyString => Some acc
  | String a r => if is_digit a then parse_int_acc r (acc * 10 + Z.of_nat (ascii_nat a - 48))%Z else None
  end.
Definition parse_int (s : string) : option Z :=
  match s with EmptyString => None | _ => parse_int_acc s 0 end.

Definition is_some {A} (o : option A) : bool := match o with Some _ => true | None => false end.

(* ---------- argparse's reading of one written option among the registered spellings ----------
   exact match first; otherwise, when abbreviations are allowed and the option starts with two dashes, the
   unique registered spelling it is a prefix of (several: "ambiguous option"; none: unrecognised) *)
Definition exact (es : optab) (o : string) : option path :=
  match filter (fun e => String.eqb (fst e) o) es with e :: _ => Some (snd e) | [] => None end.
Definition classify (abbrev : bool) (es : optab) (o : string) : option path :=
  match exact es o with
  | Some p => Some p
  | None => if abbrev && prefixb "--" o then
              match filter (fun e => prefixb o (fst e)) es with [e] => Some (snd e) | _ => None end
            else None
  end.
Definition restrict (es : optab) (reg : list path) : optab := filter (fun e => path_in (snd e) reg) es.
(* the values written for destination p, in order *)
Definition given (abbrev : bool) (es : optab) (argv : list tok) (p : path) : list string :=
  map snd (filter (fun t => match classify abbrev es (fst t) with Some q => path_eqb q p | None => false end) argv).

(* required / default; with choices=keys (`validates`) every occurrence is validated; the last one wins *)
Definition pick_v (validates : bool) (dflt : option string) (ks : list string) (g : list string) : res string :=
  if negb validates || forallb (fun k => str_in k ks) g then
    match last_opt g with
    | Some k => Ok k
    | None => match dflt with Some k => Ok k | None => Err (Exit 2) end
    end
  else Err (Exit 2).
Definition pick := pick_v true.

(* what is known about the subgroup destinations of a (partially resolved) tree, in traversal order *)
Record sginfo := mkinfo { i_path : path; i_dflt : option string; i_keys : list string; i_key : option string }.

Fixpoint sg_info_dc (p : path) (d : dc) : list sginfo :=
  match d with Dc _ _ s => sg_info p s end
with sg_info (p : path) (s : sgfs) : list sginfo :=
  match s with
  | SNil => []
  | SUn f dflt t r => mkinfo (snoc p f) dflt (keys t) None :: sg_info p r
  | SRe f dflt t k _ n r => mkinfo (snoc p f) dflt (keys t) (Some k) :: (sg_info_dc (snoc p f) n ++ sg_info p r)
  end.

(* the choices recorded in a tree: (destination, key) *)
Definition chosen_of (info : list sginfo) : list (path * string) :=
  flat_map (fun i => match i_key i with Some k => [(i_path i, k)] | None => [] end) info.

Fixpoint leaf_paths_dc (p : path) (d : dc) : list path :=
  match d with Dc _ l s => (map (fun nd => snoc p (fst nd)) l ++ leaf_paths p s)%list end
with leaf_paths (p : path) (s : sgfs) : list path :=
  match s with
  | SNil => []
  | SUn _ _ _ r => leaf_paths p r
  | SRe f _ _ _ _ n r => leaf_paths_dc (snoc p f) n ++ leaf_paths p r
  end.

Fixpoint unres_dc (d : dc) : bool :=
  match d with Dc _ _ s => unres s end
with unres (s : sgfs) : bool :=
  match s with
  | SNil => false
  | SUn _ _ _ _ => true
  | SRe _ _ _ _ _ n r => unres_dc n || unres r
  end.

(* nesting depth of what is still unresolved = number of rounds still to run (the loop's measure) *)
Fixpoint depth_dc (d : dc) : nat :=
  match d with Dc _ _ s => depth_sg s end
with depth_sg (s : sgfs) : nat :=
  match s with
  | SNil => 0
  | SUn _ _ t r => Nat.max (S (depth_alts t)) (depth_sg r)
  | SRe _ _ _ _ _ n r => Nat.max (depth_dc n) (depth_sg r)
  end
with depth_alts (t : alts) : nat :=
  match t with
  | ANil => 0
  | ACons _ _ d r => Nat.max (depth_dc d) (depth_alts r)
  end.

Section Facts.
  Variable sub_abbrev : bool.      (* allow_abbrev of the throw-away subgroup parser *)
  Variable main_abbrev : bool.     (* allow_abbrev of the main parser (argparse's default) *)
  Variable partial_kw : bool.      (* DataclassWrapper: keywords of a functools.partial become the field defaults *)
  Variable inst_default : bool.    (* a chosen frozen instance is passed on as the wrapper's `default` (and the
                                      constructor is partial(dataclasses.replace, instance)) *)
  Variable preset_wins : bool.     (* FieldWrapper.default: a default pushed down from the parent's default instance
                                      is looked at before `subgroup_default` *)
  Variable loop_breaks : bool.     (* the itertools.count() loop stops as soon as no subgroup is unresolved *)
  Variable report_ns : bool.       (* namespace.subgroups[dest] is read back from the parsed namespace *)
  Variable validates : bool.       (* the subgroup option carries choices=<keys>: fields.choice() -> field(choices=..) ->
                                      metadata['custom_args'], which FieldWrapper.arg_options lays over the generated options *)
  Variable main_has_sg : bool.     (* DataclassWrapper.add_arguments adds the (already resolved) subgroup fields to the
                                      main parser as well *)
  Variable sees_argv : bool.       (* parse_known_args -> _preprocessing -> _resolve_subgroups are handed the command line *)
  Variable bottom_up : bool.       (* _instantiate_dataclasses builds the deepest wrappers first and stores each value
                                      in its parent's constructor arguments *)

  (* the subgroup fields directly inside an entry that was a frozen instance get the instance's attribute
     (a dataclass, not a key) as FieldWrapper._default *)
  Definition presets (src : source) : bool :=
    match src with SInst _ => inst_default && preset_wins | _ => false end.

  (* the assertions made while the round's arguments are added:
     `assert argument_options["default"] is subgroup_field.subgroup_default` when a default key was declared *)
  Fixpoint asserts_dc (preset : bool) (d : dc) : bool :=
    match d with Dc _ _ s => asserts_sg preset s end
  with asserts_sg (preset : bool) (s : sgfs) : bool :=
    match s with
    | SNil => true
    | SUn _ dflt _ r => negb (preset && is_some dflt) && asserts_sg preset r
    | SRe _ _ _ _ src n r => asserts_dc (presets src) n && asserts_sg preset r
    end.

  (* one round: every unresolved subgroup reads its key and exposes the chosen entry's dataclass *)
  Fixpoint round_dc (es : optab) (argv : list tok) (p : path) (d : dc) : res dc :=
    match d with
    | Dc c l s => match round_sg es argv p s with Ok s' => Ok (Dc c l s') | Err e => Err e end
    end
  with round_sg (es : optab) (argv : list tok) (p : path) (s : sgfs) : res sgfs :=
    match s with
    | SNil => Ok SNil
    | SUn f dflt t r =>
        match pick_v validates dflt (keys t) (given sub_abbrev es argv (snoc p f)) with
        | Err e => Err e
        | Ok k =>
            match find_alt k t with
            | None => Err (Raise "AssertionError")            (* assert chosen_subgroup_key in subgroup_dict *)
            | Some (src, n) =>
                match round_sg es argv p r with
                | Ok r' => Ok (SRe f dflt t k src n r')
                | Err e => Err e
                end
            end
        end
    | SRe f dflt t k src n r =>
        match round_dc es argv (snoc p f) n with
        | Err e => Err e
        | Ok n' => match round_sg es argv p r with
                   | Ok r' => Ok (SRe f dflt t k src n' r')
                   | Err e => Err e
                   end
        end
    end.

  (* the throw-away parser knows the options of every subgroup seen so far, and nothing else *)
  Definition round (tb : optab) (argv : list tok) (root : path) (d : dc) : res dc :=
    if asserts_dc false d then round_dc (restrict tb (map i_path (sg_info_dc root d))) argv root d
    else Err (Raise "AssertionError").

  Fixpoint loop (fuel : nat) (tb : optab) (argv : list tok) (root : path) (d : dc) : res dc :=
    match fuel with
    | 0 => Err OutOfFuel
    | S k => match round tb argv root d with
             | Err e => Err e
             | Ok d' => if loop_breaks && negb (unres_dc d') then Ok d' else loop k tb argv root d'
             end
    end.
  (* _resolve_subgroups *)
  Definition seen_argv (argv : list tok) : list tok := if sees_argv then argv else [].
  Definition resolve (fuel : nat) (tb : optab) (argv : list tok) (root : path) (d : dc) : res dc :=
    if negb (unres_dc d) then Ok d else loop fuel tb (seen_argv argv) root d.

  (* ---------- the main parser, _remove_subgroups_from_namespace, construction ---------- *)
  Definition eff_leaves (src : source) (l : list (string * Z)) : list (string * Z) :=
    match src with
    | SType => l
    | SPartial ov => if partial_kw then override l ov else l
    | SInst lv => if inst_default then override l lv else l
    end.

  Definition leafval (es : optab) (argv : list tok) (q : path) (dv : Z) : Z :=
    match last_opt (given main_abbrev es argv q) with
    | Some v => match parse_int v with Some n => n | None => dv end
    | None => dv
    end.

  Fixpoint value_dc (es : optab) (argv : list tok) (p : path) (src : source) (d : dc) : val :=
    match d with
    | Dc c l s => V c (map (fun nd => (fst nd, leafval es argv (snoc p (fst nd)) (snd nd))) (eff_leaves src l))
                    (value_sg es argv p s)
    end
  with value_sg (es : optab) (argv : list tok) (p : path) (s : sgfs) : vals :=
    match s with
    | SNil => VNil
    | SUn _ _ _ r => value_sg es argv p r
    | SRe f _ _ _ src n r => VCons f (value_dc es argv (snoc p f) src n) (value_sg es argv p r)
    end.

  Fixpoint info_at (q : path) (l : list sginfo) : option sginfo :=
    match l with [] => None | i :: r => if path_eqb (i_path i) q then Some i else info_at q r end.

  Definition tok_ok (es : optab) (info : list sginfo) (t : tok) : bool :=
    match classify main_abbrev es (fst t) with
    | None => false                                            (* unrecognized arguments / ambiguous option *)
    | Some q => match info_at q info with
                | Some i => str_in (snd t) (i_keys i)          (* the subgroup option itself: choices *)
                | None => is_some (parse_int (snd t))          (* type=int *)
                end
    end.

  Definition report (es : optab) (argv : list tok) (info : list sginfo) : list (path * string) :=
    flat_map (fun i => match i_key i with
                       | None => []
                       | Some k => [(i_path i,
                                     if report_ns then match last_opt (given main_abbrev es argv (i_path i)) with
                                                       | Some v => v | None => k end
                                     else k)]
                       end) info.

  Definition registered (root : path) (r : dc) : list path :=
    ((if main_has_sg then map i_path (sg_info_dc root r) else []) ++ leaf_paths_dc root r)%list.

  (* a parent built before its children finds no value for them (and the child, later, no parent to store into) *)
  Definition has_sub (d : dc) : bool := match d with Dc _ _ SNil => false | _ => true end.

  Definition final (tb : optab) (argv : list tok) (root : path) (r : dc) : res (val * list (path * string)) :=
    let info := sg_info_dc root r in
    let es := restrict tb (registered root r) in
    if forallb (tok_ok es info) argv then
      if bottom_up || negb (has_sub r) then Ok (value_dc es argv root SType r, report es argv info)
      else Err (Raise "KeyError")
    else Err (Exit 2).

  Definition parse (fuel : nat) (tb : optab) (argv : list tok) (root : path) (d : dc)
    : res (val * list (path * string)) :=
    match resolve fuel tb argv root d with
    | Err e => Err e
    | Ok r => final tb argv root r
    end.

  (* ---------- Union[A, B] fields: one sub-command per member type ----------
     The sub-command token hands the REST of the command line to the member's own parser; how argparse cuts the
     command line there is not modelled: the case comes already cut into before / name / after. *)
  Record cmdfield := mkcmd {
    cf_name : string;                                   (* the field *)
    cf_table : list (string * (string * list (string * Z)));   (* sub-command name -> (class, leaves) *)
    cf_default : option string                          (* default_factory given: the name of its class *)
  }.

  Fixpoint assoc_str {A} (k : string) (l : list (string * A)) : option A :=
    match l with [] => None | (k', v) :: r => if String.eqb k' k then Some v else assoc_str k r end.

  Definition flat_ok (es : list (string * string)) (t : tok) : bool :=
    is_some (classify main_abbrev (map (fun e => (fst e, [snd e])) es) (fst t)) && is_some (parse_int (snd t)).
  Definition flat_val (es : list (string * string)) (argv : list tok) (l : list (string * Z)) : list (string * Z) :=
    let es' := map (fun e => (fst e, [snd e])) es in
    map (fun nd => (fst nd, leafval es' argv [fst nd] (snd nd))) l.

  (* ptab: the parent's spellings (option -> leaf name); stab: the chosen member's spellings *)
  Definition cmd_parse (cname : string) (pleaves : list (string * Z)) (cf : cmdfield)
             (ptab : list (string * string)) (stabs : list (string * list (string * string)))
             (before : list tok) (name : option string) (after : list tok) : res val :=
    if negb (forallb (flat_ok ptab) before) then Err (Exit 2) else
    match name with
    | None =>
        match after with _ :: _ => Err (Exit 2) | [] =>
        match cf_default cf with
        | None => Err (Exit 2)                                       (* the sub-command is required *)
        | Some k => match assoc_str k (cf_table cf) with
                    | None => Err (Raise "KeyError")
                    | Some (c, l) => Ok (V cname (flat_val ptab before pleaves) (VCons (cf_name cf) (V c l VNil) VNil))
                    end
        end end
    | Some k =>
        match assoc_str k (cf_table cf) with
        | None => Err (Exit 2)                                       (* invalid choice *)
        | Some (c, l) =>
            let st := match assoc_str k stabs with Some s => s | None => [] end in
            if forallb (flat_ok st) after
            then Ok (V cname (flat_val ptab before pleaves) (VCons (cf_name cf) (V c (flat_val st after l) VNil) VNil))
            else Err (Exit 2)
        end
    end.
End Facts.

(* ---------- shapes ---------- *)
(* no resolved node anywhere: what a user declares *)
Fixpoint declared_dc (d : dc) : bool :=
  match d with Dc _ _ s => declared_sg s end
with declared_sg (s : sgfs) : bool :=
  match s with
  | SNil => true
  | SUn _ _ t r => declared_alts t && declared_sg r
  | SRe _ _ _ _ _ _ _ => false
  end
with declared_alts (t : alts) : bool :=
  match t with
  | ANil => true
  | ACons _ _ d r => declared_dc d && declared_alts r
  end.

(* subgroups() raises ValueError unless the default key is a key of the table *)
Fixpoint wf_dc (d : dc) : bool :=
  match d with Dc _ _ s => wf_sg s end
with wf_sg (s : sgfs) : bool :=
  match s with
  | SNil => true
  | SUn _ dflt t r => match dflt with Some k => str_in k (keys t) | None => true end && wf_alts t && wf_sg r
  | SRe _ dflt t _ _ n r => match dflt with Some k => str_in k (keys t) | None => true end && wf_alts t && wf_dc n && wf_sg r
  end
with wf_alts (t : alts) : bool :=
  match t with
  | ANil => true
  | ACons _ _ d r => wf_dc d && wf_alts r
  end.

(* Shapes on which the rounds trip over their own assertion (a defect, see C07_crash_refuted): a frozen-instance entry
   whose dataclass has, directly inside, a subgroup field that declares a default key.  `preset` = "we are directly
   inside a frozen-instance entry". *)
Definition src_inst (src : source) : bool := match src with SInst _ => true | _ => false end.
Fixpoint crash_free_dc (preset : bool) (d : dc) : bool :=
  match d with Dc _ _ s => crash_free_sg preset s end
with crash_free_sg (preset : bool) (s : sgfs) : bool :=
  match s with
  | SNil => true
  | SUn _ dflt t r => negb (preset && is_some dflt) && crash_free_alts t && crash_free_sg preset r
  | SRe _ _ t _ src n r => crash_free_alts t && crash_free_dc (src_inst src) n && crash_free_sg preset r
  end
with crash_free_alts (t : alts) : bool :=
  match t with
  | ANil => true
  | ACons _ src d r => crash_free_dc (src_inst src) d && crash_free_alts r
  end.

(* the written options, read exactly: the values written for destination q *)
Definition xgiven (tb : optab) (argv : list tok) (q : path) : list string :=
  map snd (filter (fun t => match exact tb (fst t) with Some q' => path_eqb q' q | None => false end) argv).
(* no written option is a proper prefix of a spelling in the table (so nothing can be read as an abbreviation) *)
Definition plain (tb : optab) (argv : list tok) : bool :=
  forallb (fun t => forallb (fun e => implb (prefixb (fst t) (fst e)) (String.eqb (fst t) (fst e))) tb) argv.

(* the same, relative to what IS registered: every written option is either a registered spelling (exact match wins)
   or not a prefix of any registered spelling.  `no_abbrev` says so about the main parser of a completed set-up. *)
Definition plain_for (tb : optab) (reg : list path) (argv : list tok) : bool :=
  let es := restrict tb reg in
  forallb (fun t => is_some (exact es (fst t)) || forallb (fun e => negb (prefixb (fst t) (fst e))) es) argv.

(* forget the choices *)
Fixpoint erase_sg (s : sgfs) : sgfs :=
  match s with
  | SNil => SNil
  | SUn f dflt t r => SUn f dflt t (erase_sg r)
  | SRe f dflt t _ _ _ r => SUn f dflt t (erase_sg r)
  end.
Definition erase_dc (d : dc) : dc := match d with Dc c l s => Dc c l (erase_sg s) end.
