(* Model/CoexistSpec.v — what property C09 demands, judged on two observed answers:
     twin : what argparse.ArgumentParser answered for the same declarations (parents included) plus stand-ins
            for the dataclass options,
     sp   : what simple_parsing.ArgumentParser answered,
   for the same argv.  Nothing here refers to how simple_parsing is written. *)
From SPV Require Export Base.Str Model.Coexist.

Definition strs_same (a b : list string) : bool :=
  (fix go l1 l2 := match l1, l2 with
                   | [], [] => true
                   | x :: r1, y :: r2 => String.eqb x y && go r1 r2
                   | _, _ => false end) a b.
Definition opt_nval_eqb (a b : option nval) : bool :=
  match a, b with Some x, Some y => nval_eqb x y | None, None => true | _, _ => false end.

(* the entries argparse produced for the plain declarations: everything but the stand-ins' destinations *)
Definition plain_keys_of (standins : list string) (tns : nsp) : list string :=
  filter (fun k => negb (str_in k standins)) (keys tns).

Definition overlap (a b : list string) : bool := existsb (fun x => str_in x b) a.

(* read off the forest: are subgroups used; the destinations registered with default=argparse.SUPPRESS *)
Definition has_subgroups (forest : list wrapper) : bool :=
  existsb (fun w => existsb f_subgroup (w_all w)) forest.
Definition sup_top_dests (forest : list wrapper) : list string :=
  flat_map w_dests (filter w_suppress (top_wrappers forest)).

(* declared  : destinations of the plain declarations (own and parents', set_defaults keys included)
   standins  : destinations of the stand-in declarations (= of the generated dataclass options)
   tops      : the add_arguments destinations
   sup_tops  : those registered with default=argparse.SUPPRESS (may legitimately be absent)
   has_sg    : subgroups are used *)
Definition spec_run (declared standins tops sup_tops : list string) (has_sg : bool)
           (twin sp : res (nsp * list string)) : bool :=
  let extra := (tops ++ (if has_sg then ["subgroups"] else []))%list in
  if overlap declared extra then true                              (* names not disjoint: the property is silent *)
  else
  match twin, sp with
  | Err e, Err e' => err_eqb e e'                                  (* same reject decision / exit status *)
  | Err _, Ok _ | Ok _, Err _ => false
  | Ok (tns, tex), Ok (sns, sex) =>
      let pk := plain_keys_of standins tns in
      if overlap pk extra then true                                (* (a pre-populated namespace may collide too) *)
      else
        strs_same tex sex                                          (* same leftovers *)
        && forallb (fun k => opt_nval_eqb (lookup k tns) (lookup k sns)) pk     (* same plain entries *)
        && forallb (fun k => str_in k (pk ++ extra)) (keys sns)                 (* nothing else: no dotted dest leaks *)
        && forallb (fun k => mem k sns)
             (filter (fun k => negb (str_in k sup_tops)) extra)                 (* one attribute per destination *)
        && forallb (fun k => opt_nval_eqb (lookup k sns) (Some NInst))
             (filter (fun k => negb (str_in k sup_tops)) tops)                  (* ... holding the dataclass instance *)
  end.

(* add_argument_group in argparse: the keyword wins whenever it is passed (kwargs.setdefault) *)
Definition ap_forward (o : gover) (parser_v : string) : string :=
  match o with GOmitted => parser_v | GGiven _ v => v end.
Definition ap_group (p : gset) (o : gov) : gset :=
  mkgset (ap_forward (o_prefix o) (g_prefix p)) (ap_forward (o_default o) (g_default p)) (ap_forward (o_handler o) (g_handler p)).
Definition gset_eqb (a b : gset) : bool :=
  String.eqb (g_prefix a) (g_prefix b) && String.eqb (g_default a) (g_default b) && String.eqb (g_handler a) (g_handler b).
