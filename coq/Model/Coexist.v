(* Model/Coexist.v — executable model of how simple_parsing.ArgumentParser coexists with plain argparse
   declarations (property C09):
     parse_known_args  =  post (AP (actions) argv)
   where AP is *argparse itself* (an arbitrary function here; the correspondence plugs in what the real
   argparse.ArgumentParser answered), `actions` is what the parser has registered when super().parse_known_args
   runs (own add_argument/set_defaults declarations, the parents' actions iff the constructor/set-up installs
   them, then one action per dataclass field), and `post` is _postprocessing (_remove_subgroups_from_namespace,
   _fill_constructor_arguments_with_fields, _instantiate_dataclasses) seen through the namespace only.
   The places the source decides something are PARAMETERS, regenerated into Gen/FactsCoexist.v:
     wskips   the `continue` tests of the field loop of DataclassWrapper.__init__      (which fields get a FieldWrapper)
     sskips   the `continue` tests of the field loop of DataclassWrapper.add_arguments (which get an action)
     pskips   the `continue` tests of the loops of _fill_constructor_arguments_with_fields (which are NOT popped)
     sg_first whether _postprocessing removes the subgroup choices before filling
     coll_err / coll_dfl_ok   the collision rule of _instantiate_dataclasses
     site     where the parents' actions are installed (never / constructor / set-up)
     sgsel    the test(s) by which _get_subgroup_fields selects the subgroup-choice fields
     sup_none whether a SUPPRESS-ed wrapper without constructor arguments yields None (no attribute)
     routes   whether set_defaults hands an entry for an existing wrapper's destination to the wrapper (kwargs.pop)
     fwd      how add_argument_group forwards prefix_chars / argument_default / conflict_handler. *)
From SPV Require Export Base.Str.

(* ---------- namespaces: association lists dest -> value ---------- *)
Inductive nval :=
| NV (repr : string)   (* a plain value, by its canonical text *)
| NInst                (* what post-processing stores at a dataclass destination *)
| NSub.                (* the `subgroups` dict *)
Definition nsp := list (string * nval).

Definition nval_eqb (a b : nval) : bool :=
  match a, b with
  | NV x, NV y => String.eqb x y
  | NInst, NInst | NSub, NSub => true
  | _, _ => false
  end.

Definition keys (n : nsp) : list string := map fst n.
Definition mem (k : string) (n : nsp) : bool := str_in k (keys n).
Fixpoint lookup (k : string) (n : nsp) : option nval :=
  match n with [] => None | (k', v) :: r => if String.eqb k' k then Some v else lookup k r end.
(* delattr / dict.pop *)
Definition remove (k : string) (n : nsp) : nsp := filter (fun p => negb (String.eqb (fst p) k)) n.
(* setattr: in place when present, appended otherwise *)
Fixpoint set_key (k : string) (v : nval) (n : nsp) : nsp :=
  match n with
  | [] => [(k, v)]
  | (k', x) :: r => if String.eqb k' k then (k', v) :: r else (k', x) :: set_key k v r
  end.
Definition restrict (ks : list string) (n : nsp) : nsp := filter (fun p => str_in (fst p) ks) n.

(* ---------- what a parser has registered ---------- *)
Inductive akind :=
| KOpt | KPos            (* optional | positional *)
| KDefault               (* a set_defaults entry given while no dataclass wrapper has that destination *)
| KRouted.               (* a set_defaults entry for the destination of an EXISTING wrapper *)
Record action := mkact { a_dest : string; a_kind : akind }.
(* ArgumentParser.set_defaults: `routes` = entries for existing wrappers are handed to the wrapper (kwargs.pop) and
   never reach parser._defaults *)
Definition is_default (routes : bool) (a : action) : bool :=
  match a_kind a with KDefault => true | KRouted => negb routes | _ => false end.
(* the keys of parser._defaults *)
Definition default_keys (routes : bool) (acts : list action) : list string := map a_dest (filter (is_default routes) acts).

(* where the parents' actions and defaults are installed *)
Inductive psite := PNever | PInit | PPreprocess.
Definition installed (s : psite) : bool := match s with PNever => false | _ => true end.

(* the action list argparse works on when simple_parsing calls super().parse_known_args *)
Definition sp_actions (s : psite) (parents plain gen : list action) : list action :=
  match s with
  | PNever => (plain ++ gen)%list
  | PInit => (parents ++ plain ++ gen)%list
  | PPreprocess => (plain ++ parents ++ gen)%list
  end.
(* argparse.ArgumentParser(parents=[..]) followed by the same declarations (and the stand-ins for the fields) *)
Definition ap_actions (parents plain gen : list action) : list action := (parents ++ plain ++ gen)%list.

(* ---------- dataclass side ---------- *)
Record field := mkfield {
  f_dest : string;          (* dotted: <wrapper dest>.<field name> *)
  f_subgroup : bool;        (* subgroups(...) field *)
  f_init : bool;            (* dataclasses.field(init=...) *)
  f_cmd : bool;             (* metadata cmd (False = not on the command line) *)
  f_subparser : bool;       (* Union of dataclasses -> sub-commands *)
  f_child : bool            (* dataclass-typed: becomes a child wrapper, not a FieldWrapper *)
}.
Record wrapper := mkwrap {
  w_dests : list string;    (* destinations (several only under ALWAYS_MERGE); the first is wrapper.dest *)
  w_suppress : bool;        (* argparse.SUPPRESS in wrapper.defaults *)
  w_nested : bool;          (* has a parent wrapper *)
  w_all : list field        (* dataclasses.fields(cls), in order *)
}.

Inductive skipc := SkSuppressAbsent | SkSubgroup | SkNotInit | SkCmdFalse | SkSubparser | SkChild.
Definition skipc_eqb (a b : skipc) : bool :=
  match a, b with
  | SkSuppressAbsent, SkSuppressAbsent | SkSubgroup, SkSubgroup | SkNotInit, SkNotInit
  | SkCmdFalse, SkCmdFalse | SkSubparser, SkSubparser | SkChild, SkChild => true
  | _, _ => false
  end.
Definition skip_in (c : skipc) (l : list skipc) : bool := existsb (skipc_eqb c) l.

(* tests that look at the field only *)
Definition static_holds (f : field) (c : skipc) : bool :=
  match c with
  | SkSuppressAbsent => false
  | SkSubgroup => f_subgroup f
  | SkNotInit => negb (f_init f)
  | SkCmdFalse => negb (f_cmd f)
  | SkSubparser => f_subparser f
  | SkChild => f_child f
  end.
(* `argparse.SUPPRESS in wrapper.defaults and field.dest not in parsed_args` looks at the live namespace *)
Definition dyn_holds (w : wrapper) (f : field) (n : nsp) (c : skipc) : bool :=
  match c with
  | SkSuppressAbsent => w_suppress w && negb (mem (f_dest f) n)
  | _ => static_holds f c
  end.

Definition under (d k : string) : bool := prefixb (d ++ ".") k.

Section WithFacts.
  Variable wskips sskips pskips : list skipc.
  Variable sg_first : bool.
  Variable coll_err : err.
  Variable coll_dfl_ok : bool.
  Variable site : psite.
  Variable sgsel : list skipc.        (* _get_subgroup_fields: the tests that select a field as a subgroup choice *)
  Variable sup_none : bool.           (* _instantiate_dataclasses: a SUPPRESS-ed wrapper with no constructor args yields None *)
  Variable routes : bool.             (* set_defaults: see is_default *)

  (* wrapper.fields *)
  Definition w_fields (w : wrapper) : list field :=
    filter (fun f => negb (existsb (static_holds f) wskips)) (w_all w).
  (* the nested loops `for wrapper in wrappers: for field in wrapper.fields` (the forest is already flattened) *)
  Definition pairs (forest : list wrapper) : list (wrapper * field) :=
    flat_map (fun w => map (fun f => (w, f)) (w_fields w)) forest.
  (* set-up: the fields that get an action *)
  Definition registered (forest : list wrapper) : list (wrapper * field) :=
    filter (fun wf => negb (existsb (static_holds (snd wf)) sskips)) (pairs forest).
  Definition reg_dests (forest : list wrapper) : list string := map (fun wf => f_dest (snd wf)) (registered forest).
  Definition generated (forest : list wrapper) : list action := map (fun d => mkact d KOpt) (reg_dests forest).

  Definition subgroup_dests (forest : list wrapper) : list string :=
    map (fun wf => f_dest (snd wf)) (filter (fun wf => existsb (static_holds (snd wf)) sgsel) (pairs forest)).
  Definition top_wrappers (forest : list wrapper) : list wrapper := filter (fun w => negb (w_nested w)) forest.
  Definition top_dests (forest : list wrapper) : list string := flat_map w_dests (top_wrappers forest).

  (* _remove_subgroups_from_namespace *)
  Fixpoint pop_all (ds : list string) (n : nsp) : res nsp :=
    match ds with
    | [] => Ok n
    | d :: r => if mem d n then pop_all r (remove d n) else Err (Raise "AttributeError")
    end.
  Definition remove_subgroups (forest : list wrapper) (n : nsp) : res nsp :=
    if sg_first then
      match subgroup_dests forest with
      | [] => Ok n
      | sg => pop_all sg (if mem "subgroups" n then n else (n ++ [("subgroups", NSub)])%list)
      end
    else Ok n.

  (* _fill_constructor_arguments_with_fields, namespace side: pop unless a skip test holds *)
  Definition fill_step (n : nsp) (wf : wrapper * field) : nsp :=
    if existsb (dyn_holds (fst wf) (snd wf) n) pskips then n else remove (f_dest (snd wf)) n.
  Definition fill (forest : list wrapper) (n : nsp) : nsp := fold_left fill_step (pairs forest) n.

  (* a SUPPRESS-ed destination gets an attribute only when some field below it was given *)
  Definition sup_nonempty (forest : list wrapper) (d : string) (n1 : nsp) : bool :=
    existsb (fun wf => under d (f_dest (snd wf)) && mem (f_dest (snd wf)) n1
                       && negb (existsb (static_holds (snd wf)) pskips)) (pairs forest).

  (* _instantiate_dataclasses, namespace side.  Only wrappers without a parent touch the namespace; the stable
     sort by nesting level keeps their relative order. *)
  Definition inst_one (forest : list wrapper) (dfl : list string) (n1 : nsp) (w : wrapper) (n : nsp) (d : string) : res nsp :=
    if w_suppress w && sup_none && negb (sup_nonempty forest d n1) then Ok n
    else if negb (mem d n) then Ok (n ++ [(d, NInst)])%list
    else if coll_dfl_ok && str_in (hd "" (w_dests w)) dfl then Ok (set_key d NInst n)
    else Err coll_err.
  (* `for dc_wrapper in sorted_dc_wrappers: for destination in dc_wrapper.destinations` *)
  Definition top_pairs (forest : list wrapper) : list (wrapper * string) :=
    flat_map (fun w => map (fun d => (w, d)) (w_dests w)) (top_wrappers forest).
  Fixpoint inst_all (forest : list wrapper) (dfl : list string) (n1 : nsp) (l : list (wrapper * string)) (n : nsp) : res nsp :=
    match l with
    | [] => Ok n
    | (w, d) :: r => match inst_one forest dfl n1 w n d with Ok n' => inst_all forest dfl n1 r n' | Err e => Err e end
    end.
  Definition instantiate (forest : list wrapper) (dfl : list string) (n1 n2 : nsp) : res nsp :=
    inst_all forest dfl n1 (top_pairs forest) n2.

  (* _postprocessing *)
  Definition post (forest : list wrapper) (dfl : list string) (n : nsp) : res nsp :=
    match remove_subgroups forest n with
    | Err e => Err e
    | Ok n1 => instantiate forest dfl n1 (fill forest n1)
    end.

  Section WithArgparse.
    Variable AP : list action -> list string -> res (nsp * list string).

    (* ArgumentParser.parse_known_args.  `pre` = how set-up (_preprocessing: conflict resolution, subgroup
       choice; the subject of C03/C07) ended when it did not succeed. *)
    Definition sp_known (pre : option err) (parents plain : list action) (forest : list wrapper) (argv : list string)
      : res (nsp * list string) :=
      match pre with
      | Some e => Err e
      | None =>
          let acts := sp_actions site parents plain (generated forest) in
          match AP acts argv with
          | Err e => Err e
          | Ok (n, ex) => match post forest (default_keys routes acts) n with Ok n' => Ok (n', ex) | Err e => Err e end
          end
      end.

    (* ArgumentParser.parse_args is argparse's: parse_known_args (ours, post-processing included), then error on leftovers *)
    Definition sp_parse_args (pre : option err) (parents plain : list action) (forest : list wrapper) (argv : list string)
      : res (nsp * list string) :=
      match sp_known pre parents plain forest argv with
      | Ok (n, []) => Ok (n, [])
      | Ok (_, _ :: _) => Err (Exit 2)
      | Err e => Err e
      end.

    (* the reference: argparse with the same declarations (parents included) and stand-ins, then the clean-up *)
    Definition ap_known (parents plain : list action) (forest : list wrapper) (argv : list string) : res (nsp * list string) :=
      AP (ap_actions parents plain (generated forest)) argv.
  End WithArgparse.
End WithFacts.

(* ---------- add_argument_group: what the group object is created with ---------- *)
Inductive gover := GOmitted | GGiven (falsy : bool) (v : string).   (* keyword not passed | passed (is it falsy?) *)
Inductive fwd := FwdOr | FwdIfNone.                                  (* `x or self.x` | `x if x is not None else self.x` *)
Record gset := mkgset { g_prefix : string; g_default : string; g_handler : string }.      (* values by canonical text *)
Record gov := mkgov { o_prefix : gover; o_default : gover; o_handler : gover }.

Definition forward (f : fwd) (o : gover) (parser_v : string) : string :=
  match o with
  | GOmitted => parser_v
  | GGiven false v => v
  | GGiven true v => match f with FwdOr => parser_v | FwdIfNone => v end
  end.
Definition sp_group (fp fd fh : fwd) (p : gset) (o : gov) : gset :=
  mkgset (forward fp (o_prefix o) (g_prefix p)) (forward fd (o_default o) (g_default p)) (forward fh (o_handler o) (g_handler p)).

(* a toy argparse used as a witness in refutations: the i-th registered action receives the i-th token *)
Definition AP_toy (acts : list action) (argv : list string) : res (nsp * list string) :=
  Ok (combine (map a_dest acts) (map NV argv), []).
