(* Model/Subclass.v — executable model of loading a serialized dataclass through a base class:
   simple_parsing.helpers.serialization.serializable  to_dict(.., save_dc_types) / from_dict(cls, d, drop_extra_fields)
   (known keys -> init args; extra keys: dropped, or the subclass search over utils.all_subclasses(cls): stable sort on the
   number of init fields, first class whose init fields contain every serialized key), the `_type_` entry + _locate,
   SerializableMixin.__init_subclass__ (how decode_into_subclasses is inherited), decode_field for the three shapes a
   dataclass can be reached through (a dataclass-typed field, List[..], Dict[str, ..]).
   The sort key, which fields of a candidate / of the dict the superset test looks at (init only, or all the fields that
   to_dict writes), the comparison of the superset test, first-match selection, the rule deriving the default of
   drop_extra_fields and DC_TYPE_KEY are NOT written here: they are Section variables, instantiated from the regenerated
   facts in Gen/FactsSubclass.v.  Field payloads are integers decoded by identity (self-contained: the general
   serialization model is another topic). *)
From SPV Require Export Base.Str.

(* ---------- values, serialized forms, class tables ---------- *)
Inductive fty :=
| TInt                     (* x: int *)
| TDc (b : string)         (* x: B            (a dataclass-typed field) *)
| TList (b : string)       (* x: List[B] *)
| TDict (b : string).      (* x: Dict[str, B] *)

(* explicit cons-lists (mutual, not nested) so that structural recursion and mutual induction are direct *)
Inductive value :=
| VInt (z : Z)
| VObj (c : string) (fs : vfields)        (* instance of class c, fields in dataclasses.fields order *)
| VList (items : vfields)                 (* keys unused *)
| VDict (items : vfields)
with vfields := VNil | VCons (k : string) (v : value) (r : vfields).

Inductive ser :=
| SInt (z : Z)
| SStr (s : string)
| SMap (kvs : sfields)                    (* a dict, in insertion order *)
| SList (items : sfields)                 (* keys unused *)
with sfields := SNil | SCons (k : string) (s : ser) (r : sfields).

Record fdecl := mkf { f_name : string; f_ty : fty; f_default : option value (* None = required *);
                      f_init : bool (* false = field(init=False): set with setattr after construction *) }.
(* one class: name, direct bases (inside the hierarchy), ALL its fields (inherited ones included, dataclass order),
   and the decode_into_subclasses=... keyword of the class statement (None = not given) *)
Record cdecl := mkc { c_name : string; c_bases : list string; c_fields : list fdecl; c_kw : option bool }.
(* a hierarchy = the classes in REGISTRATION (definition) order *)
Definition hier := list cdecl.

Fixpoint assoc {A} (k : string) (l : list (string * A)) : option A :=
  match l with [] => None | (k', a) :: r => if String.eqb k' k then Some a else assoc k r end.

Definition find_class (h : hier) (n : string) : option cdecl := find (fun c => String.eqb (c_name c) n) h.
Definition field_names (c : cdecl) : list string := map f_name (c_fields c).
Definition find_field (c : cdecl) (k : string) : option fdecl := find (fun f => String.eqb (f_name f) k) (c_fields c).
Definition ftype_of (c : cdecl) (k : string) : option fty := option_map f_ty (find_field c k).
(* get_init_fields *)
Definition init_fields (c : cdecl) : list fdecl := filter f_init (c_fields c).
Definition init_names (c : cdecl) : list string := map f_name (init_fields c).
Definition is_init (c : cdecl) (k : string) : bool := match find_field c k with Some f => f_init f | None => false end.

(* strict ancestors, accumulated in registration order (a base is always defined before its subclasses) *)
Definition anc_step (tbl : list (string * list string)) (c : cdecl) : list (string * list string) :=
  (tbl ++ [(c_name c,
            dedupe (c_bases c ++ flat_map (fun b => match assoc b tbl with Some l => l | None => [] end) (c_bases c))%list [])])%list.
Definition anc_table (h : hier) := fold_left anc_step h [].
Definition ancestors (h : hier) (n : string) : list string :=
  match assoc n (anc_table h) with Some l => l | None => [] end.
(* utils.all_subclasses(b) as a SET: every class below b (the implementation returns it in Python set order) *)
Definition descendants (h : hier) (b : string) : list cdecl := filter (fun c => str_in b (ancestors h (c_name c))) h.

(* SerializableMixin.__init_subclass__: the keyword if given, else the value of the first registered parent, else absent *)
Definition dis_step (absent : bool) (tbl : list (string * bool)) (c : cdecl) : list (string * bool) :=
  (tbl ++ [(c_name c,
            match c_kw c with
            | Some b => b
            | None => match flat_map (fun b => match assoc b tbl with Some v => [v] | None => [] end) (c_bases c) with
                      | v :: _ => v
                      | [] => absent
                      end
            end)])%list.
Definition dis_table (absent : bool) (h : hier) := fold_left (dis_step absent) h [].

Fixpoint vf_keys (fs : vfields) : list string := match fs with VNil => [] | VCons k _ r => k :: vf_keys r end.
Fixpoint sf_keys (kvs : sfields) : list string := match kvs with SNil => [] | SCons k _ r => k :: sf_keys r end.
Fixpoint sf_get (key : string) (kvs : sfields) : option ser :=
  match kvs with SNil => None | SCons k s r => if String.eqb k key then Some s else sf_get key r end.
Fixpoint vf_get (key : string) (fs : vfields) : option value :=
  match fs with VNil => None | VCons k v r => if String.eqb k key then Some v else vf_get key r end.

Fixpoint value_eqb (a b : value) {struct a} : bool :=
  match a, b with
  | VInt x, VInt y => Z.eqb x y
  | VObj c fs, VObj d gs => String.eqb c d && vfields_eqb fs gs
  | VList xs, VList ys | VDict xs, VDict ys => vfields_eqb xs ys
  | _, _ => false
  end
with vfields_eqb (a b : vfields) {struct a} : bool :=
  match a, b with
  | VNil, VNil => true
  | VCons k v r, VCons k' v' r' => String.eqb k k' && value_eqb v v' && vfields_eqb r r'
  | _, _ => false
  end.
Fixpoint ser_eqb (a b : ser) {struct a} : bool :=
  match a, b with
  | SInt x, SInt y => Z.eqb x y
  | SStr x, SStr y => String.eqb x y
  | SMap xs, SMap ys | SList xs, SList ys => sfields_eqb xs ys
  | _, _ => false
  end
with sfields_eqb (a b : sfields) {struct a} : bool :=
  match a, b with
  | SNil, SNil => true
  | SCons k v r, SCons k' v' r' => String.eqb k k' && ser_eqb v v' && sfields_eqb r r'
  | _, _ => false
  end.

Fixpoint strs_eq (a b : list string) : bool :=
  match a, b with [], [] => true | x :: r, y :: s => String.eqb x y && strs_eq r s | _, _ => false end.

(* ---------- vocabulary of the regenerated facts ---------- *)
Inductive sortkey := KInitCount | KNegInitCount | KAllCount.
                                                     (* key=lambda dc: len(get_init_fields(dc)) / its negation / len(fields(dc)) *)
Inductive candset := FInit | FAll.                   (* the candidate's names: get_init_fields(child) / fields(child) *)
Inductive reqset := ReqInit | ReqAll.                (* required names: chain(extra_args, init_args) / .., non_init_args) *)
Inductive cmpop := CGe | CGt | CEq | CLe.            (* child_init_field_names <op> req_init_field_names *)
Inductive pick := PickFirst | PickLast.              (* for child in derived: if ..: return  /  over reversed(derived) *)
Inductive fwdrule := FwdDataclassNotNone | FwdNever. (* decode_field: drop_extra_fields is handed to the decoder of a
                                                        dataclass-typed field when it is not None  /  never *)
(* the tests of get_decoding_fn, in source order *)
Inductive dkind := KRegistered | KDataclass | KAny | KDict | KSet | KTuple | KList | KUnion | KEnum | KTypeVar | KLiteral.
Inductive droprule := DropNotDis | DropDis.          (* drop_extra_fields = not cls.decode_into_subclasses  /  without `not` *)

(* first error (left to right) or all the values *)
Fixpoint seq_items (l : list (string * res value)) : res vfields :=
  match l with
  | [] => Ok VNil
  | (k, r) :: t => match r with
                   | Err e => Err e
                   | Ok v => match seq_items t with Err e => Err e | Ok vs => Ok (VCons k v vs) end
                   end
  end.

(* _decode_int on what json can hold *)
Definition decode_int (s : ser) : res value :=
  match s with SInt z => Ok (VInt z) | SStr _ => Err (Raise "ValueError") | _ => Err (Raise "TypeError") end.

(* the loop over fields(cls): decoded values of the keys that are present, first decoding error wins *)
Fixpoint collect (fs : list fdecl) (dec : list (string * res value)) : res (list (string * value)) :=
  match fs with
  | [] => Ok []
  | f :: r => match assoc (f_name f) dec with
              | None => collect r dec
              | Some (Err e) => Err e
              | Some (Ok v) => match collect r dec with Err e => Err e | Ok l => Ok ((f_name f, v) :: l) end
              end
  end.

(* cls(..init_args) then setattr for the init=False fields that were in the dict (the others keep their defaults):
   a missing required field is a TypeError, re-raised as `err` (Gen: the class raised by the except TypeError handler) *)
Fixpoint fill (err : string) (fs : list fdecl) (present : list (string * value)) : res vfields :=
  match fs with
  | [] => Ok VNil
  | f :: r => match (match assoc (f_name f) present with Some v => Some v | None => f_default f end) with
              | None => Err (Raise err)
              | Some v => match fill err r present with Err e => Err e | Ok vs => Ok (VCons (f_name f) v vs) end
              end
  end.
Definition construct (err : string) (c : cdecl) (present : list (string * value)) : res value :=
  match fill err (c_fields c) present with Err e => Err e | Ok vs => Ok (VObj (c_name c) vs) end.

Section WithFacts.
  Variable TYPE_KEY : string.          (* Gen: DC_TYPE_KEY *)
  Variable skey : sortkey.             (* Gen: key of derived_classes.sort *)
  Variable cmp : cmpop.                (* Gen: comparison of the superset test *)
  Variable cset : candset.             (* Gen: which fields of a candidate the test looks at *)
  Variable rset : reqset.              (* Gen: which of the fields found in the dict are required of the candidate *)
  Variable pk : pick.                  (* Gen: which matching candidate is returned *)
  Variable drule : droprule.           (* Gen: default of drop_extra_fields from decode_into_subclasses *)
  Variable dis_absent : bool.          (* Gen: default of getattr(cls, "decode_into_subclasses", ..) *)
  Variable child_drop : option bool.   (* Gen: drop_extra_fields passed when re-entering from_dict with the chosen subclass
                                          (None = not passed: re-derived from the chosen class's own attribute) *)

  Variable fwd : fwdrule.              (* Gen: decode_field, when drop_extra_fields reaches the decoder of a field *)
  Variable list_item_drop : option bool.   (* Gen: decode_list, drop_extra_fields given to the item decoder (None = not given) *)
  Variable dict_value_drop : option bool.  (* Gen: decode_dict, the same for the value decoder *)
  Variable dc_preset : option bool.    (* Gen: get_decoding_fn, drop_extra_fields preset in partial(from_dict, t, ..) *)
  Variable item_save : bool.           (* Gen: save_dc_types with which encode() encodes a dataclass it meets in a container *)
  Variable construct_err : string.     (* Gen: from_dict, class raised when cls(..) fails *)
  Variable locate_err : string.        (* Gen: _locate, class raised when the name resolves to nothing *)

  Variable h : hier.                   (* the classes, registration order *)
  Variable modname : string.           (* module the classes live in: `_type_` holds module + "." + qualname *)
  Variable enum : string -> list string.   (* list(all_subclasses(cls)): the set's iteration order, as it happens to be *)

  Definition dis_of (n : string) : bool :=
    match assoc n (dis_table dis_absent h) with Some b => b | None => dis_absent end.
  Definition drop_default (dis : bool) : bool := match drule with DropNotDis => negb dis | DropDis => dis end.

  (* `if drop_extra_fields is None: drop_extra_fields = not cls.decode_into_subclasses` *)
  Definition resolve_drop (n : string) (dropo : option bool) : bool :=
    match dropo with Some b => b | None => drop_default (dis_of n) end.

  Definition qual (c : string) : string := modname ++ "." ++ c.
  (* _locate on a name written by to_dict: the class of that module with that name, else ImportError *)
  Definition locate (t : string) : option cdecl := find (fun c => String.eqb (qual (c_name c)) t) h.

  Definition key_of (c : cdecl) : nat :=
    match skey with
    | KInitCount => List.length (init_fields c)
    | KNegInitCount => 1000 - List.length (init_fields c)
    | KAllCount => List.length (c_fields c)
    end.
  Definition cand_names (c : cdecl) : list string := match cset with FInit => init_names c | FAll => field_names c end.
  (* chain(extra_args, init_args[, non_init_args]) *)
  Definition req_names (c : cdecl) (extra : list string) (present : list (string * value)) : list string :=
    (extra ++ map fst (filter (fun kv => is_init c (fst kv)) present)
      ++ match rset with
         | ReqInit => []
         | ReqAll => map fst (filter (fun kv => negb (is_init c (fst kv))) present)
         end)%list.
  Definition cmp_holds (child req : list string) : bool :=
    let ge := forallb (fun k => str_in k child) req in
    let le := forallb (fun k => str_in k req) child in
    match cmp with CGe => ge | CGt => ge && negb le | CEq => ge && le | CLe => le end.

  (* derived_classes: the enumeration, minus cls itself *)
  Definition candidates (cls : string) : list cdecl :=
    flat_map (fun n => if String.eqb n cls then [] else match find_class h n with Some c => [c] | None => [] end) (enum cls).
  Definition choose (cls : string) (req : list string) : option cdecl :=
    let sorted := sort_by key_of (candidates cls) in
    find (fun c => cmp_holds (cand_names c) req) (match pk with PickFirst => sorted | PickLast => rev sorted end).

  Definition extras_of (c : cdecl) (keys : list string) : list string :=
    filter (fun k => negb (str_in k (field_names c))) keys.

  (* from_dict once `_type_` is out of the way.  dec ft drop = the decoded values of the dict's keys that ft knows.
     Every field found in the dict is popped (init or not); what is left are the extra keys.  The search asks for the
     extra keys plus the fields found (req_names: the init ones only, or all of them), among the candidates' fields
     (cand_names: the init ones only, or all of them). *)
  Definition build (dec : (string -> option fty) -> bool -> list (string * res value)) (keys : list string)
             (c : cdecl) (dropo : option bool) : res value :=
    let drop := resolve_drop (c_name c) dropo in
    match collect (c_fields c) (dec (ftype_of c) drop) with
    | Err e => Err e
    | Ok present =>
        match extras_of c keys with
        | [] => construct construct_err c present
        | extra =>
            if drop then construct construct_err c present
            else match choose (c_name c) (req_names c extra present) with
                 | None => Err (Raise construct_err)         (* cls(..init_args) with the unknown keys *)
                 | Some child =>
                     (* return from_dict(child_class, d, drop_extra_fields=False) *)
                     match collect (c_fields child) (dec (ftype_of child) (resolve_drop (c_name child) child_drop)) with
                     | Err e => Err e
                     | Ok present2 =>
                         match extras_of child keys with
                         | [] => construct construct_err child present2
                         | _ => Err OutOfFuel      (* a second search: cannot happen with the >= test (proved) *)
                         end
                     end
                 end
        end
    end.

  (* what reaches a decoder that is called without drop_extra_fields: the preset of partial(from_dict, t, ..) *)
  Definition unforwarded (o : option bool) : option bool := match o with Some b => Some b | None => dc_preset end.
  Definition fwd_drop (drop : bool) : option bool :=
    match fwd with FwdDataclassNotNone => Some drop | FwdNever => unforwarded None end.

  Fixpoint from_ser (cls : string) (dropo : option bool) (s : ser) {struct s} : res value :=
    match s with
    | SMap kvs =>
        let dec := fun ft drop => decode_kvs ft drop kvs in
        let keys := filter (fun k => negb (String.eqb k TYPE_KEY)) (sf_keys kvs) in
        match sf_get TYPE_KEY kvs with
        | Some (SStr t) => match locate t with
                           | Some live => build dec keys live dropo
                           | None => Err (Raise locate_err)
                           end
        | Some _ => Err (Raise "AttributeError")
        | None => match find_class h cls with
                  | Some c => build dec keys c dropo
                  | None => Err (Raise "KeyError")       (* class outside the table: outside the model's scope *)
                  end
        end
    | _ => Err (Raise "AttributeError")                  (* d.copy() on a non-dict *)
    end
  with decode_kvs (ft : string -> option fty) (drop : bool) (kvs : sfields) {struct kvs} : list (string * res value) :=
    match kvs with
    | SNil => []
    | SCons k s r =>
        let rest := decode_kvs ft drop r in
        if String.eqb k TYPE_KEY then rest
        else match ft k with
             | None => rest
             | Some TInt => (k, decode_int s) :: rest
             | Some (TDc b) => (k, from_ser b (fwd_drop drop) s) :: rest   (* decode_field passes drop_extra_fields on *)
             | Some (TList b) =>
                 (k, match s with
                     | SList items => match seq_items (decode_items b (unforwarded list_item_drop) items) with Ok vs => Ok (VList vs) | Err e => Err e end
                     | _ => Err (Raise "TypeError")
                     end) :: rest
             | Some (TDict b) =>
                 (k, match s with
                     | SMap items => match seq_items (decode_items b (unforwarded dict_value_drop) items) with Ok vs => Ok (VDict vs) | Err e => Err e end
                     | _ => Err (Raise "AttributeError")
                     end) :: rest
             end
    end
  (* decode_list / decode_dict: the item decoder is get_decoding_fn(B), called WITHOUT drop_extra_fields *)
  with decode_items (b : string) (io : option bool) (items : sfields) {struct items} : list (string * res value) :=
    match items with
    | SNil => []
    | SCons k s r => (k, from_ser b io s) :: decode_items b io r
    end.

  (* to_dict(v, save_dc_types=save).  A dataclass-typed field recurses with the same flag; anything else goes through
     encode(), where a dataclass item is encoded by the registered cls.to_dict with DEFAULT arguments: the flag is lost. *)
  Fixpoint to_ser (save : bool) (v : value) {struct v} : ser :=
    match v with
    | VInt z => SInt z
    | VObj c fs => SMap (if save then SCons TYPE_KEY (SStr (qual c)) (fields_ser save fs) else fields_ser save fs)
    | VList items => SList (items_ser items)
    | VDict items => SMap (items_ser items)
    end
  with fields_ser (save : bool) (fs : vfields) {struct fs} : sfields :=
    match fs with VNil => SNil | VCons k v r => SCons k (to_ser save v) (fields_ser save r) end
  with items_ser (items : vfields) {struct items} : sfields :=
    match items with VNil => SNil | VCons k v r => SCons k (to_ser item_save v) (items_ser r) end.

  (* ---------- well-formedness of the inputs (decidable; evaluated on every generated case) ---------- *)
  Definition fields_sub (a c : cdecl) : bool :=
    forallb (fun f => match ftype_of c (f_name f) with
                      | Some t => match t, f_ty f with
                                  | TInt, TInt => true
                                  | TDc x, TDc y | TList x, TList y | TDict x, TDict y => String.eqb x y
                                  | _, _ => false
                                  end
                      | None => false end) (c_fields a).
  Definition wf_class (c : cdecl) : bool :=
    forallb (fun f => f_init f || match f_default f with Some _ => true | None => false end) (c_fields c) &&
    str_nodupb (field_names c) && negb (str_in TYPE_KEY (field_names c))
    && negb (str_in (c_name c) (ancestors h (c_name c)))
    && forallb (fun a => match find_class h a with Some A => fields_sub A c | None => false end) (ancestors h (c_name c)).
  Definition wf_hier : bool := str_nodupb (map c_name h) && forallb wf_class h.

  (* v is an instance tree over the table: classes exist, fields are exactly the class's, values fit the field types *)
  Fixpoint wt (v : value) : bool :=
    match v with
    | VObj c fs => match find_class h c with
                   | Some C => strs_eq (vf_keys fs) (field_names C) && wt_fields C fs
                   | None => false
                   end
    | _ => false
    end
  with wt_fields (C : cdecl) (fs : vfields) : bool :=
    match fs with
    | VNil => true
    | VCons k v r =>
        match ftype_of C k, v with
        | Some TInt, VInt _ => true
        | Some (TDc _), VObj _ _ => wt v
        | Some (TList _), VList items => wt_items items
        | Some (TDict _), VDict items => wt_items items && str_nodupb (vf_keys items)
        | _, _ => false
        end && wt_fields C r
    end
  with wt_items (items : vfields) : bool :=
    match items with VNil => true | VCons _ v r => wt v && wt_items r end.
End WithFacts.
