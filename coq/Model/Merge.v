(* Model/Merge.v — executable model of ConflictResolution.ALWAYS_MERGE for ONE field shared by n >= 2 destinations:
     conflicts.ConflictResolver._fix_conflict_merge + DataclassWrapper.merge      (which wrapper survives, destination order, defaults list)
     FieldWrapper.default                                                          (packaging of the default, one entry per destination)
     FieldWrapper.get_arg_options (is_reused branches: nargs, per-token converter) + utils._parse_multiple_containers/_parse_container
     FieldWrapper.__call__ / duplicate_if_needed / postprocess                     (what each destination receives)
   The model is faithful: defects included.  The decision chains and constants that live in the source as literals are
   Section variables, instantiated from the regenerated Gen/FactsMerge.v. *)
From SPV Require Export Base.Str.

(* ---------- Python values that can reach a destination ---------- *)
Inductive val :=
| VInt (z : Z)
| VFloat (neg : bool) (m : Z) (e : nat)      (* exact short decimal (-1)^neg * m * 10^-e, e minimal; -0.0 is (true,0,0) *)
| VStr (s : string)
| VBool (b : bool)
| VEnum (name : string)
| VList (l : list val)
| VTuple (l : list val).

Fixpoint val_eqb (a b : val) : bool :=
  match a, b with
  | VInt x, VInt y => Z.eqb x y
  | VFloat n1 m1 e1, VFloat n2 m2 e2 => Bool.eqb n1 n2 && Z.eqb m1 m2 && Nat.eqb e1 e2
  | VStr x, VStr y => String.eqb x y
  | VBool x, VBool y => Bool.eqb x y
  | VEnum x, VEnum y => String.eqb x y
  | VList l1, VList l2 | VTuple l1, VTuple l2 =>
      (fix go (l1 l2 : list val) : bool :=
         match l1, l2 with
         | [], [] => true
         | x :: r1, y :: r2 => val_eqb x y && go r1 r2
         | _, _ => false
         end) l1 l2
  | _, _ => false
  end.

(* utils.get_nesting_level *)
Fixpoint nesting_level (v : val) : nat :=
  match v with
  | VList l | VTuple l => S (fold_right (fun x acc => Nat.max (nesting_level x) acc) 0 l)
  | _ => 0
  end.

Definition is_container (v : val) : bool := match v with VList _ | VTuple _ => true | _ => false end.

(* ---------- one command-line token ---------- *)
(* what ast.literal_eval makes of a token (TRUSTED: computed by the interpreter under test, see props/C11.py) *)
Inductive lit :=
| LInt (z : Z)
| LStr (s : string)
| LSeq (is_tup : bool) (items : list lit)
| LOther.                                    (* float, bool, None, dict, set, bytes ...: outside the model *)

Record tok := mktok { t_raw : string; t_lit : option lit (* None = literal_eval raises *) }.

(* item converter T = utils.get_argparse_type_for_container(field type) *)
Inductive ety := EInt | EStr.

Inductive kind :=
| KInt | KFloat | KStr | KBool
| KEnum (members : list string)
| KList (e : ety)
| KTuple (e : ety) (arity : option nat).     (* Some k = Tuple[T]*k ; None = Tuple[T, ...] : the code never looks at it *)

Definition is_list_kind (k : kind) : bool := match k with KList _ => true | _ => false end.
Definition is_tuple_kind (k : kind) : bool := match k with KTuple _ _ => true | _ => false end.
Definition scalar_kind (k : kind) : bool := negb (is_list_kind k || is_tuple_kind k).

(* ---------- leaf parsers ---------- *)
Definition digit_val (c : ascii) : Z := Z.of_nat (ascii_nat c - 48).
Fixpoint digits_val (s : string) (acc : Z) : option Z :=
  match s with
  | EmptyString => Some acc
  | String c r => if is_digit c then digits_val r (acc * 10 + digit_val c) else None
  end.
Definition parse_digits (s : string) : option Z :=
  match s with EmptyString => None | _ => digits_val s 0 end.

(* int(s) on ASCII text without underscores *)
Definition parse_int (s : string) : option Z :=
  let s := strip s in
  match s with
  | String "-"%char r => option_map Z.opp (parse_digits r)
  | String "+"%char r => parse_digits r
  | _ => parse_digits s
  end.

Fixpoint span_digits (s : string) : string * string :=
  match s with
  | String c r => if is_digit c then let '(a, b) := span_digits r in (String c a, b) else (EmptyString, s)
  | EmptyString => (EmptyString, EmptyString)
  end.

Fixpoint norm_dec (m : Z) (e : nat) : Z * nat :=
  match e with
  | O => (m, O)
  | S e' => if Z.eqb (Z.modulo m 10) 0 then norm_dec (Z.div m 10) e' else (m, e)
  end.

(* float(s) on tokens made of digits, sign and point only (no exponent / inf / nan) *)
Definition parse_dec (s : string) : option (bool * Z * nat) :=
  let s := strip s in
  let '(neg, body) := match s with
                      | String "-"%char r => (true, r)
                      | String "+"%char r => (false, r)
                      | _ => (false, s)
                      end in
  let '(ip, rest) := span_digits body in
  match rest with
  | EmptyString => match parse_digits ip with Some m => Some (neg, m, O) | None => None end
  | String "."%char fr =>
      let '(fp, rest2) := span_digits fr in
      match rest2 with
      | EmptyString =>
          match parse_digits (ip ++ fp) with
          | Some m => let '(m', e') := norm_dec m (String.length fp) in Some (neg, m', e')
          | None => None
          end
      | _ => None
      end
  | _ => None
  end.

(* str(int) *)
Fixpoint pos_digits (fuel : nat) (z : Z) (acc : string) : string :=
  match fuel with
  | O => acc
  | S f => let d := String (ascii_of_nat (48 + Z.to_nat (Z.modulo z 10))) acc in
           if Z.ltb z 10 then d else pos_digits f (Z.div z 10) d
  end.
Definition string_of_Z (z : Z) : string :=
  match z with
  | Z0 => "0"
  | Zpos p => pos_digits (Pos.size_nat p) z ""
  | Zneg p => String "-"%char (pos_digits (Pos.size_nat p) (Zpos p) "")
  end.

(* str.split() : runs of white space separate, no empty words *)
Fixpoint split_ws_acc (s acc : string) : list string :=
  match s with
  | EmptyString => if String.eqb acc "" then [] else [acc]
  | String c r => if is_space c then (if String.eqb acc "" then split_ws_acc r "" else acc :: split_ws_acc r "")
                  else split_ws_acc r (acc ++ String c "")
  end.
Definition split_ws (s : string) : list string := split_ws_acc s "".
Definition join_sp (ws : list string) : string := String.concat " " ws.

Definition ends_with (c : ascii) (s : string) : bool :=
  match srev s with String a _ => Ascii.eqb a c | EmptyString => false end.
Definition starts_with (c : ascii) (s : string) : bool :=
  match s with String a _ => Ascii.eqb a c | EmptyString => false end.
Definition drop_first (s : string) : string := match s with String _ r => r | EmptyString => EmptyString end.
Definition drop_last (s : string) : string := srev (drop_first (srev s)).

Fixpoint map_opt {A B} (f : A -> option B) (l : list A) : option (list B) :=
  match l with
  | [] => Some []
  | x :: r => match f x, map_opt f r with Some y, Some ys => Some (y :: ys) | _, _ => None end
  end.

Fixpoint map_res {A B} (f : A -> res B) (l : list A) : res (list B) :=
  match l with
  | [] => Ok []
  | x :: r => match f x with
              | Err e => Err e
              | Ok y => match map_res f r with Ok ys => Ok (y :: ys) | Err e => Err e end
              end
  end.

(* python `l * n` *)
Fixpoint list_times {A} (l : list A) (n : nat) : list A :=
  match n with O => [] | S k => (l ++ list_times l k)%list end.

(* ---------- decision chains regenerated from the source ---------- *)
(* duplicate_if_needed: the final if/elif/else on len(parsed_values) *)
Inductive len_test := LenEqN | LenEqOne.
Inductive dup_act := DAsIs | DTimesN | DInconsistent.
(* duplicate_if_needed: the nesting-level short-cut *)
Inductive sc_guard := GNotTuple | GNotList | GValuesIsList.
Inductive sc_atom := ScLevelEq (k : nat) | ScLenEq (k : nat) | ScFirstLenEqN.
(* FieldWrapper.default: `if self.is_reused and default is not None:` if/elif chain; every arm is default = [default] * n *)
Inductive pk_test :=
| PkSingleValue                      (* `single_value`: the default is one value, not one per destination (repaired trees only) *)
| PkContainerTypeAndLenNeN | PkNotIsList.
Inductive nargs := NStar | NPlus.
(* FieldWrapper.postprocess: the if/elif chain (test on the field, what the arm returns; an arm that does not return
   falls through to the final `return raw_parsed_value`) *)
Inductive post_test := PtIsEnum | PtIsChoice | PtIsTuple | PtIsBool | PtIsList | PtIsSubparser | PtIsOptional | PtNotBuiltin.
Inductive post_act := PaEnumLookupIfStr | PaChoiceDict | PaTupleIfNotTuple | PaRaw | PaListIfTuple | PaOptionalTuple | PaTypeCall.
(* FieldWrapper.default: where the value comes from, in the order the if/elif chain asks *)
Inductive dsource := SrcManual | SrcSubgroup | SrcParentDefaults | SrcFieldDefault | SrcFactory | SrcStoreTrue | SrcStoreFalse.
(* FieldWrapper.required: the sequence of `if test: return value` *)
Inductive req_test := RqExplicit | RqSubgroup | RqStoreAction | RqOptional | RqParentRequired | RqNargsOptionalish
                    | RqNargsPlus | RqDefaultNone | RqReused.
Inductive req_ret := RrConst (b : bool) | RrStored | RrSubgroupDefaultMissing | RrAnyMissing.

Section WithFacts.
  Variable str2bool : string -> option bool.                 (* Gen/FactsBool: utils.str2bool *)
  Variable dup_chain : list (len_test * dup_act).
  Variable dup_else : dup_act.
  Variable sc_guards : list sc_guard.
  Variable sc_conds : list sc_atom.
  Variable pk_chain : list pk_test.
  Variable nargs_required nargs_optional : nargs.            (* get_arg_options: `if self.is_reused:` at the end *)
  Variable bare_literal_wrapped : bool.                      (* _parse_literal: is T(literal) put in a container? *)
  Variable fallback_seps : list ascii.                       (* _fallback_parse: `for sep in [...]` *)
  Variable fallback_default_sep : ascii.
  Variable merge_first_sorted : bool.                        (* _fix_conflict_merge: first = sorted(...)[0] *)
  Variable merge_rest_unsorted : bool.                       (*                      loop over conflict.wrappers[1:] *)
  Variable merge_dedupes : bool.                             (* DataclassWrapper.merge: `if dest not in self.destinations` *)
  Variable post_chain : list (post_test * post_act).         (* FieldWrapper.postprocess *)
  Variable default_sources : list dsource.                   (* FieldWrapper.default: order of the sources *)
  Variable defaults_top_fresh : bool.                        (* DataclassWrapper.defaults: a top-level wrapper without default returns a NEW [] *)
  Variable defaults_nested_seeded : bool.                    (*   a member wrapper seeds its defaults with the member field's own default *)
  Variable req_chain : list (req_test * req_ret).            (* FieldWrapper.required *)
  Variable req_else : bool.
  Variable conflict_discovery_order : bool.                  (* get_conflict: wrappers of one option string in registration (flattening) order *)
  Variable nested_dests_from_parent : bool.                  (* DataclassWrapper.destinations: [f"{d}.{name}" for d in parent.destinations] *)
  Variable primitive_parsers : list string.                  (* field_parsing._parsing_fns: the types parsed with their own constructor *)

  (* ----- per-token converters (argparse `type=`; a raise of ValueError/TypeError/ArgumentTypeError is exit 2) ----- *)
  Definition conv_item_lit (e : ety) (l : lit) : option val :=        (* T(v) for v a literal; None = raises *)
    match e, l with
    | EInt, LInt z => Some (VInt z)
    | EInt, LStr s => option_map VInt (parse_int s)
    | EInt, _ => None
    | EStr, LInt z => Some (VStr (string_of_Z z))
    | EStr, LStr s => Some (VStr s)
    | EStr, _ => None
    end.
  Definition conv_item_str (e : ety) (s : string) : option val :=
    match e with EInt => option_map VInt (parse_int s) | EStr => Some (VStr s) end.

  Definition factory (is_tup : bool) (l : list val) : val := if is_tup then VTuple l else VList l.

  (* _parse_container._parse_literal *)
  Definition parse_literal (is_tup : bool) (e : ety) (l : lit) : option val :=
    match l with
    | LSeq _ items => option_map (factory is_tup) (map_opt (conv_item_lit e) items)
    | _ => if bare_literal_wrapped then option_map (fun v => factory is_tup [v]) (conv_item_lit e l)
           else conv_item_lit e l
    end.

  (* _parse_container._fallback_parse *)
  Definition fallback_parse (is_tup : bool) (e : ety) (raw : string) : option val :=
    let v := join_sp (split_ws raw) in
    let v := if starts_with "["%char v && ends_with "]"%char v then drop_last (drop_first v) else v in
    let sep := fold_left (fun cur s => if has_char s v then s else cur) fallback_seps fallback_default_sep in
    let parts := map strip (split_on sep v "") in
    option_map (factory is_tup) (map_opt (conv_item_str e) parts).

  (* utils._parse_multiple_containers(field type)(token): literal first, any exception -> fall back *)
  Definition parse_container (is_tup : bool) (e : ety) (t : tok) : res val :=
    match (match t_lit t with Some l => parse_literal is_tup e l | None => None end) with
    | Some v => Ok v
    | None => match fallback_parse is_tup e (t_raw t) with Some v => Ok v | None => Err (Exit 2) end
    end.

  Definition opt_exit {A} (o : option A) : res A := match o with Some a => Ok a | None => Err (Exit 2) end.

  Definition convert (k : kind) (t : tok) : res val :=
    match k with
    | KInt => if str_in "int" primitive_parsers then opt_exit (option_map VInt (parse_int (t_raw t))) else Err OutOfFuel
    | KFloat => if str_in "float" primitive_parsers
                then opt_exit (option_map (fun x => let '(n, m, e) := x in VFloat n m e) (parse_dec (t_raw t)))
                else Err OutOfFuel
    | KStr => if str_in "str" primitive_parsers then Ok (VStr (t_raw t)) else Err OutOfFuel
    | KBool => opt_exit (option_map VBool (str2bool (t_raw t)))
    | KEnum ms => if str_in (t_raw t) ms then Ok (VStr (t_raw t)) else Err (Exit 2)     (* type=str, choices=names *)
    | KList e => parse_container false e t
    | KTuple e _ => parse_container true e t
    end.

  (* ----- FieldWrapper.default packaging ----- *)
  Definition py_len (v : val) : option nat :=
    match v with VList l | VTuple l => Some (List.length l) | VStr s => Some (String.length s) | _ => None end.

  Fixpoint run_pk (chain : list pk_test) (is_tl single : bool) (n : nat) (d : val) : res val :=
    match chain with
    | [] => Ok d
    | PkSingleValue :: r => if single then Ok (VList (repeat d n)) else run_pk r is_tl single n d
    | PkContainerTypeAndLenNeN :: r =>
        if is_tl then
          match py_len d with
          | None => Err (Raise "TypeError")
          | Some k => if Nat.eqb k n then run_pk r is_tl single n d else Ok (VList (repeat d n))
          end
        else run_pk r is_tl single n d
    | PkNotIsList :: r => match d with VList _ => run_pk r is_tl single n d | _ => Ok (VList (repeat d n)) end
    end.

  (* d = the python object `default` before packaging, single = it is ONE value (the field's own default, or the only
     default of the merged wrapper) rather than a list with one entry per destination; result = one entry per destination *)
  Definition package_default (n : nat) (k : kind) (single : bool) (d : val) : res (list val) :=
    match run_pk pk_chain (is_list_kind k || is_tuple_kind k) single n d with
    | Err e => Err e
    | Ok p => match p with
              | VList l | VTuple l => if Nat.eqb (List.length l) n then Ok l else Err (Raise "AssertionError")
              | _ => Err (Raise "TypeError")
              end
    end.

  (* ----- duplicate_if_needed ----- *)
  Definition len_test_holds (t : len_test) (n len : nat) : bool :=
    match t with LenEqN => Nat.eqb len n | LenEqOne => Nat.eqb len 1 end.
  Definition do_dup (a : dup_act) (n : nat) (pv : list val) : res (list val) :=
    match a with DAsIs => Ok pv | DTimesN => Ok (list_times pv n) | DInconsistent => Err Inconsistent end.
  Fixpoint run_dup (chain : list (len_test * dup_act)) (n : nat) (pv : list val) : res (list val) :=
    match chain with
    | [] => do_dup dup_else n pv
    | (t, a) :: r => if len_test_holds t n (List.length pv) then do_dup a n pv else run_dup r n pv
    end.

  Definition sc_guard_holds (g : sc_guard) (k : kind) : bool :=
    match g with GNotTuple => negb (is_tuple_kind k) | GNotList => negb (is_list_kind k) | GValuesIsList => true end.
  Definition sc_atom_holds (a : sc_atom) (n : nat) (pv : list val) : bool :=
    match a with
    | ScLevelEq j => Nat.eqb (nesting_level (VList pv)) j
    | ScLenEq j => Nat.eqb (List.length pv) j
    | ScFirstLenEqN => match pv with x :: _ => match py_len x with Some j => Nat.eqb j n | None => false end | [] => false end
    end.
  Definition items_of (v : val) : list val := match v with VList l | VTuple l => l | _ => [] end.

  (* parsed_values is a python list here: argparse nargs '*'/'+' builds one, and a packaged default is one *)
  Definition duplicate (n : nat) (k : kind) (pv : list val) : res (list val) :=
    if forallb (fun g => sc_guard_holds g k) sc_guards && forallb (fun a => sc_atom_holds a n pv) sc_conds
    then Ok (items_of (hd (VList []) pv))
    else run_dup dup_chain n pv.

  (* ----- postprocess ----- *)
  Fixpoint chars_of (s : string) : list val :=
    match s with EmptyString => [] | String c r => VStr (String c "") :: chars_of r end.
  (* which tests of the chain hold for a field of kind k (no choices, no subparser, not Optional in this model);
     Enum classes and typing generics are not in utils.builtin_types *)
  Definition post_test_holds (t : post_test) (k : kind) : bool :=
    match t, k with
    | PtIsEnum, KEnum _ | PtIsTuple, KTuple _ _ | PtIsBool, KBool | PtIsList, KList _ => true
    | PtNotBuiltin, KEnum _ | PtNotBuiltin, KList _ | PtNotBuiltin, KTuple _ _ => true
    | _, _ => false
    end.
  Definition do_post (a : post_act) (k : kind) (v : val) : res val :=
    match a with
    | PaEnumLookupIfStr =>
        match v, k with
        | VStr s, KEnum ms => if str_in s ms then Ok (VEnum s) else Err (Raise "KeyError")
        | VStr _, _ => Err OutOfFuel
        | _, _ => Ok v
        end
    | PaTupleIfNotTuple =>
        match v with
        | VTuple _ => Ok v
        | VList l => Ok (VTuple l)
        | VStr s => Ok (VTuple (chars_of s))
        | _ => Err (Raise "TypeError")                    (* tuple(3) *)
        end
    | PaListIfTuple => match v with VTuple l => Ok (VList l) | _ => Ok v end
    | PaRaw => Ok v
    | PaChoiceDict | PaOptionalTuple | PaTypeCall => Err OutOfFuel   (* arms this model does not describe *)
    end.
  Fixpoint run_post (chain : list (post_test * post_act)) (k : kind) (v : val) : res val :=
    match chain with
    | [] => Ok v                                            (* return raw_parsed_value *)
    | (t, a) :: r => if post_test_holds t k then do_post a k v else run_post r k v
    end.
  Definition postprocess (k : kind) (v : val) : res val := run_post post_chain k v.

  (* ----- the values: what argparse hands to FieldWrapper.__call__, then duplicate + postprocess per destination ----- *)
  (* FieldWrapper.required for a merged field of this model: no explicit `required`, not a subgroup, action "store",
     not Optional, parent not required, no custom nargs; the packaged default never contains MISSING *)
  Definition req_test_holds (t : req_test) (default_none : bool) : bool :=
    match t with RqDefaultNone => default_none | RqReused => true | _ => false end.
  Fixpoint is_required (chain : list (req_test * req_ret)) (default_none : bool) : option bool :=
    match chain with
    | [] => Some req_else
    | (t, r) :: rest =>
        if req_test_holds t default_none then
          match r with RrConst b => Some b | RrAnyMissing => Some false | _ => None end
        else is_required rest default_none
    end.

  Definition collect (k : kind) (pd : option (list val)) (cli : option (list tok)) : res (list val) :=
    match is_required req_chain (match pd with None => true | Some _ => false end) with
    | None => Err OutOfFuel
    | Some req =>
        match cli with
        | None => if req then Err (Exit 2)                                    (* required option missing *)
                  else match pd with Some l => Ok l | None => Err OutOfFuel end
        | Some toks =>
            match toks, (if req then nargs_required else nargs_optional) with
            | [], NPlus => Err (Exit 2)                                        (* expected at least one argument *)
            | _, _ => map_res (convert k) toks
            end
        end
    end.

  (* `distribute n k pd cli`: n destinations, pd = packaged default (None: the field is required),
     cli = None (option absent) | Some tokens.  zip(self.destinations, values) truncates. *)
  Definition distribute (n : nat) (k : kind) (pd : option (list val)) (cli : option (list tok)) : res (list val) :=
    bind (collect k pd cli) (fun pv =>
    bind (duplicate n k pv) (fun vs =>
    map_res (postprocess k) (firstn n vs))).

  (* ----- which wrapper survives the merge, and with which destinations / defaults ----- *)
  Definition level (dest : string) : nat := List.length (split_dot dest).     (* FieldWrapper.nesting_level of a field of the dataclass at dest *)

  (* DataclassWrapper.merge, destinations part *)
  Definition merge_dests (self other : list string) : list string :=
    fold_left (fun acc d => if merge_dedupes && str_in d acc then acc else (acc ++ [d])%list) other self.

  (* _fix_conflict_merge on the dests of the dataclass wrappers that contain the conflicting field, in discovery order.
     `_remove` is list.remove: removing the surviving wrapper a second time raises ValueError. *)
  Definition fix_conflict_merge (dests : list string) : res (list string) :=
    match dests with
    | [] => Err (Raise "AssertionError")
    | d0 :: rest =>
        let sorted := sort_by level dests in
        let first := if merge_first_sorted then hd d0 sorted else d0 in
        let others := if merge_rest_unsorted then rest else tl sorted in
        if str_in first others then Err (Raise "ValueError")
        else Ok (fold_left (fun acc d => merge_dests acc [d]) others [first])
    end.

  (* the field's value in every entry of the surviving wrapper's `defaults` list.
     explicit = per registered wrapper, the field's value in add_arguments(default=...) (top-level wrappers only).
     A top-level wrapper without default has `defaults == []` RE-CREATED on every access (defaults_top_fresh), so extending
     it in merge() is lost; a member wrapper's defaults are seeded from the member field's default_factory, one per destination.
     (With defaults_top_fresh = false the entries seeded by member wrappers of a mixed layout are not described here; such a tree
     breaks bridge_defaults_property and shows up as mismatches.) *)
  Definition parent_defaults (first_top : bool) (n : nat) (cd : option val) (explicit : list (option val)) : list val :=
    if first_top then
      if (match explicit with Some _ :: _ => true | _ => false end) || negb defaults_top_fresh
      then flat_map (fun o => match o with Some e => [e] | None => [] end) explicit
      else []
    else if defaults_nested_seeded then match cd with Some d => repeat d n | None => [] end else [].

  (* the first source of FieldWrapper.default that has something; `single` = it is ONE value.
     cd reaches the field as `default=` unless it is a list, which dataclasses only accept through default_factory *)
  Fixpoint pick_source (order : list dsource) (pdefs : list val) (cd : option val) : option (val * bool) :=
    match order with
    | [] => None
    | SrcParentDefaults :: r =>
        match pdefs with [] => pick_source r pdefs cd | [e] => Some (e, true) | es => Some (VList es, false) end
    | SrcFieldDefault :: r =>
        match cd with Some (VList _) | None => pick_source r pdefs cd | Some d => Some (d, true) end
    | SrcFactory :: r =>
        match cd with Some (VList l) => Some (VList l, true) | _ => pick_source r pdefs cd end
    | _ :: r => pick_source r pdefs cd                     (* not set from outside, not a subgroup, action "store" *)
    end.

  Definition default_object (first_top : bool) (n : nat) (cd : option val) (explicit : list (option val))
    : res (option (val * bool)) :=
    match first_top, cd with
    | false, None => Err (Raise "TypeError")               (* default_factory of the member cannot build the class *)
    | _, _ => Ok (pick_source default_sources (parent_defaults first_top n cd explicit) cd)
    end.

  Fixpoint assoc (d : string) (l : list (string * val)) : option val :=
    match l with [] => None | (x, v) :: r => if String.eqb x d then Some v else assoc d r end.

  (* how the value set for `dest` is seen at namespace.<dest>: a surviving TOP-LEVEL wrapper sets every destination with
     setattr(namespace, dest, ..), so a dotted destination is never reached through its parent, which is built from
     its own default_factory instead *)
  Definition observe (first_top : bool) (cd : option val) (dest : string) (v : option val) : res val :=
    if first_top && negb (Nat.eqb (level dest) 1) then
      match cd with Some d => Ok d | None => Err (Raise "TypeError") end
    else match v, cd with
         | Some x, _ => Ok x
         | None, Some d => Ok d
         | None, None => Err (Raise "TypeError")
         end.

  (* whole pipeline; result = the field's value at each registered destination, in registration order *)
  Definition run (dests : list string) (k : kind) (cd : option val) (explicit : list (option val))
             (cli : option (list tok)) : res (list val) :=
    if negb (conflict_discovery_order && nested_dests_from_parent) then Err OutOfFuel else
    bind (fix_conflict_merge dests) (fun merged =>
    let n := List.length merged in
    let first_top := Nat.eqb (level (hd "" merged)) 1 in
    bind (default_object first_top n cd explicit) (fun dobj =>
    bind (match dobj with
          | None => Ok None
          | Some (d, single) => bind (package_default n k single d) (fun l => Ok (Some l))
          end) (fun pd =>
    bind (distribute n k pd cli) (fun out =>
    map_res (fun d => observe first_top cd d (assoc d (combine merged out))) dests)))).
End WithFacts.
