(* Model/LayersSpec.v — what property C06 demands, written leaf by leaf and path by path, without reference
   to how the code merges (no wrapper state, no dict_union, no set_default).  Executable: the correspondence
   evaluates it on every observed result.  Only the data types (ptree, the dataclass tree) and `subtree`
   are taken from Model/Layers.v; of a `wtree` the spec reads the field names and the definition defaults. *)
From SPV Require Export Base.Str Model.Layers.

(* the serialisation's type tag is not a field and not an unknown name *)
Definition SPEC_RESERVED : list string := ["_type_"].

Fixpoint first_some {A} (l : list (option A)) : option A :=
  match l with
  | [] => None
  | Some x :: _ => Some x
  | None :: r => first_some r
  end.
Definition last_some {A} (l : list (option A)) : option A := first_some (rev l).

(* what a source says about the field at path q: None = it does not mention it; Some PNull = it says null *)
Definition mention (q : path) (t : ptree) : option ptree := subtree q t.

(* "the value from the highest-priority source that mentions it":
   command line > last --config_path file > last constructor config_path file > default instance / set_defaults > definition *)
Definition spec_leaf (def : option ptree) (dflt ctor clif : list ptree) (cli : ptree) (q : path) : option ptree :=
  first_some [mention q cli;
              last_some (map (mention q) clif);
              last_some (map (mention q) ctor);
              last_some (map (mention q) dflt);
              def].

(* ---------- reading a dataclass tree ---------- *)
(* leaves below a node: (path, definition default) *)
Fixpoint leaf_paths (w : wtree) {struct w} : list (path * option ptree) :=
  match w with
  | WLeaf _ d _ _ => [([], d)]
  | WClass _ fs =>
      (fix go (fs : list (string * wtree)) : list (path * option ptree) :=
         match fs with
         | [] => []
         | (k, c) :: r => (map (fun qd => (k :: fst qd, snd qd)) (leaf_paths c) ++ go r)%list
         end) fs
  end.

Definition forest_leaf_paths (ws : list (string * wtree)) : list (path * option ptree) :=
  flat_map (fun dw => map (fun qd => (fst dw :: fst qd, snd qd)) (leaf_paths (snd dw))) ws.

(* a document is laid out like the dataclass: sections are dicts, fields are not *)
Fixpoint shape_ok (w : wtree) (t : ptree) {struct w} : bool :=
  match w, t with
  | WLeaf _ _ _ _, PMap _ => false
  | WLeaf _ _ _ _, _ => true
  | WClass _ fs, PMap m =>
      (fix go (fs : list (string * wtree)) : bool :=
         match fs with
         | [] => true
         | (k, c) :: r => match lookup k m with Some tk => shape_ok c tk | None => true end && go r
         end) fs
  | WClass cm _, PNull => is_copt cm       (* an Optional member may be None *)
  | WClass _ _, _ => false
  end.

(* inside the section of some dataclass there is a key that names none of its fields *)
Fixpoint names_nonfield (w : wtree) (t : ptree) {struct w} : bool :=
  match w, t with
  | WClass _ fs, PMap m =>
      existsb (fun k => negb (str_in k (keys fs)) && negb (str_in k SPEC_RESERVED)) (keys m)
      || (fix go (fs : list (string * wtree)) : bool :=
            match fs with
            | [] => false
            | (k, c) :: r => match lookup k m with Some tk => names_nonfield c tk | None => false end || go r
            end) fs
  | _, _ => false
  end.

(* a document keyed by destination: every destination's section is judged; other top-level keys are not
   inside any dataclass's section *)
Definition forest_shape_ok (ws : list (string * wtree)) (t : ptree) : bool :=
  match t with
  | PMap m => forallb (fun dw => match lookup (fst dw) m with Some s => shape_ok (snd dw) s | None => true end) ws
  | _ => false
  end.
Definition forest_names_nonfield (ws : list (string * wtree)) (t : ptree) : bool :=
  match t with
  | PMap m => existsb (fun dw => match lookup (fst dw) m with Some s => names_nonfield (snd dw) s | None => false end) ws
  | _ => false
  end.

(* ---------- Optional[Dataclass] members (definition default None) ---------- *)
(* their paths below a node *)
Fixpoint opt_paths (w : wtree) {struct w} : list path :=
  match w with
  | WLeaf _ _ _ _ => []
  | WClass cm fs =>
      ((if is_copt cm then [[]] else []) ++
       (fix go (fs : list (string * wtree)) : list path :=
          match fs with
          | [] => []
          | (k, c) :: r => (map (cons k) (opt_paths c) ++ go r)%list
          end) fs)%list
  end.

Definition forest_opt_paths (ws : list (string * wtree)) : list path :=
  flat_map (fun dw => map (cons (fst dw)) (opt_paths (snd dw))) ws.

Fixpoint is_prefix (a q : path) : bool :=
  match a, q with
  | [], _ => true
  | x :: a', y :: q' => String.eqb x y && is_prefix a' q'
  | _ :: _, [] => false
  end.

(* what a source says about the member itself: a section (an instance) or None *)
Definition member_mention (a : path) (t : ptree) : option ptree :=
  match subtree a t with Some (PMap m) => Some (PMap m) | Some PNull => Some PNull | _ => None end.

(* the member stays None unless the highest-priority source that says anything about it gives it a section;
   `layers`: the sources, highest priority first *)
Definition collapsed (layers : list ptree) (a : path) : bool :=
  match first_some (map (member_mention a) layers) with Some (PMap _) => false | _ => true end.

(* ---------- the verdict on one parse ---------- *)
Inductive verdict :=
| VMustFail                                   (* an error, not a silently dropped key *)
| VUnspecified                                (* the property is silent (documents that are not laid out like the dataclass) *)
| VLeaves (l : list (path * option ptree)).   (* per leaf: the value it must end up with; None = no source mentions it *)

(* inst: the default instances by destination (PMap []: none); sdefs: the dicts given to set_defaults, in order;
   ctor / clif: the documents of the constructor's config_path / of --config_path, in order, keyed by destination;
   cli: the options written on the command line *)
Definition spec_verdict (ws : list (string * wtree)) (inst : ptree) (sdefs ctor clif : list ptree) (cli : ptree) : verdict :=
  let docs := (sdefs ++ ctor ++ clif)%list in
  if existsb (forest_names_nonfield ws) docs then VMustFail
  else if negb (forallb (forest_shape_ok ws) (inst :: cli :: docs)) then VUnspecified
  else
    let layers := (cli :: rev clif ++ rev ctor ++ rev (inst :: sdefs))%list in
    let gone := filter (collapsed layers) (forest_opt_paths ws) in
    VLeaves
      (* fields that exist: not below an Optional member that stays None *)
      (filter (fun qv => negb (existsb (fun a => is_prefix a (fst qv)) gone))
              (map (fun qd => (fst qd, spec_leaf (snd qd) (inst :: sdefs) ctor clif cli (fst qd))) (forest_leaf_paths ws))
       (* the outermost Optional members that stay None *)
       ++ map (fun a => (a, Some PNull))
              (filter (fun a => negb (existsb (fun a' => is_prefix a' a && negb (is_prefix a a')) gone)) gone))%list.

Definition demanded_at (r : ptree) (qv : path * option ptree) : bool :=
  match snd qv with
  | None => true
  | Some v => match subtree (fst qv) r with Some x => pt_eqb x v | None => false end
  end.

Definition verdict_allows (v : verdict) (obs : res ptree) : bool :=
  match v, obs with
  | VUnspecified, _ => true
  | VMustFail, Err (Exit 0) => false            (* exit status 0 is not an error *)
  | VMustFail, Err _ => true
  | VMustFail, Ok _ => false
  | VLeaves l, Ok r => forallb (demanded_at r) l
  | VLeaves l, Err _ => existsb (fun qv => match snd qv with None => true | Some _ => false end) l
      (* a field no source gives a value to: C04's subject, not this property's *)
  end.

(* ---------- dict_union, as the property reads it: a right-biased merge, leaf by leaf ---------- *)
Definition leaf_lookup (p : path) (t : ptree) : option ptree :=
  match subtree p t with Some (PMap _) => None | x => x end.

Definition orelse {A} (a b : option A) : option A := match a with Some _ => a | None => b end.

(* the two documents agree on what is a section and what is a field *)
Fixpoint compatible (a b : ptree) {struct a} : bool :=
  match a, b with
  | PMap x, PMap y =>
      (fix go (x : list (string * ptree)) : bool :=
         match x with
         | [] => true
         | (k, ta) :: r => match lookup k y with Some tb => compatible ta tb | None => true end && go r
         end) x
  | PMap _, _ | _, PMap _ => false
  | _, _ => true
  end.

(* every path to a non-dict value *)
Fixpoint value_paths (t : ptree) {struct t} : list path :=
  match t with
  | PMap m =>
      (fix go (m : list (string * ptree)) : list path :=
         match m with
         | [] => []
         | (k, c) :: r => (map (cons k) (value_paths c) ++ go r)%list
         end) m
  | _ => [[]]
  end.

Definition opt_pt_eqb (a b : option ptree) : bool :=
  match a, b with Some x, Some y => pt_eqb x y | None, None => true | _, _ => false end.

(* judged on an observed result u of dict_union(a, b) *)
Definition union_law_holds (a b u : ptree) : bool :=
  negb (compatible a b)
  || forallb (fun p => opt_pt_eqb (leaf_lookup p u) (orelse (leaf_lookup p b) (leaf_lookup p a)))
             (value_paths a ++ value_paths b ++ value_paths u)%list.
