(* Model/ArgparseM.v — token-level executable model of how CPython 3.12.1 argparse parses OPTIONAL arguments
   (ArgumentParser._parse_known_args: _parse_optional / _get_option_tuples classification, consume_optional,
   _match_argument / _get_nargs_pattern, _get_values / _get_value / _check_value, defaults and `required`).
   Covered: `store` actions with nargs None / ? / * / + / N, an abstract token converter (`type=`), choices,
   required, defaults (string defaults go through the converter at the end, not through choices), exact option
   strings, the `--opt=value` spelling, abbreviations of `--` options (allow_abbrev), single-dash prefix matching
   and the glued `-xVALUE` spelling, the negative-number rule and the blank rule, unknown options and stray
   arguments as leftovers.
   Outside the model (see `in_model_scope`): the bare `--` token (and `--opt=--`), positionals, sub-commands,
   REMAINDER/PARSER nargs, zero-argument actions (hence clustering of single-dash flags), fromfile_prefix_chars,
   exit_on_error=False, -h/--help (the modelled parser is built with add_help=False), two actions sharing a dest.
   Definitions only; starting point: DESIGN.md Appendix B (validated text), restructured so that `run` is
   structurally recursive (a `skip` counter instead of fuel). *)
From SPV Require Export Base.Str Model.Namespace Model.LeafSpec.

(* ---------- strings ---------- *)
Definition split_eq (t : string) : option (string * string) := split_at_char "="%char t "".
Definition has_space (t : string) : bool := has_char " "%char t.
Definition starts_dd (t : string) : bool := prefixb "--" t.
Definition first2 (s : string) : string := match s with String a (String b _) => String a (String b "") | _ => s end.
Definition drop2 (s : string) : string := match s with String _ (String _ r) => r | _ => "" end.

(* ---------- actions ---------- *)
Inductive nargs_t := NaOne | NaOpt | NaStar | NaPlus | NaNum (n : nat).

(* how one token is classified by _parse_optional: argument, option (action index, matched option string,
   explicit argument from `=` or from the glued short form), unknown option, ambiguous abbreviation *)
Inductive cls := CA | CO (ai : nat) (ostr : string) (explicit : option string) | CUnknown | CAmbig.

Definition is_A (c : cls) : bool := match c with CA => true | _ => false end.
Definition is_ambig (c : cls) : bool := match c with CAmbig => true | _ => false end.

Definition lookup_opt (tbl : list (string * nat)) (s : string) : option nat :=
  match filter (fun p => String.eqb (fst p) s) tbl with (_, i) :: _ => Some i | [] => None end.

Definition has_neg (tbl : list (string * nat)) : bool := existsb (fun p => neg_number_like (fst p)) tbl.

(* _parse_optional.  `ab` = allow_abbrev; `tbl` = _option_string_actions in insertion order; `hn` =
   _has_negative_number_optionals *)
Definition classify (ab : bool) (tbl : list (string * nat)) (hn : bool) (t : string) : cls :=
  match t with
  | EmptyString => CA
  | String c _ =>
    if negb (Ascii.eqb c "-"%char) then CA else
    match lookup_opt tbl t with
    | Some i => CO i t None
    | None =>
      if Nat.eqb (String.length t) 1 then CA else
      let eqsplit := split_eq t in
      match (match eqsplit with
             | Some (o, e) => match lookup_opt tbl o with Some i => Some (CO i o (Some e)) | None => None end
             | None => None end) with
      | Some r => r
      | None =>
        let tuples :=
          if starts_dd t then
            if ab then
              let pfx := match eqsplit with Some (o, _) => o | None => t end in
              let e := match eqsplit with Some (_, e) => Some e | None => None end in
              map (fun p => CO (snd p) (fst p) e) (filter (fun p => prefixb pfx (fst p)) tbl)
            else []
          else
            flat_map (fun p => if String.eqb (fst p) (first2 t) then [CO (snd p) (fst p) (Some (drop2 t))]
                               else if prefixb t (fst p) then [CO (snd p) (fst p) None] else []) tbl in
        match tuples with
        | _ :: _ :: _ => CAmbig
        | [x] => x
        | [] => if neg_number_like t && negb hn then CA
                else if has_space t then CA else CUnknown
        end
      end
    end
  end.

(* number of argument tokens an optional takes from the run of `avail` argument-class tokens that follows it
   (greedy regular expressions A, A?, A*, A+, A{n} anchored at the option); None = "expected ... argument(s)" *)
Definition count_for (n : nargs_t) (avail : nat) : option nat :=
  match n with
  | NaOne => if Nat.leb 1 avail then Some 1 else None
  | NaOpt => Some (Nat.min 1 avail)
  | NaStar => Some avail
  | NaPlus => if Nat.leb 1 avail then Some avail else None
  | NaNum k => if Nat.leb k avail then Some k else None
  end.

Fixpoint count_A (cs : list (string * cls)) : nat :=
  match cs with (_, CA) :: r => S (count_A r) | _ => 0 end.

Section M.
  Variable V : Type.                       (* converted values *)
  Variable K : Type.                       (* converter descriptions (the `type=` callables) *)
  Variable cvt : K -> string -> res V.     (* Err (Exit 2): ValueError/TypeError/ArgumentTypeError; Err (Raise c): escapes *)
  Variable veqb : V -> V -> bool.          (* Python == on converted values (for `value not in choices`) *)

  (* what a destination holds: one value, None (nargs='?' without argument: const=None; or a None default),
     a list, or a string default that has not gone through the converter (yet) *)
  Inductive stored := SOne (v : V) | SNone | SMany (vs : list V) | SRaw (s : string).

  Record act := mkact {
    a_opts : list string; a_dest : string; a_na : nargs_t; a_cv : K;
    a_choices : option (list V); a_dflt : stored; a_req : bool }.

  (* ---------- option table ---------- *)
  Fixpoint all_opts (i : nat) (acts : list act) : list (string * nat) :=
    match acts with [] => [] | a :: r => (map (fun o => (o, i)) (a_opts a) ++ all_opts (S i) r)%list end.

  Definition lex (ab : bool) (acts : list act) (argv : list string) : list (string * cls) :=
    let tbl := all_opts 0 acts in
    let hn := has_neg tbl in
    map (fun t => (t, classify ab tbl hn t)) argv.

  (* ---------- _get_values ---------- *)
  Fixpoint conv_all (k : K) (ss : list string) : res (list V) :=
    match ss with
    | [] => Ok []
    | s :: r => match cvt k s with
                | Err e => Err e
                | Ok v => match conv_all k r with Err e => Err e | Ok vs => Ok (v :: vs) end
                end
    end.

  Definition check_choice (a : act) (v : V) : bool :=
    match a_choices a with None => true | Some cs => existsb (veqb v) cs end.

  Definition values_of (a : act) (ss : list string) : res stored :=
    match a_na a, ss with
    | NaOpt, [] => Ok SNone                                   (* const=None *)
    | NaOne, [s] | NaOpt, [s] =>
        match cvt (a_cv a) s with
        | Err e => Err e
        | Ok v => if check_choice a v then Ok (SOne v) else Err (Exit 2)
        end
    | _, _ =>
        match conv_all (a_cv a) ss with                       (* all conversions first, then the choices *)
        | Err e => Err e
        | Ok vs => if forallb (check_choice a) vs then Ok (SMany vs) else Err (Exit 2)
        end
    end.

  (* ---------- consume_optional over the classified tokens ---------- *)
  (* state: namespace, indices of the actions seen, leftovers, number of upcoming tokens already consumed as
     arguments of the previous option *)
  Fixpoint run (acts : list act) (n : ns stored) (seen : list nat) (extras : list string) (skip : nat)
               (cs : list (string * cls)) : res (ns stored * list nat * list string) :=
    match cs with
    | [] => Ok (n, seen, extras)
    | (s, c) :: r =>
      match skip with
      | S j => run acts n seen extras j r
      | 0 =>
        match c with
        | CA | CUnknown => run acts n seen (extras ++ [s])%list 0 r
        | CAmbig => Err (Exit 2)
        | CO i _ expl =>
          match nth_error acts i with
          | None => Err (Exit 2)
          | Some a =>
            match expl with
            | Some e =>
                (* match_argument(action, 'A') must be exactly 1, else "ignored explicit argument" *)
                match count_for (a_na a) 1 with
                | Some 1 => match values_of a [e] with
                            | Ok v => run acts (set_ns n (a_dest a) v) (i :: seen) extras 0 r
                            | Err x => Err x end
                | _ => Err (Exit 2)
                end
            | None =>
                match count_for (a_na a) (count_A r) with
                | None => Err (Exit 2)
                | Some k => match values_of a (map fst (firstn k r)) with
                            | Ok v => run acts (set_ns n (a_dest a) v) (i :: seen) extras k r
                            | Err x => Err x end
                end
            end
          end
        end
      end
    end.

  (* ---------- defaults ---------- *)
  Fixpoint init_from (acts : list act) (n : ns stored) : ns stored :=
    match acts with
    | [] => n
    | a :: r => init_from r (match lookup (a_dest a) n with
                             | None => (n ++ [(a_dest a, a_dflt a)])%list
                             | Some _ => n end)
    end.
  Definition init_ns (acts : list act) : ns stored := init_from acts [].

  Definition holds_raw (n : ns stored) (d s : string) : bool :=
    match lookup d n with Some (SRaw s') => String.eqb s s' | _ => false end.

  (* the loop over self._actions after the command line has been consumed: actions not seen are either
     recorded as missing (required) or get their string default converted (type only, no choices);
     a converter failure ends the parse at once, the "required" error is raised after the loop *)
  Fixpoint finish (i : nat) (acts : list act) (seen : list nat) (n : ns stored) (missing : bool) : res (ns stored) :=
    match acts with
    | [] => if missing then Err (Exit 2) else Ok n
    | a :: r =>
        if existsb (Nat.eqb i) seen then finish (S i) r seen n missing
        else if a_req a then finish (S i) r seen n true
        else match a_dflt a with
             | SRaw s =>
                 if holds_raw n (a_dest a) s then
                   match cvt (a_cv a) s with
                   | Ok v => finish (S i) r seen (set_ns n (a_dest a) (SOne v)) missing
                   | Err e => Err e
                   end
                 else finish (S i) r seen n missing
             | _ => finish (S i) r seen n missing
             end
    end.

  (* ---------- parse_known_args / parse_args ---------- *)
  Definition parse_known (ab : bool) (acts : list act) (argv : list string) : res (ns stored * list string) :=
    let cs := lex ab acts argv in
    if existsb (fun p => is_ambig (snd p)) cs then Err (Exit 2) else      (* raised while classifying *)
    match run acts (init_ns acts) [] [] 0 cs with
    | Err e => Err e
    | Ok (n, seen, extras) =>
        match finish 0 acts seen n false with
        | Ok n' => Ok (n', extras)
        | Err e => Err e
        end
    end.

  Definition parse_args (ab : bool) (acts : list act) (argv : list string) : res (ns stored) :=
    match parse_known ab acts argv with
    | Ok (n, []) => Ok n
    | Ok (_, _ :: _) => Err (Exit 2)                            (* "unrecognized arguments" *)
    | Err e => Err e
    end.

  (* ---------- what the model covers ---------- *)
  Definition opt_string_ok (o : string) : bool :=
    prefixb "-" o && Nat.leb 2 (String.length o) && negb (String.eqb o "--").
  Definition act_ok (a : act) : bool :=
    negb (Nat.eqb (List.length (a_opts a)) 0) && forallb opt_string_ok (a_opts a)
    && match a_na a with NaNum 0 => false | _ => true end.
  Definition in_model_scope (ab : bool) (acts : list act) (argv : list string) : bool :=
    forallb act_ok acts
    && str_nodupb (map fst (all_opts 0 acts))
    && str_nodupb (map a_dest acts)
    && forallb (fun p => negb (String.eqb (fst p) "--")
                         && match snd p with CO _ _ (Some e) => negb (String.eqb e "--") | _ => true end)
               (lex ab acts argv).
End M.

Arguments SOne {V} v. Arguments SNone {V}. Arguments SMany {V} vs. Arguments SRaw {V} s.
Arguments mkact {V K}. Arguments a_opts {V K}. Arguments a_dest {V K}. Arguments a_na {V K}. Arguments a_cv {V K}.
Arguments a_choices {V K}. Arguments a_dflt {V K}. Arguments a_req {V K}.
Arguments all_opts {V K}. Arguments lex {V K}. Arguments conv_all {V K}. Arguments check_choice {V K}.
Arguments values_of {V K}. Arguments run {V K}. Arguments init_from {V K}. Arguments init_ns {V K}.
Arguments holds_raw {V}. Arguments finish {V K}. Arguments parse_known {V K}. Arguments parse_args {V K}.
Arguments act_ok {V K}. Arguments in_model_scope {V K}.

(* ---------- the instance the correspondence runs: type=int | type=str ---------- *)
Inductive ival := VI (z : Z) | VS (s : string).
Inductive iconv := CInt | CStr.
Definition icvt (k : iconv) (s : string) : res ival :=
  match k with
  | CStr => Ok (VS s)
  | CInt => match py_int s with Some z => Ok (VI z) | None => Err (Exit 2) end
  end.
Definition ival_eqb (a b : ival) : bool :=
  match a, b with VI x, VI y => Z.eqb x y | VS x, VS y => String.eqb x y | _, _ => false end.

Definition iact := act ival iconv.
Definition iparse_known := parse_known icvt ival_eqb.
Definition iparse_args := parse_args icvt ival_eqb.
