(* Model/Serial.v — executable model of simple_parsing.helpers.serialization:
   encoding.encode (singledispatch), serializable.to_dict / from_dict, decoding.get_decoding_fn and the
   decode_* combinators, and the codecs (json / yaml / pickle) as functions on primitives.
   Faithful, defects included (first-success unions, OrderedDict propagation, list-of-tuples for
   unhashable keys, set iteration order, OverflowError in _decode_int).
   Tables that are literals in the source (dispatch order, singledispatch registrations, suffix table,
   DC_TYPE_KEY, str2bool) are parameters, instantiated in Gen/FactsSerial.v. *)
From SPV Require Export Base.Str.
Local Open Scope Z_scope.

(* ---------------------------------------------------------------------------------------------- *)
(* primitives (what json/yaml see), values (Python objects), types (annotations)                     *)

Inductive prim :=
| PNone | PBool (b : bool) | PInt (z : Z)
| PFlt (r : string)                      (* a float, by its repr (exact short decimal) *)
| PStr (s : string)
| PList (ps : list prim)
| PTuple (ps : list prim)                (* defect: a tuple surviving in the output *)
| PDict (od : bool) (kvs : list (prim * prim))   (* od = it is an OrderedDict *)
| PBad.                                  (* model scope exceeded (never produced on generated cases) *)

Inductive dkind := KSer | KPlain.        (* Serializable/FrozenSerializable subclass | plain dataclass *)

Record fmeta := mkmeta { m_incl : bool; m_enc : option Z; m_dec : option Z }.
Definition plain_meta : fmeta := mkmeta true None None.

Inductive value :=
| VNone | VBool (b : bool) | VInt (z : Z) | VFlt (r : string) | VStr (s : string) | VPath (s : string)
| VEnum (c m : string)
| VList (vs : list value) | VTup (vs : list value)
| VSet (vs : list value)                 (* canonical: strictly sorted by vkey *)
| VDict (od : bool) (kvs : list (value * value))
| VDc (k : dkind) (c : string) (fs : list (string * fmeta * value)).

Inductive ty :=
| TBool | TInt | TFloat | TStr | TPath
| TEnum (c : string) (ms : list string)
| TLit (cs : list prim)
| TOpt (t : ty) | TUnion (ts : list ty)
| TList (t : ty) | TTup (ts : list ty) | TTupVar (t : ty) | TSet (t : ty) | TDict (k v : ty)
| TDc (k : dkind) (c : string) (fs : list (string * fmeta * option value * ty)).

Definition is_ser (k : dkind) : bool := match k with KSer => true | KPlain => false end.
Definition dkind_eqb (a b : dkind) : bool := Bool.eqb (is_ser a) (is_ser b).
Definition optZ_eqb (a b : option Z) : bool :=
  match a, b with Some x, Some y => Z.eqb x y | None, None => true | _, _ => false end.
Definition fmeta_eqb (a b : fmeta) : bool :=
  Bool.eqb a.(m_incl) b.(m_incl) && optZ_eqb a.(m_enc) b.(m_enc) && optZ_eqb a.(m_dec) b.(m_dec).

(* ---------- structural equality (executable) ---------- *)
Fixpoint prim_eqb (a b : prim) : bool :=
  match a, b with
  | PNone, PNone => true
  | PBool x, PBool y => Bool.eqb x y
  | PInt x, PInt y => Z.eqb x y
  | PFlt x, PFlt y => String.eqb x y
  | PStr x, PStr y => String.eqb x y
  | PList xs, PList ys | PTuple xs, PTuple ys =>
      (fix go xs ys := match xs, ys with
                       | [], [] => true
                       | x :: xr, y :: yr => prim_eqb x y && go xr yr
                       | _, _ => false end) xs ys
  | PDict o1 xs, PDict o2 ys =>
      Bool.eqb o1 o2 &&
      (fix go xs ys := match xs, ys with
                       | [], [] => true
                       | (k1, v1) :: xr, (k2, v2) :: yr => prim_eqb k1 k2 && prim_eqb v1 v2 && go xr yr
                       | _, _ => false end) xs ys
  | PBad, PBad => true
  | _, _ => false
  end.

Fixpoint value_eqb (a b : value) : bool :=
  match a, b with
  | VNone, VNone => true
  | VBool x, VBool y => Bool.eqb x y
  | VInt x, VInt y => Z.eqb x y
  | VFlt x, VFlt y | VStr x, VStr y | VPath x, VPath y => String.eqb x y
  | VEnum c1 m1, VEnum c2 m2 => String.eqb c1 c2 && String.eqb m1 m2
  | VList xs, VList ys | VTup xs, VTup ys | VSet xs, VSet ys =>
      (fix go xs ys := match xs, ys with
                       | [], [] => true
                       | x :: xr, y :: yr => value_eqb x y && go xr yr
                       | _, _ => false end) xs ys
  | VDict o1 xs, VDict o2 ys =>
      Bool.eqb o1 o2 &&
      (fix go xs ys := match xs, ys with
                       | [], [] => true
                       | (k1, v1) :: xr, (k2, v2) :: yr => value_eqb k1 k2 && value_eqb v1 v2 && go xr yr
                       | _, _ => false end) xs ys
  | VDc k1 c1 xs, VDc k2 c2 ys =>
      dkind_eqb k1 k2 && String.eqb c1 c2 &&
      (fix go xs ys := match xs, ys with
                       | [], [] => true
                       | (n1, m1, v1) :: xr, (n2, m2, v2) :: yr =>
                           String.eqb n1 n2 && fmeta_eqb m1 m2 && value_eqb v1 v2 && go xr yr
                       | _, _ => false end) xs ys
  | _, _ => false
  end.

(* ---------------------------------------------------------------------------------------------- *)
(* decimal integers: printing, and Python's int(str) grammar                                          *)

Definition digit_char (d : Z) : ascii := ascii_of_nat (48 + Z.to_nat d)%nat.
(* most significant digit first; fuel = number of binary digits *)
Fixpoint digits_be (fuel : nat) (n : Z) (acc : list Z) : list Z :=
  match fuel with
  | O => acc
  | S f => if n <? 10 then n :: acc else digits_be f (n / 10) (n mod 10 :: acc)
  end.
Fixpoint string_of_chars (l : list ascii) : string :=
  match l with [] => "" | a :: r => String a (string_of_chars r) end.
Definition nat_dec (n : Z) : string :=
  string_of_chars (map digit_char (digits_be (S (Z.to_nat (Z.log2 n))) n [])).
Definition Z_to_dec (z : Z) : string :=
  if z <? 0 then String "-" (nat_dec (- z)) else nat_dec z.

Definition digit_val (a : ascii) : option Z :=
  if is_digit a then Some (Z.of_nat (ascii_nat a - 48)%nat) else None.
(* digit (_? digit)*  — `pd` = the previous character was a digit *)
Fixpoint parse_digits (s : string) (acc : Z) (pd : bool) : option Z :=
  match s with
  | EmptyString => if pd then Some acc else None
  | String a r =>
      match digit_val a with
      | Some d => parse_digits r (acc * 10 + d) true
      | None => if Ascii.eqb a "_" && pd then parse_digits r acc false else None
      end
  end.
Definition parse_int_core (s : string) : option Z :=
  match s with
  | String "+" r => parse_digits r 0 false
  | String "-" r => option_map Z.opp (parse_digits r 0 false)
  | _ => parse_digits s 0 false
  end.
(* int(s): surrounding blanks are ignored (tried unstripped first: same function, friendlier to proofs) *)
Definition parse_int (s : string) : option Z :=
  match parse_int_core s with Some z => Some z | None => parse_int_core (strip s) end.

(* ---------- floats: exact short decimals, by their repr ---------- *)
Fixpoint all_digits (s : string) : bool :=
  match s with EmptyString => true | String a r => is_digit a && all_digits r end.
Fixpoint split_first (c : ascii) (s acc : string) : option (string * string) :=
  match s with
  | EmptyString => None
  | String a r => if Ascii.eqb a c then Some (acc, r) else split_first c r (acc ++ String a "")
  end.
Definition last_char (s : string) : option ascii :=
  match srev s with EmptyString => None | String a _ => Some a end.
(* repr of a non-negative-or-negative decimal d with |d| in {0} U [1e-4, 1e16), at most 15 significant digits *)
Definition float_canon (r : string) : bool :=
  let body := match r with String "-" b => b | _ => r end in
  match split_first "."%char body "" with
  | None => false
  | Some (ip, fp) =>
      negb (String.eqb ip "") && negb (String.eqb fp "") && all_digits ip && all_digits fp
      && (String.eqb ip "0" || negb (prefixb "0" ip))
      && (String.eqb fp "0" || negb (match last_char fp with Some a => Ascii.eqb a "0" | None => true end))
      && Nat.leb (String.length ip + String.length fp) 15%nat
      && negb (String.eqb ip "0" && prefixb "0000" fp)
      && negb (String.eqb r "-0.0")
  end.
Definition float_of_int_repr (z : Z) : string := Z_to_dec z ++ ".0".
(* int(f): truncation toward zero *)
Definition trunc_float (r : string) : option Z :=
  if float_canon r then
    match split_first "."%char r "" with Some (ip, _) => parse_int_core ip | None => None end
  else None.
Definition float_is_zero (r : string) : bool := String.eqb r "0.0" || String.eqb r "-0.0".

(* float(z) is exact and its repr is z.0 (no exponent, at most 15 digits) below this bound *)
Definition FLOAT_INT_EXACT : Z := 10 ^ 15.

Definition floatish_char (a : ascii) : bool :=
  is_digit a || existsb (Ascii.eqb a) ["."; "_"; "e"; "E"; "+"; "-"]%char.
Fixpoint all_floatish (s : string) : bool :=
  match s with EmptyString => true | String a r => floatish_char a && all_floatish r end.
Definition no_underscore (s : string) : bool := negb (has_char "_"%char s).
(* float(s) for a str: Ok repr | ValueError | outside the modelled sub-domain *)
Definition parse_float (s : string) : res string :=
  if float_canon s then Ok s else
  let t := strip s in
  if float_canon t then Ok t else
  let w := lower (match t with String "+" b => b | String "-" b => b | _ => t end) in
  if str_in w ["inf"; "infinity"; "nan"] then Err OutOfFuel else
  if String.eqb t "" || negb (all_floatish t) then Err (Raise "ValueError") else
  match parse_int_core t with
  | Some z => if Z.abs z <? FLOAT_INT_EXACT then Ok (float_of_int_repr z) else Err OutOfFuel
  | None => Err OutOfFuel
  end.

(* float(int) raises OverflowError from here on (round-half-even reaches 2^1024) *)
Definition FLOAT_OVERFLOW : Z := 2 ^ 1024 - 2 ^ 970.

(* ---------- paths: pathlib keeps a normal form ---------- *)
Definition path_normal (s : string) : bool :=
  String.eqb s "." || String.eqb s "/" ||
  (let segs := split_on "/"%char s "" in
   let segs' := match segs with "" :: r => r | _ => segs end in
   negb (String.eqb s "") &&
   forallb (fun g => negb (String.eqb g "") && negb (String.eqb g ".")) segs').

(* ---------- str(p) for scalars ---------- *)
Definition py_str (p : prim) : res string :=
  match p with
  | PNone => Ok "None"
  | PBool b => Ok (if b then "True" else "False")
  | PInt z => Ok (Z_to_dec z)
  | PFlt r => Ok r
  | PStr s => Ok s
  | _ => Err OutOfFuel       (* repr of containers is not modelled *)
  end.

(* Python == between scalars, for `val in possible_vals` of Literal *)
Definition num_of (p : prim) : option Z :=
  match p with
  | PBool b => Some (if b then 1 else 0)%Z
  | PInt z => Some z
  | PFlt r => match trunc_float r with
              | Some z => if String.eqb r (float_of_int_repr z) then Some z else None
              | None => None end
  | _ => None
  end.
Definition py_eqb (a b : prim) : bool :=
  match num_of a, num_of b with
  | Some x, Some y => Z.eqb x y
  | None, None => prim_eqb a b
  | _, _ => false
  end.

(* the untouched raw value, as a Python object *)
Fixpoint raw (p : prim) : value :=
  match p with
  | PNone => VNone | PBool b => VBool b | PInt z => VInt z | PFlt r => VFlt r | PStr s => VStr s
  | PList ps => VList (map raw ps)
  | PTuple ps => VTup (map raw ps)
  | PDict od kvs => VDict od (map (fun kv => (raw (fst kv), raw (snd kv))) kvs)
  | PBad => VNone
  end.

Fixpoint has_bad (p : prim) : bool :=
  match p with
  | PBad => true
  | PList ps | PTuple ps => existsb has_bad ps
  | PDict _ kvs => existsb (fun kv => has_bad (fst kv) || has_bad (snd kv)) kvs
  | _ => false
  end.

Fixpoint all_ascii (s : string) : bool :=
  match s with EmptyString => true | String a r => Nat.ltb (ascii_nat a) 128 && all_ascii r end.
Fixpoint chars_of (s : string) : list prim :=
  match s with EmptyString => [] | String a r => PStr (String a "") :: chars_of r end.

(* ---------- association lists with Python's `d[k] = v` ---------- *)
Fixpoint dict_set {K V} (eqb : K -> K -> bool) (k : K) (v : V) (d : list (K * V)) : list (K * V) :=
  match d with
  | [] => [(k, v)]
  | (k', v') :: r => if eqb k' k then (k', v) :: r else (k', v') :: dict_set eqb k v r
  end.
Fixpoint dict_get {K V} (eqb : K -> K -> bool) (k : K) (d : list (K * V)) : option V :=
  match d with
  | [] => None
  | (k', v') :: r => if eqb k' k then Some v' else dict_get eqb k r
  end.

Fixpoint map_res {A B} (f : A -> res B) (l : list A) : res (list B) :=
  match l with
  | [] => Ok []
  | x :: r => match f x with
              | Err e => Err e
              | Ok y => match map_res f r with Err e => Err e | Ok ys => Ok (y :: ys) end
              end
  end.

(* ---------- hashability ---------- *)
Fixpoint p_hashable (p : prim) : bool :=
  match p with
  | PList _ | PDict _ _ | PBad => false
  | PTuple ps => forallb p_hashable ps
  | _ => true
  end.
Fixpoint v_hashable (v : value) : bool :=
  match v with
  | VList _ | VSet _ | VDict _ _ | VDc _ _ _ => false
  | VTup vs => forallb v_hashable vs
  | _ => true
  end.

(* ---------- canonical order of set elements (scalars; the order itself is a model convention) ---------- *)
Fixpoint skey (s : string) : Z :=
  match s with
  | EmptyString => 0
  | String a r => Z.of_nat (ascii_nat a) + 1 + 257 * skey r
  end.
Definition vkey (v : value) : Z :=
  match v with
  | VInt z => z
  | VBool b => if b then 1 else 0
  | VStr s | VPath s | VFlt s => skey s
  | VEnum _ m => skey m
  | _ => 0
  end.
Fixpoint v_insert (x : value) (l : list value) : list value :=
  match l with
  | [] => [x]
  | y :: r => if vkey x <=? vkey y then x :: l else y :: v_insert x r
  end.
Definition v_sort (l : list value) : list value := fold_right v_insert [] l.
Fixpoint v_dedupe (l : list value) : list value :=
  match l with
  | [] => []
  | x :: r => x :: filter (fun y => negb (value_eqb x y)) (v_dedupe r)
  end.
Definition canon_set (l : list value) : list value := v_sort (v_dedupe l).

(* ---------------------------------------------------------------------------------------------- *)
(* facts' shapes                                                                                     *)

(* get_decoding_fn: the tests it makes, in source order *)
Inductive dtag := DReg | DDataclass | DAny | DDict | DSet | DTuple | DList | DUnion | DEnum | DTypeVar | DLiteral.
Definition dtag_eqb (a b : dtag) : bool :=
  match a, b with
  | DReg, DReg | DDataclass, DDataclass | DAny, DAny | DDict, DDict | DSet, DSet | DTuple, DTuple
  | DList, DList | DUnion, DUnion | DEnum, DEnum | DTypeVar, DTypeVar | DLiteral, DLiteral => true
  | _, _ => false
  end.
(* what Python sees of an annotation: the builtin classes in its __mro__ (typing aliases forward to their origin), its
   typing origin, whether it is an Enum class / a dataclass class / a key of the _decoding_fns registry *)
Definition py_mro (t : ty) : list string :=
  match t with
  | TList _ => ["list"] | TTup _ | TTupVar _ => ["tuple"] | TSet _ => ["set"] | TDict _ _ => ["dict"]
  | TBool => ["bool"; "int"] | TInt => ["int"] | TFloat => ["float"] | TStr => ["str"]
  | TEnum _ _ => ["Enum"]
  | _ => []
  end.
Definition py_origin (t : ty) : string :=
  match t with TOpt _ | TUnion _ => "Union" | TLit _ => "Literal" | _ => "" end.
Definition py_registered (t : ty) : bool :=
  match t with TBool | TInt | TFloat | TStr | TPath | TDc KSer _ _ => true | _ => false end.
Definition py_is_enum_class (t : ty) : bool := match t with TEnum _ _ => true | _ => false end.
Definition py_is_dataclass (t : ty) : bool := match t with TDc _ _ _ => true | _ => false end.

(* the predicates of utils.py that get_decoding_fn calls, by their (regenerated) bodies *)
Inductive apred :=
| PInRegistry                         (* t in _decoding_fns *)
| PIsDataclassClass                   (* inspect.isclass(t) and dataclasses.is_dataclass(t) *)
| PIsAny                              (* t is Any *)
| PMroHasAny (names : list string)    (* X in _mro(t) or ... *)
| POriginIs (name : string)           (* getattr(t, "__origin__", "") == Union *)
| POriginIn (names : list string)     (* get_origin(t) in (Literal, LiteralAlt) *)
| PEnumSubclass                       (* issubclass(t, enum.Enum) for a class, Enum in _mro(t) otherwise *)
| PIsTypeVar.
Definition pred_holds (q : apred) (t : ty) : bool :=
  match q with
  | PInRegistry => py_registered t
  | PIsDataclassClass => py_is_dataclass t
  | PIsAny => false
  | PMroHasAny names => existsb (fun n => str_in n (py_mro t)) names
  | POriginIs name => String.eqb (py_origin t) name
  | POriginIn names => str_in (py_origin t) names
  | PEnumSubclass => py_is_enum_class t
  | PIsTypeVar => false
  end.
(* which tests an annotation passes *)
Definition tags_of (preds : list (dtag * apred)) (t : ty) : list dtag :=
  map fst (filter (fun gq => pred_holds (snd gq) t) preds).
Definition dispatch (order : list dtag) (preds : list (dtag * apred)) (t : ty) : option dtag :=
  find (fun g => existsb (dtag_eqb g) (tags_of preds t)) order.

(* from_dict: where the DC_TYPE_KEY entry is popped from; what happens to keys that are no field *)
Inductive pop_site := PopCopy | PopArgument.
Inductive extra_policy := ExtraDropped.

(* field(): which of the metadata keys read by to_dict / decode_field are written by helpers.fields.field *)
Definition eff_incl (wired : list string) (m : fmeta) : bool := if str_in "to_dict" wired then m.(m_incl) else true.
Definition eff_enc (wired : list string) (m : fmeta) : option Z := if str_in "encoding_fn" wired then m.(m_enc) else None.
Definition eff_dec (wired : list string) (m : fmeta) : option Z := if str_in "decoding_fn" wired then m.(m_dec) else None.

(* decode_union / try_functions *)
Inductive ustrat := FirstSuccess.

(* encode: singledispatch registrations *)
Inductive encoder := EList | EDict | EPath | ENamespace | EEnum.
Definition pyclass_of (v : value) : string :=
  match v with
  | VList _ => "list" | VTup _ => "tuple" | VSet _ => "set" | VDict _ _ => "Mapping"
  | VPath _ => "PathLike" | VEnum _ _ => "Enum" | _ => "object"
  end.
Definition lookup_encoder (tbl : list (string * encoder)) (v : value) : option encoder :=
  dict_get String.eqb (pyclass_of v) tbl.

(* file formats *)
Inductive codec := CJson | CPickle | CYaml | COther.

Section Model.
  Variable order : list dtag.                       (* Gen: get_decoding_fn dispatch order *)
  Variable strat : ustrat.                          (* Gen: decode_union strategy *)
  Variable enc_table : list (string * encoder).     (* Gen: encode.register(...) *)
  Variable type_key : string.                       (* Gen: DC_TYPE_KEY *)
  Variable s2b : string -> option bool.             (* Gen: utils.str2bool, used by _decode_bool for str *)
  Variable int_float_cmp : bool.                    (* Gen: _decode_int evaluates float(v) when v already is an int *)
  Variable preds : list (dtag * apred).             (* Gen: utils.is_list / is_tuple / ... by their bodies *)
  Variable fd_none : bool.                          (* Gen: from_dict(cls, None) returns None *)
  Variable ctor_error : string.                     (* Gen: the class raised when the constructor call raises TypeError *)
  Variable extras : extra_policy.                   (* Gen: keys that are no field (drop_extra_fields default) *)
  Variable hook_first : bool.                       (* Gen: decode_field consults metadata['decoding_fn'] before the annotation *)
  Variable wired : list string.                     (* Gen: metadata keys written by field() and read by to_dict / decode_field *)
  Variable sigma : list prim -> list prim.          (* oracle: iteration order of a set (a permutation) *)
  Variable encf : Z -> value -> prim.               (* the user's encoding_fn number k *)
  Variable decf : Z -> prim -> res value.           (* the user's decoding_fn number k *)

  (* ---------- encode_dict ---------- *)
  Fixpoint enc_dict_go (od : bool) (acc : list (prim * prim) + list prim) (kvs : list (prim * prim)) : prim :=
    match kvs with
    | [] => match acc with inl d => PDict od d | inr l => PList l end
    | (k, v) :: r =>
        if p_hashable k then
          match acc with
          | inl d => enc_dict_go od (inl (dict_set prim_eqb k v d)) r
          | inr _ => PBad                         (* result[k_] = v_ on a list *)
          end
        else
          let l := match acc with
                   | inl d => map (fun kv => PTuple [fst kv; snd kv]) d
                   | inr l => l end in
          enc_dict_go od (inr (l ++ [PTuple [k; v]])%list) r
    end.

  (* ---------- encode (pos = false) and to_dict's treatment of a field value (pos = true) ---------- *)
  Fixpoint enc (pos : bool) (v : value) : prim :=
    match v with
    | VNone => PNone | VBool b => PBool b | VInt z => PInt z | VFlt r => PFlt r | VStr s => PStr s
    | VPath s => match lookup_encoder enc_table v with Some EPath => PStr s | _ => PBad end
    | VEnum _ m => match lookup_encoder enc_table v with Some EEnum => PStr m | _ => PBad end
    | VList vs | VTup vs =>
        match lookup_encoder enc_table v with Some EList => PList (map (enc false) vs) | _ => PBad end
    | VSet vs =>
        match lookup_encoder enc_table v with Some EList => PList (sigma (map (enc false) vs)) | _ => PBad end
    | VDict od kvs =>
        match lookup_encoder enc_table v with
        | Some EDict => enc_dict_go od (inl []) (map (fun kv => (enc false (fst kv), enc false (snd kv))) kvs)
        | _ => PBad end
    | VDc k c fs =>
        if pos || is_ser k then
          (* to_dict: honours the field metadata; nested dataclass values recurse through to_dict *)
          PDict false (flat_map (fun f => match f with (n, m, x) =>
                         if eff_incl wired m then
                           [(PStr n, match eff_enc wired m with Some h => encf h x | None => enc true x end)]
                         else [] end) fs)
        else
          (* the generic dataclass branch of encode(): every field, metadata ignored *)
          PDict false (map (fun f => match f with (n, m, x) => (PStr n, enc false x) end) fs)
    end.
  Definition encode (v : value) : prim := enc false v.
  Definition to_dict (v : value) : prim := enc true v.

  (* ---------- leaves of decoding ---------- *)
  Definition dec_bool (p : prim) : res value :=
    match p with
    | PStr s => match s2b s with Some b => Ok (VBool b) | None => Err (Raise "ArgumentTypeError") end
    | PNone => Ok (VBool false)
    | PBool b => Ok (VBool b)
    | PInt z => Ok (VBool (negb (Z.eqb z 0)))
    | PFlt r => Ok (VBool (negb (float_is_zero r)))
    | PList ps | PTuple ps => Ok (VBool (negb (Nat.eqb (List.length ps) 0%nat)))
    | PDict _ kvs => Ok (VBool (negb (Nat.eqb (List.length kvs) 0%nat)))
    | PBad => Err OutOfFuel
    end.
  Definition dec_int (p : prim) : res value :=
    match p with
    | PInt z => if int_float_cmp && negb (Z.abs z <? FLOAT_OVERFLOW)
                then Err (Raise "OverflowError")     (* float(v) of an int beyond the float range *)
                else Ok (VInt z)
    | PBool b => Ok (VInt (if b then 1 else 0))
    | PFlt r => match trunc_float r with Some z => Ok (VInt z) | None => Err OutOfFuel end
    | PStr s => match parse_int s with Some z => Ok (VInt z) | None => Err (Raise "ValueError") end
    | PBad => Err OutOfFuel
    | _ => Err (Raise "TypeError")
    end.
  Definition dec_float (p : prim) : res value :=
    match p with
    | PFlt r => Ok (VFlt r)
    | PInt z => if Z.abs z <? FLOAT_OVERFLOW
                then (if Z.abs z <? FLOAT_INT_EXACT then Ok (VFlt (float_of_int_repr z)) else Err OutOfFuel)
                else Err (Raise "OverflowError")
    | PBool b => Ok (VFlt (if b then "1.0" else "0.0"))
    | PStr s => match parse_float s with Ok r => Ok (VFlt r) | Err e => Err e end
    | PBad => Err OutOfFuel
    | _ => Err (Raise "TypeError")
    end.
  Definition dec_str (p : prim) : res value :=
    match py_str p with Ok s => Ok (VStr s) | Err e => Err e end.
  Definition dec_path (p : prim) : res value :=
    match p with
    | PStr s => if path_normal s then Ok (VPath s) else Err OutOfFuel
    | PBad => Err OutOfFuel
    | _ => Err (Raise "TypeError")
    end.
  Definition dec_enum (c : string) (ms : list string) (p : prim) : res value :=
    match p with
    | PStr m => if str_in m ms then Ok (VEnum c m) else Err (Raise "KeyError")
    | PBad => Err OutOfFuel
    | _ => if p_hashable p then Err (Raise "KeyError") else Err (Raise "TypeError")
    end.
  Definition dec_lit (cs : list prim) (p : prim) : res value :=
    match p with
    | PBad => Err OutOfFuel
    | _ => if existsb (py_eqb p) cs then Ok (raw p) else Err (Raise "TypeError")
    end.

  (* what `for x in val` yields *)
  Definition iter_items (p : prim) : res (list prim) :=
    match p with
    | PList ps | PTuple ps => Ok ps
    | PStr s => if all_ascii s then Ok (chars_of s) else Err OutOfFuel   (* one str per character *)
    | PDict _ kvs => Ok (map fst kvs)
    | PBad => Err OutOfFuel
    | _ => Err (Raise "TypeError")
    end.
  (* `for k, v in items` on one element of a list *)
  Definition unpack_pair (it : prim) : res (prim * prim) :=
    match it with
    | PList [a; b] | PTuple [a; b] => Ok (a, b)
    | PList _ | PTuple _ => Err (Raise "ValueError")
    | PStr s => if Nat.eqb (String.length s) 2 then Err OutOfFuel else Err (Raise "ValueError")
    | PDict _ _ | PBad => Err OutOfFuel
    | _ => Err (Raise "TypeError")
    end.

  (* try_functions: first decoder that does not raise; otherwise the value as it is *)
  Definition try_next (r : res value) (next : res value) : res value :=
    match r with
    | Ok v => Ok v
    | Err OutOfFuel => Err OutOfFuel
    | Err _ => next
    end.

  Definition all_hashable (vs : list value) : bool := forallb v_hashable vs.

  Fixpoint dict_build (acc : list (value * value)) (kvs : list (value * value)) : res (list (value * value)) :=
    match kvs with
    | [] => Ok acc
    | (k, v) :: r => if v_hashable k then dict_build (dict_set value_eqb k v acc) r else Err (Raise "TypeError")
    end.

  (* ---------- get_decoding_fn, by recursion on the annotation ---------- *)
  Fixpoint decode (t : ty) (p : prim) : res value :=
    match dispatch order preds t with
    | None => Err OutOfFuel                 (* try_constructor fall-back: not modelled *)
    | Some g =>
      match g, t with
      | DReg, TBool => dec_bool p
      | DReg, TInt => dec_int p
      | DReg, TFloat => dec_float p
      | DReg, TStr => dec_str p
      | DReg, TPath => dec_path p
      | DEnum, TEnum c ms => dec_enum c ms p
      | DLiteral, TLit cs => dec_lit cs p
      | DUnion, TOpt t1 =>
          match strat with FirstSuccess =>
            match p with
            | PNone => Ok VNone
            | PBad => Err OutOfFuel
            | _ => try_next (decode t1 p) (Ok (raw p))
            end end
      | DUnion, TUnion ts =>
          match strat with FirstSuccess =>
            match p with
            | PBad => Err OutOfFuel
            | _ => (fix first (ts : list ty) : res value :=
                      match ts with
                      | [] => Ok (raw p)
                      | t1 :: r => try_next (decode t1 p) (first r)
                      end) ts
            end end
      | DList, TList t1 =>
          match iter_items p with
          | Err e => Err e
          | Ok ps => match map_res (decode t1) ps with Ok vs => Ok (VList vs) | Err e => Err e end
          end
      | DTuple, TTupVar t1 =>
          match iter_items p with
          | Err e => Err e
          | Ok ps => match map_res (decode t1) ps with Ok vs => Ok (VTup vs) | Err e => Err e end
          end
      | DTuple, TTup ts =>
          match iter_items p with
          | Err e => Err e
          | Ok ps =>
              match (fix go (ts : list ty) (ps : list prim) : res (list value) :=
                       match ps, ts with
                       | [], _ => Ok []
                       | _ :: _, [] => Err (Raise "IndexError")
                       | q :: pr, t1 :: tr =>
                           match decode t1 q with
                           | Err e => Err e
                           | Ok v => match go tr pr with Ok vs => Ok (v :: vs) | Err e => Err e end
                           end
                       end) ts ps with
              | Ok vs => Ok (VTup vs)
              | Err e => Err e
              end
          end
      | DSet, TSet t1 =>
          match iter_items p with
          | Err e => Err e
          | Ok ps => match map_res (decode t1) ps with
                     | Ok vs => if all_hashable vs then Ok (VSet (canon_set vs)) else Err (Raise "TypeError")
                     | Err e => Err e
                     end
          end
      | DDict, TDict tk tv =>
          let items : res (bool * list (prim * prim)) :=
            match p with
            | PDict od kvs => Ok (od, kvs)
            | PList its =>
                match map_res unpack_pair its with
                | Ok kvs => Ok (true, kvs)
                | Err e => Err e
                end
            | PBad | PTuple _ => Err OutOfFuel
            | _ => Err (Raise "AttributeError")
            end in
          match items with
          | Err e => Err e
          | Ok (od, kvs) =>
              match map_res (fun kv => match decode tk (fst kv) with
                                       | Err e => Err e
                                       | Ok k => match decode tv (snd kv) with
                                                 | Err e => Err e
                                                 | Ok v => Ok (k, v) end
                                       end) kvs with
              | Err e => Err e
              | Ok dkvs => match dict_build [] dkvs with Ok d => Ok (VDict od d) | Err e => Err e end
              end
          end
      | DReg, TDc k c fs | DDataclass, TDc k c fs =>
          (* from_dict *)
          match p with
          | PNone => if fd_none then Ok VNone else Err (Raise "AttributeError")
          | PDict _ kvs =>
              match extras with ExtraDropped =>
              if match dict_get prim_eqb (PStr type_key) kvs with Some _ => true | None => false end
              then Err OutOfFuel else
              match (fix go (fs : list (string * fmeta * option value * ty))
                       : res (bool * list (string * fmeta * value)) :=
                       match fs with
                       | [] => Ok (false, [])
                       | (n, m, dflt, t1) :: r =>
                           let this : res (bool * value) :=
                             match dict_get prim_eqb (PStr n) kvs with
                             | None => match dflt with Some d => Ok (false, d) | None => Ok (true, VNone) end
                             | Some rawv =>
                                 match (match (if hook_first then eff_dec wired m else None) with Some h => decf h rawv | None => decode t1 rawv end) with
                                 | Ok v => Ok (false, v)
                                 | Err e => Err e
                                 end
                             end in
                           match this with
                           | Err e => Err e
                           | Ok (miss, v) =>
                               match go r with
                               | Err e => Err e
                               | Ok (miss', out) => Ok (miss || miss', (n, m, v) :: out)
                               end
                           end
                       end) fs with
              | Err e => Err e
              | Ok (true, _) => Err (Raise ctor_error)         (* the constructor call: missing argument *)
              | Ok (false, out) => Ok (VDc k c out)
              end end
          | PList _ | PTuple _ | PBad => Err OutOfFuel
          | _ => Err (Raise "AttributeError")                 (* d.copy() *)
          end
      | _, _ => Err OutOfFuel
      end
    end.

  Definition from_dict (t : ty) (p : prim) : res value := decode t p.
End Model.

(* ---------------------------------------------------------------------------------------------- *)
(* transports: the codecs are trusted and modelled as functions on primitives                        *)

(* json.dumps turns a dict key into a string *)
Definition json_key (k : prim) : option prim :=
  match k with
  | PStr s => Some (PStr s)
  | PInt z => Some (PStr (Z_to_dec z))
  | PBool b => Some (PStr (if b then "true" else "false"))
  | PNone => Some (PStr "null")
  | PFlt r => Some (PStr r)
  | _ => None                                   (* TypeError: keys must be str, int, float, bool or None *)
  end.
Fixpoint json_ok (p : prim) : bool :=
  match p with
  | PBad => false
  | PList ps | PTuple ps => forallb json_ok ps
  | PDict _ kvs => forallb (fun kv => match json_key (fst kv) with Some _ => true | None => false end
                                      && json_ok (snd kv)) kvs
  | _ => true
  end.
(* loads(dumps(p)): tuples become lists, OrderedDict a dict, keys strings (a later duplicate wins) *)
Fixpoint json_rt (p : prim) : prim :=
  match p with
  | PList ps | PTuple ps => PList (map json_rt ps)
  | PDict _ kvs =>
      PDict false (fold_left (fun acc kv => dict_set prim_eqb (fst kv) (snd kv) acc)
                             (map (fun kv => (match json_key (fst kv) with Some k => k | None => PBad end,
                                              json_rt (snd kv))) kvs) [])
  | _ => p
  end.
(* yaml.dump + yaml.safe_load: python/tuple and the OrderedDict tag are not loadable by the safe loader *)
Fixpoint yaml_ok (p : prim) : bool :=
  match p with
  | PBad | PTuple _ => false
  | PList ps => forallb yaml_ok ps
  | PDict od kvs => negb od && forallb (fun kv => p_hashable (fst kv) && yaml_ok (fst kv) && yaml_ok (snd kv)) kvs
  | _ => true
  end.

Inductive transport := TrDict | TrJson | TrYaml | TrPickle.
Definition T_dict (p : prim) : res prim := Ok p.
Definition T_json (p : prim) : res prim := if json_ok p then Ok (json_rt p) else Err (Raise "TypeError").
Definition T_yaml (p : prim) : res prim := if yaml_ok p then Ok p else Err (Raise "ConstructorError").
Definition T_pickle (p : prim) : res prim := if has_bad p then Err OutOfFuel else Ok p.
Definition run_transport (tr : transport) : prim -> res prim :=
  match tr with TrDict => T_dict | TrJson => T_json | TrYaml => T_yaml | TrPickle => T_pickle end.

(* save()/read_file(): the codec is chosen by the path's suffix *)
Definition codec_of_suffix (tbl : list (string * codec)) (sfx : string) : option codec := dict_get String.eqb sfx tbl.
Definition transport_of_codec (c : codec) : option transport :=
  match c with CJson => Some TrJson | CYaml => Some TrYaml | CPickle => Some TrPickle | COther => None end.

(* ---------------------------------------------------------------------------------------------- *)
(* save_dc_types=True: to_dict puts DC_TYPE_KEY -> "module.Class" first in the dict of the instance and of every
   dataclass it reaches by its own recursion (a dataclass-valued field without encoding_fn); container elements go
   through encode() and get none.  from_dict pops the key (from its COPY of the dict) and restarts on the located class. *)
Fixpoint add_types (key sep modname : string) (v : value) (p : prim) : prim :=
  match v, p with
  | VDc _ c fs, PDict od kvs =>
      PDict od ((PStr key, PStr (modname ++ sep ++ c)) ::
                map (fun kv =>
                       match fst kv with
                       | PStr n =>
                           match find (fun f => match f with (n', _, _) => String.eqb n' n end) fs with
                           | Some (_, m, x) =>
                               match m.(m_enc), x with
                               | None, VDc _ _ _ => (fst kv, add_types key sep modname x (snd kv))
                               | _, _ => kv
                               end
                           | None => kv
                           end
                       | _ => kv
                       end) kvs)
  | _, _ => p
  end.

(* the dict as the located classes see it: without the DC_TYPE_KEY entries *)
Fixpoint strip_key (key : string) (p : prim) : prim :=
  match p with
  | PList ps => PList (map (strip_key key) ps)
  | PTuple ps => PTuple (map (strip_key key) ps)
  | PDict od kvs =>
      PDict od (filter (fun kv => negb (prim_eqb (fst kv) (PStr key)))
                       (map (fun kv => (fst kv, strip_key key (snd kv))) kvs))
  | _ => p
  end.

(* what the caller's dict looks like after from_dict returned *)
Definition from_dict_arg_after (site : pop_site) (key : string) (p : prim) : prim :=
  match site with PopCopy => p | PopArgument => strip_key key p end.
