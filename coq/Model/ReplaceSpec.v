(* Model/ReplaceSpec.v — what property C18 demands of replace(obj, changes), written over PATHS (not over the code's
   loop): which leaves a change set addresses, that exactly those carry the new value afterwards, that everything
   else is what it was, and that a change aimed at an init=False or unknown field raises.  Executable, so the
   correspondence run evaluates it on every observed result.  Change sets are taken here in their abstract form
   (nested, dot-free keys); the dotted / keyword renderings are related to it by theorems and by the run. *)
From SPV Require Export Base.Str Model.Replace.

Definition path := list string.

(* the value reached from v by following INIT fields (init=False fields are derived state, not addressable) *)
Definition child (fs : list field) (k : string) : option value :=
  match flookup fs k with Some (FInit, x) => Some x | _ => None end.

Fixpoint get (v : value) (p : path) : option value :=
  match p with
  | [] => Some v
  | k :: r => match v with
              | VDc _ fs => match child fs k with Some x => get x r | None => None end
              | _ => None
              end
  end.

(* ---------- well-formedness side conditions (boolean) ---------- *)
(* field names are unique in every dataclass (Python guarantees it) *)
Fixpoint wf_obj (v : value) : bool :=
  match v with
  | VDc _ fs => str_nodupb (map fname fs) && forallb (fun f => wf_obj (fval f)) fs
  | _ => true
  end.

(* a nested change set in normal form: at every level the keys are distinct and contain no separator;
   allow_empty = false additionally forbids empty sub-dicts (they have no dotted rendering) *)
Definition keys_ok (d : dict) : bool := str_nodupb (dkeys d) && forallb nodot (dkeys d).
Fixpoint nf_val (allow_empty : bool) (v : value) : bool :=
  match v with
  | VDict d =>
      (allow_empty || match d with [] => false | _ => true end) && keys_ok d &&
      forallb (fun kv => nf_val allow_empty (snd kv)) d
  | _ => true
  end.
Definition nf_dict (allow_empty : bool) (d : dict) : bool :=
  keys_ok d && forallb (fun kv => nf_val allow_empty (snd kv)) d.
Definition deep_nf (cs : dict) : bool := nf_dict true cs.
Definition wf_nested (cs : dict) : bool := nf_dict false cs.

(* ---------- what a change set addresses ---------- *)
(* A dict under a key whose current value is a dataclass instance is a set of changes to that instance;
   anything else is the new value of that key (a dict is then an ordinary value, e.g. for a dict-typed field). *)
Section AssignsItems.
  Variable rec : value -> option value -> list (path * value).
  Variable fs : list field.
  Fixpoint assigns_items (l : dict) : list (path * value) :=
    match l with
    | [] => []
    | kx :: r => (map (fun qv => (fst kx :: fst qv, snd qv)) (rec (snd kx) (child fs (fst kx))) ++ assigns_items r)%list
    end.
End AssignsItems.
Fixpoint assigns_v (c : value) (o : option value) : list (path * value) :=
  match c, o with
  | VDict sub, Some (VDc _ fs) => assigns_items assigns_v fs sub
  | _, _ => [([], c)]
  end.
Definition assigns (o : value) (cs : dict) : list (path * value) := assigns_v (VDict cs) (Some o).

(* q names an init field of a dataclass instance reached through init fields *)
Fixpoint settable (o : value) (q : path) : bool :=
  match q with
  | [] => false
  | k :: r => match o with
              | VDc _ fs => match child fs k with
                            | Some x => match r with [] => true | _ => settable x r end
                            | None => false
                            end
              | _ => false
              end
  end.
Definition must_raise (o : value) (cs : dict) : bool :=
  existsb (fun qv => negb (settable o (fst qv))) (assigns o cs).

Fixpoint is_prefix (q p : path) : bool :=
  match q, p with
  | [], _ => true
  | a :: q', b :: p' => String.eqb a b && is_prefix q' p'
  | _, _ => false
  end.
(* no addressed path is a prefix of p: p is neither addressed nor inside a replaced subtree *)
Definition untouched (A : list (path * value)) (p : path) : bool :=
  forallb (fun qv => negb (is_prefix (fst qv) p)) A.

(* every path that exists in v *)
Section PathsFields.
  Variable rec : value -> list path.
  Fixpoint paths_fields (l : list field) : list path :=
    match l with
    | [] => []
    | f :: r => match fknd f with
                | FInit => (map (cons (fname f)) (rec (fval f)) ++ paths_fields r)%list
                | FNonInit _ _ => paths_fields r
                end
    end.
End PathsFields.
Fixpoint all_paths (v : value) : list path :=
  match v with
  | VDc _ fs => [] :: paths_fields all_paths fs
  | _ => [[]]
  end.

(* same node: equal leaves; or dataclass instances of the same class with the same fields, whose init=False fields
   hold what they held or what the constructor assigns *)
Definition field_same (a b : field) : bool :=
  String.eqb (fname a) (fname b) && fkind_eqb (fknd a) (fknd b) &&
  match fknd a with
  | FInit => true
  | FNonInit t d => value_eqb (fval b) (fval a) || value_eqb (fval b) (VLeaf t d)
  end.
Definition fields_same (f1 f2 : list field) : bool := all2 field_same f1 f2.
Definition node_same (a b : option value) : bool :=
  match a, b with
  | None, None => true
  | Some (VDc c1 f1), Some (VDc c2 f2) => String.eqb c1 c2 && fields_same f1 f2
  | Some (VDc _ _), _ | _, Some (VDc _ _) => false
  | Some x, Some y => value_eqb x y
  | _, _ => false
  end.

Definition opt_value_eqb (a b : option value) : bool :=
  match a, b with Some x, Some y => value_eqb x y | None, None => true | _, _ => false end.

Definition is_raise {A} (r : res A) : bool := match r with Err (Raise _) => true | _ => false end.

(* the frame condition, evaluated on an outcome *)
Definition frame_check (o : value) (cs : dict) (obs : res value) : bool :=
  let A := assigns o cs in
  if must_raise o cs then is_raise obs
  else match obs with
       | Err _ => false
       | Ok o' =>
           forallb (fun qv => opt_value_eqb (get o' (fst qv)) (Some (snd qv))) A &&
           forallb (fun p => implb (untouched A p) (node_same (get o p) (get o' p))) (all_paths o ++ all_paths o')
       end.

(* ---------- "the result equals applying dataclasses.replace level by level" ---------- *)
(* recursion on the CHANGE SET, in its own order, with dataclasses.replace (Model.Replace.dc_replace) as the only
   primitive *)
Section LwItems.
  Variable rec : value -> value -> res value.
  Variable fs : list field.
  Definition lw_conv (x : value) (k : string) : res value :=
    match x, child fs k with
    | VDict _, Some (VDc c' f') => rec x (VDc c' f')
    | _, _ => Ok x
    end.
  Fixpoint lw_items (l : dict) : res dict :=
    match l with
    | [] => Ok []
    | kx :: r => bind (lw_conv (snd kx) (fst kx)) (fun y => bind (lw_items r) (fun kw => Ok ((fst kx, y) :: kw)))
    end.
End LwItems.
Fixpoint levelwise_v (c : value) (o : value) : res value :=
  match c, o with
  | VDict sub, VDc _ fs => bind (lw_items levelwise_v fs sub) (dc_replace o)
  | _, _ => Err (Raise "TypeError")
  end.
Definition levelwise (o : value) (cs : dict) : res value := levelwise_v (VDict cs) o.

(* same result; or both fail (which exception wins when several changes are bad depends on iteration order) *)
Definition res_agree (a b : res value) : bool :=
  match a, b with
  | Ok x, Ok y => value_eqb x y
  | Err (Raise _), Err (Raise _) => true
  | _, _ => false
  end.

(* ====================================================================== *)
(* replace_subgroups: "swaps exactly the selected subgroup members"        *)
(* ====================================================================== *)
(* An abstract selection names a member by its PATH and says what to put there. *)
Inductive choice :=
| CKey (k : string)       (* the subgroup registered under that key *)
| CType (cls : string)    (* a fresh default instance of that dataclass *)
| CInst (v : value)       (* that instance *)
| CNone.                  (* None for an Optional member, the field's default otherwise *)

(* plain path assignment: everything off the path is untouched by construction *)
Section UpdateField.
  Variable k : string.
  Variable g : value -> option value.
  Fixpoint update_field (l : list field) : option (list field) :=
    match l with
    | [] => None
    | f :: r =>
        if String.eqb k (fname f) then
          match fknd f with
          | FInit => option_map (fun x => (fname f, FInit, x) :: r) (g (fval f))
          | FNonInit _ _ => None
          end
        else option_map (cons f) (update_field r)
    end.
End UpdateField.
Fixpoint set_path (p : path) (m : value) (o : value) : option value :=
  match p with
  | [] => Some m
  | k :: r => match o with
              | VDc cls fs => option_map (VDc cls) (update_field k (set_path r m) fs)
              | _ => None
              end
  end.

(* the member a choice denotes for the field `name` of class `cls` *)
Definition member_of (T : tables) (cls name : string) (c : choice) : option value :=
  match meta_of (t_meta T) cls name with
  | None => None
  | Some m =>
      if negb (m_has_dc m) then None
      else match c with
           | CKey k => dget (m_subgroups m) k
           | CType c' => dget (t_classes T) c'
           | CInst v => Some v
           | CNone => match m_subgroups m with
                      | _ :: _ => None
                      | [] => if m_optional m then Some (VLeaf "NoneType" "None") else m_factory m
                      end
           end
  end.

Fixpoint split_last (p : path) : option (path * string) :=
  match p with
  | [] => None
  | [k] => Some ([], k)
  | k :: r => match split_last r with Some (q, l) => Some (k :: q, l) | None => None end
  end.

(* apply the selections one after the other (the generator lists them shallowest first); None = some selection does
   not denote a member (unknown field, unknown key, a field that holds no dataclass): the call must raise *)
Fixpoint expected_sub (T : tables) (sels : list (path * choice)) (o : value) : option value :=
  match sels with
  | [] => Some o
  | (p, c) :: r =>
      match split_last p with
      | None => None
      | Some (q, name) =>
          match get o q with
          | Some (VDc cls fs) =>
              match child fs name, member_of T cls name c with
              | Some _, Some m => match set_path p m o with Some o1 => expected_sub T r o1 | None => None end
              | _, _ => None
              end
          | _ => None
          end
      end
  end.

Definition sub_check (T : tables) (sels : list (path * choice)) (o : value) (obs : res value) : bool :=
  match expected_sub T sels o with
  | None => is_raise obs
  | Some e => match obs with Ok o' => value_eqb o' e | Err _ => false end
  end.

(* ---------- selections as trees (the nested form), their abstract reading and their rendering ---------- *)
Definition sel_of_choice (c : choice) : sel :=
  match c with CKey k => SKey k | CType c' => SType c' | CInst v => SInst v | CNone => SNone end.

(* per member: what to put there (if anything), and the selections below it *)
Inductive stree := SNode (own : option choice) (kids : list (string * stree)).
Definition forest := list (string * stree).

(* the abstract selections a forest denotes: a member before the members below it *)
Fixpoint paths_tree (t : stree) : list (path * choice) :=
  match t with
  | SNode own kids =>
      ((match own with Some c => [([], c)] | None => [] end) ++
       flat_map (fun kt => map (fun pc => (fst kt :: fst pc, snd pc)) (paths_tree (snd kt))) kids)%list
  end.
Definition paths_forest (F : forest) : list (path * choice) :=
  flat_map (fun kt => map (fun pc => (fst kt :: fst pc, snd pc)) (paths_tree (snd kt))) F.

(* the nested dict that is passed: {"a": {"__key__": choice, "b": ...}}; a member without selections below it is
   passed as the bare choice *)
Fixpoint render_tree (kw : string) (t : stree) : sel :=
  match t with
  | SNode own kids =>
      match own, kids with
      | Some c, [] => sel_of_choice c
      | _, _ => SDict ((match own with Some c => [(kw, sel_of_choice c)] | None => [] end) ++
                       map (fun kt => (fst kt, render_tree kw (snd kt))) kids)%list
      end
  end.
Definition render_forest (kw : string) (F : forest) : sdict := map (fun kt => (fst kt, render_tree kw (snd kt))) F.

(* ---------- what the annotation helpers are for ---------- *)
(* a field can hold a dataclass member: its annotation is one, is a list/tuple of them, or is a Union with such an arm *)
Fixpoint spec_holds_dc (t : ann) : bool :=
  match t with
  | ADc | ATypeVarDc | AListDc => true
  | AUnion l => existsb spec_holds_dc l
  | _ => false
  end.
(* None is an allowed value: Union[..., None] / Literal[..., None] *)
Definition spec_optional (t : ann) : bool :=
  match t with
  | AUnion l => existsb p_is_nonetype l
  | ALiteral b => b
  | _ => false
  end.
