(* Model/DocScanSpec.v — what property C19 demands, written without reference to the scanner.

   A LAYOUT describes how the author wrote a dataclass: one field per line, each with an optional comment
   block directly above, an optional inline comment, an optional docstring directly below (one line or
   several lines, either triple-quote style), blank lines between fields.  `render` prints a layout as source
   lines (the correspondence run writes exactly these lines into real modules); `docs` is the documentation
   the author attached to a field.  The property: what the library reports for a field is `docs` of that
   field (nothing from another field, nothing invented), each kind of documentation from the nearest class
   of the inheritance chain that provides it, and the help text is chosen by the fixed precedence. *)
From SPV Require Export Base.Str.

Definition NLs : string := String (ascii_of_nat 10) "".
Definition join_text (l : list string) : string := String.concat NLs l.

Inductive qstyle := Dq | Sq.
Definition qtok (q : qstyle) : string := match q with Dq => """""""" | Sq => "'''" end.

(* a docstring below a field: on one line, or opening line / middle lines / closing line.  The first and
   last text may be empty (quotes on their own lines). *)
Inductive dstr :=
| DOne (q : qstyle) (s : string)
| DMulti (q : qstyle) (first : string) (mids : list string) (last : string).

Record fld := mkfld {
  f_name : string;
  f_type : string;
  f_value : option string;        (* default value text *)
  f_blank : nat;                  (* blank lines before this field's group *)
  f_above : list string;          (* comment block directly above, one text per line *)
  f_inline : option string;
  f_below : option dstr
}.

Record layout := mklayout {
  l_hdr : list string;            (* decorator lines, the class line, what is left of the class docstring *)
  l_ind : nat;                    (* indentation of the class body *)
  l_fields : list fld;
  l_trail : nat                   (* blank lines after the last field *)
}.

(* ---------- printer ---------- *)
Definition spaces (n : nat) : string := repeat_char " "%char n.

Definition render_below (ind : string) (d : dstr) : list string :=
  match d with
  | DOne q s => [ind ++ qtok q ++ s ++ qtok q]
  | DMulti q a ms z => ((ind ++ qtok q ++ a) :: map (fun m => ind ++ m) ms) ++ [ind ++ z ++ qtok q]
  end.

Definition value_text (v : option string) : string := match v with Some x => " = " ++ x | None => "" end.
Definition inline_text (c : option string) : string := match c with Some x => "  # " ++ x | None => "" end.

Definition field_line (ind : string) (f : fld) : string :=
  ind ++ f_name f ++ ": " ++ f_type f ++ value_text (f_value f) ++ inline_text (f_inline f).

Definition render_fld (ind : string) (f : fld) : list string :=
  (repeat "" (f_blank f) ++ map (fun c => ind ++ "# " ++ c) (f_above f))
  ++ field_line ind f
  :: match f_below f with Some d => render_below ind d | None => [] end.

Definition render (L : layout) : list string :=
  l_hdr L ++ flat_map (render_fld (spaces (l_ind L))) (l_fields L) ++ repeat "" (l_trail L).

(* ---------- the documentation written for a field ---------- *)
Record fdoc := mkfdoc { d_above : string; d_inline : string; d_below : string }.

Definition below_text (d : dstr) : string :=
  match d with
  | DOne _ s => s
  | DMulti _ a ms z => join_text (a :: ms ++ [z])
  end.

Definition fld_doc (f : fld) : fdoc :=
  mkfdoc (join_text (f_above f))
         (match f_inline f with Some c => c | None => "" end)
         (match f_below f with Some d => below_text d | None => "" end).

Fixpoint docs_fields (fs : list fld) (name : string) : option fdoc :=
  match fs with
  | [] => None
  | f :: r => if String.eqb (f_name f) name then Some (fld_doc f) else docs_fields r name
  end.

(* None: the class does not declare the field *)
Definition docs (L : layout) (name : string) : option fdoc := docs_fields (l_fields L) name.

(* ---------- inheritance: each kind from the nearest class that provides it ---------- *)
(* what ONE class of the chain provides for the field: the three positions next to its own declaration (empty
   when it does not declare the field) and the field's entry in its class docstring *)
Record provided := mkprov { w_above : string; w_inline : string; w_below : string; w_entry : string }.

Definition provided_by (d : option fdoc) (entry : string) : provided :=
  match d with
  | Some x => mkprov (d_above x) (d_inline x) (d_below x) entry
  | None => mkprov "" "" "" entry
  end.

Fixpoint nearest (sel : provided -> string) (chain : list provided) : string :=
  match chain with
  | [] => ""
  | w :: r => if String.eqb (sel w) "" then nearest sel r else sel w
  end.

(* chain: the classes from the queried one up to the root, nearest first *)
Definition spec_parts (chain : list provided) : provided :=
  mkprov (nearest w_above chain) (nearest w_inline chain) (nearest w_below chain) (nearest w_entry chain).

(* ---------- precedence of the help text ---------- *)
(* explicit help=, docstring below, comment above, inline comment, class-docstring entry; None = no help *)
Definition spec_help (explicit : option string) (p : provided) : option string :=
  let cands := (match explicit with Some h => h | None => "" end)
                 :: [w_below p; w_above p; w_inline p; w_entry p] in
  match filter (fun s => negb (String.eqb s "")) cands with
  | [] => None
  | s :: _ => Some s
  end.

Definition prov_eqb (a b : provided) : bool :=
  String.eqb (w_above a) (w_above b) && String.eqb (w_inline a) (w_inline b)
  && String.eqb (w_below a) (w_below b) && String.eqb (w_entry a) (w_entry b).

(* ---------- what the argparse action receives ---------- *)
(* the demanded help text when there is one; otherwise nothing that could be read as documentation: no help at
   all, or the placeholder the help formatter erases again (it only makes argparse print the default value) *)
(* the explicit help= of a field: given to simple_parsing's field(help=..) or as dataclasses metadata *)
Definition explicit_help (custom metadata : option string) : option string :=
  match custom with Some c => Some c | None => metadata end.

Definition PLACEHOLDER : string := "<__TEMP__>".
Definition spec_action_help (demanded : option string) (observed : option string) : bool :=
  match demanded, observed with
  | Some s, Some o => String.eqb s o
  | Some _, None => false
  | None, None => true
  | None, Some o => String.eqb o PLACEHOLDER
  end.
