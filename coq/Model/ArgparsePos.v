(* Model/ArgparsePos.v — POSITIONAL arguments added to the token-level argparse model (Model/ArgparseM.v, unchanged):
   CPython 3.12.1 ArgumentParser._parse_known_args with both kinds of actions — consume_positionals /
   _match_arguments_partial (the regular expression over the 'A'/'O' pattern: the longest prefix of the remaining
   positionals whose concatenated nargs patterns match the current run of 'A's, greedy with backtracking), interleaved
   with consume_optional, the final consume_positionals call (which also consumes '?' / '*' positionals with no token
   and so routes their defaults through _get_values), leftovers, required.
   A positional is an action with NO option string (a_opts = []); nargs None / N / ? / * / +.  Its `required` flag is
   what argparse derives (a_req is data here: the harness reports it).
   Outside the model (in_model_scopeP): the bare `--` token, nargs=0, REMAINDER/PARSER, sub-commands, a `*` positional
   that has BOTH choices and a non-None default (argparse then tests the default itself against the choices).
   Definitions only. *)
From SPV Require Export Base.Str Model.Namespace Model.LeafSpec Model.ArgparseM.

(* ---------- _match_arguments_partial on a run of `m` argument tokens ---------- *)
Definition min_of (n : nargs_t) : nat :=
  match n with NaOne => 1 | NaOpt => 0 | NaStar => 0 | NaPlus => 1 | NaNum k => k end.
Definition max_of (n : nargs_t) (avail : nat) : nat :=
  match n with NaOne => 1 | NaOpt => 1 | NaStar => avail | NaPlus => avail | NaNum k => k end.
Fixpoint minsum (l : list nargs_t) : nat :=
  match l with [] => 0 | n :: r => min_of n + minsum r end.

(* how many of the positionals take part: the longest prefix whose patterns can match within m tokens *)
Fixpoint fit (l : list nargs_t) (m : nat) : list nargs_t :=
  match l with
  | [] => []
  | n :: r => if Nat.leb (min_of n) m then n :: fit r (m - min_of n) else []
  end.

(* the groups of the match: each pattern greedy, giving back only what the patterns after it need *)
Fixpoint alloc (l : list nargs_t) (m : nat) : list nat :=
  match l with
  | [] => []
  | n :: r => let k := Nat.min (max_of n m) (m - minsum r) in k :: alloc r (m - k)
  end.

Definition match_partial (l : list nargs_t) (m : nat) : list nat := alloc (fit l m) m.

(* how the token loop stands: after an option with `skip` of its argument tokens still to pass (MOpt 0: a new run of
   argument tokens would be offered to the positionals), or inside a run already offered, with `drop` tokens taken by
   positionals still to pass (the others of the run are leftovers) *)
Inductive mode := MOpt (skip : nat) | MRun (drop : nat).

Section MP.
  Variable V : Type.
  Variable K : Type.
  Variable cvt : K -> string -> res V.
  Variable veqb : V -> V -> bool.
  Notation actT := (act V K).
  Notation storedT := (stored V).

  Definition is_positional (a : actT) : bool := match a_opts a with [] => true | _ => false end.

  (* _get_positional_actions: indices, in declaration order *)
  Fixpoint positionals_from (i : nat) (acts : list actT) : list nat :=
    match acts with
    | [] => []
    | a :: r => if is_positional a then i :: positionals_from (S i) r else positionals_from (S i) r
    end.
  Definition positionals (acts : list actT) : list nat := positionals_from 0 acts.

  Definition na_at (acts : list actT) (i : nat) : nargs_t :=
    match nth_error acts i with Some a => a_na a | None => NaOne end.

  (* _get_values for a positional *)
  Definition pos_values (a : actT) (toks : list string) : res storedT :=
    match toks, a_na a with
    | [], NaOpt =>                                   (* value = action.default; a string goes through type and choices *)
        match a_dflt a with
        | SRaw s => match cvt (a_cv a) s with
                    | Err e => Err e
                    | Ok v => if check_choice veqb a v then Ok (SOne v) else Err (Exit 2)
                    end
        | d => Ok d
        end
    | [], NaStar =>                                  (* the default itself when it is not None, else [] *)
        match a_dflt a with
        | SNone => Ok (SMany [])
        | d => match a_choices a with None => Ok d | Some _ => Err (Exit 2) (* outside the model *) end
        end
    | _, _ => values_of cvt veqb a toks
    end.

  (* take_action for the matched positionals, left to right *)
  Fixpoint apply_pos (acts : list actT) (pcs : list (nat * nat)) (toks : list string)
           (n : ns storedT) (seen : list nat) : res (ns storedT * list nat) :=
    match pcs with
    | [] => Ok (n, seen)
    | (p, k) :: r =>
        match nth_error acts p with
        | None => Err (Exit 2)
        | Some a =>
            match pos_values a (firstn k toks) with
            | Err e => Err e
            | Ok v => apply_pos acts r (skipn k toks) (set_ns n (a_dest a) v) (p :: seen)
            end
        end
    end.

  (* consume_positionals on a run of argument tokens: new namespace, seen, remaining positionals, tokens taken *)
  Definition consume_pos (acts : list actT) (posl : list nat) (toks : list string)
             (n : ns storedT) (seen : list nat) : res (ns storedT * list nat * list nat * nat) :=
    let counts := match_partial (map (na_at acts) posl) (List.length toks) in
    match apply_pos acts (combine posl counts) toks n seen with
    | Err e => Err e
    | Ok (n', seen') => Ok (n', seen', skipn (List.length counts) posl, fold_right Nat.add 0 counts)
    end.

  (* the loop of _parse_known_args over the classified tokens *)
  Fixpoint runP (acts : list actT) (posl : list nat) (n : ns storedT) (seen : list nat) (extras : list string)
           (md : mode) (cs : list (string * cls)) : res (ns storedT * list nat * list string) :=
    match cs with
    | [] =>
        match md with
        | MRun _ => Ok (n, seen, extras)              (* the run that ends the command line was the final call *)
        | MOpt _ =>                                   (* the final consume_positionals call, on no token *)
            match consume_pos acts posl [] n seen with
            | Err e => Err e
            | Ok (n', seen', _, _) => Ok (n', seen', extras)
            end
        end
    | (s, c) :: r =>
        match md, c with
        | MOpt (S j), _ => runP acts posl n seen extras (MOpt j) r
        | MRun (S d), _ => runP acts posl n seen extras (MRun d) r
        | MRun 0, CA => runP acts posl n seen (extras ++ [s])%list (MRun 0) r
        | MOpt 0, CA =>
            (* a run of argument tokens starts here: offer it to the remaining positionals, once *)
            let m := count_A cs in
            match consume_pos acts posl (map fst (firstn m cs)) n seen with
            | Err e => Err e
            | Ok (n', seen', posl', total) =>
                match total with
                | 0 => runP acts posl' n' seen' (extras ++ [s])%list (MRun 0) r
                | S t => runP acts posl' n' seen' extras (MRun t) r
                end
            end
        | _, CUnknown => runP acts posl n seen (extras ++ [s])%list (MOpt 0) r
        | _, CAmbig => Err (Exit 2)
        | _, CO i _ expl =>
            match nth_error acts i with
            | None => Err (Exit 2)
            | Some a =>
                match expl with
                | Some e =>
                    match count_for (a_na a) 1 with
                    | Some 1 => match values_of cvt veqb a [e] with
                                | Ok v => runP acts posl (set_ns n (a_dest a) v) (i :: seen) extras (MOpt 0) r
                                | Err x => Err x end
                    | _ => Err (Exit 2)
                    end
                | None =>
                    match count_for (a_na a) (count_A r) with
                    | None => Err (Exit 2)
                    | Some k => match values_of cvt veqb a (map fst (firstn k r)) with
                                | Ok v => runP acts posl (set_ns n (a_dest a) v) (i :: seen) extras (MOpt k) r
                                | Err x => Err x end
                    end
                end
            end
        end
    end.

  Definition parse_knownP (ab : bool) (acts : list actT) (argv : list string) : res (ns storedT * list string) :=
    let cs := lex ab acts argv in
    if existsb (fun p => is_ambig (snd p)) cs then Err (Exit 2) else
    match runP acts (positionals acts) (init_ns acts) [] [] (MOpt 0) cs with
    | Err e => Err e
    | Ok (n, seen, extras) =>
        match finish cvt 0 acts seen n false with
        | Ok n' => Ok (n', extras)
        | Err e => Err e
        end
    end.

  Definition parse_argsP (ab : bool) (acts : list actT) (argv : list string) : res (ns storedT) :=
    match parse_knownP ab acts argv with
    | Ok (n, []) => Ok n
    | Ok (_, _ :: _) => Err (Exit 2)
    | Err e => Err e
    end.

  (* ---------- what the model covers ---------- *)
  Definition actP_ok (a : actT) : bool :=
    match a_opts a with
    | [] => match a_na a with NaNum 0 => false | _ => true end
            && match a_na a, a_choices a, a_dflt a with
               | NaStar, Some _, SNone => true
               | NaStar, Some _, _ => false
               | _, _, _ => true end
    | _ => act_ok a
    end.
  Definition in_model_scopeP (ab : bool) (acts : list actT) (argv : list string) : bool :=
    forallb actP_ok acts
    && str_nodupb (map fst (all_opts 0 acts))
    && str_nodupb (map a_dest acts)
    && forallb (fun p => negb (String.eqb (fst p) "--")
                         && match snd p with CO _ _ (Some e) => negb (String.eqb e "--") | _ => true end)
               (lex ab acts argv).
End MP.

Arguments is_positional {V K}. Arguments positionals_from {V K}. Arguments positionals {V K}. Arguments na_at {V K}.
Arguments pos_values {V K}. Arguments apply_pos {V K}. Arguments consume_pos {V K}. Arguments runP {V K}.
Arguments parse_knownP {V K}. Arguments parse_argsP {V K}. Arguments actP_ok {V K}. Arguments in_model_scopeP {V K}.

Definition iparse_knownP := parse_knownP icvt ival_eqb.
Definition iparse_argsP := parse_argsP icvt ival_eqb.
