(* Model/SubgroupsSpec.v — what property C07 demands, written top-down over the DECLARED tree and in terms of what
   the user addressed (destinations), not of rounds, parsers, option tables or wrappers.  Executable: the
   correspondence evaluates it on every observed result.  Only the data types (dc / sgfs / alts / source / val,
   paths) and small list helpers (keys, override, parse_int) are taken from Model/Subgroups.v. *)
From SPV Require Export Base.Str Model.Subgroups.

(* one written `option value`, by what the option denotes: Some destination (of a leaf or of a subgroup field,
   wherever in the declared tree), or None for an option that denotes nothing *)
Definition itok := (option path * string)%type.

Definition igiven (its : list itok) (q : path) : list string :=
  map snd (filter (fun t => match fst t with Some p => path_eqb p q | None => false end) its).

(* "the key given on the command line (or the declared default key when absent)"; "an unknown key is rejected" *)
Definition spec_key (dflt : option string) (ks : list string) (g : list string) : option string :=
  if forallb (fun k => str_in k ks) g then
    match last_opt g with Some k => Some k | None => dflt end
  else None.

(* "what the chosen entry (dataclass type, partial or frozen instance) produces" *)
Definition spec_leaves (src : source) (l : list (string * Z)) : list (string * Z) :=
  match src with SType => l | SPartial ov => override l ov | SInst lv => override l lv end.

(* "overridden by exactly the options passed for that group" *)
Definition sleaf (its : list itok) (q : path) (dv : Z) : Z :=
  match last_opt (igiven its q) with
  | Some v => match parse_int v with Some n => n | None => dv end
  | None => dv
  end.

Definition src_is_inst (src : source) : bool := match src with SInst _ => true | _ => false end.

(* value, chosen keys (destination, key), leaf destinations of the selected configuration, and whether the demanded
   value is under-determined: a frozen instance carries its own value for a nested subgroup field while that field
   also declares a default key, and no key was given (then only "no crash" is demanded). *)
Definition sout (A : Type) := option (A * list (path * string) * list path * bool)%type.

Fixpoint sp_dc (its : list itok) (p : path) (src : source) (d : dc) : sout val :=
  match d with
  | Dc c l s =>
      match sp_sg its p (src_is_inst src) s with
      | None => None
      | Some (vs, ch, lp, soft) =>
          Some (V c (map (fun nd => (fst nd, sleaf its (snoc p (fst nd)) (snd nd))) (spec_leaves src l)) vs,
                ch, (map (fun nd => snoc p (fst nd)) l ++ lp)%list, soft)
      end
  end
with sp_sg (its : list itok) (p : path) (inst : bool) (s : sgfs) : sout vals :=
  match s with
  | SNil => Some (VNil, [], [], false)
  | SUn f dflt t r =>
      let q := snoc p f in
      match spec_key dflt (keys t) (igiven its q) with
      | None => None
      | Some k =>
          match sp_alts its q k t with
          | None => None
          | Some (v, ch, lp, soft) =>
              match sp_sg its p inst r with
              | None => None
              | Some (vs, ch', lp', soft') =>
                  Some (VCons f v vs, ((q, k) :: ch ++ ch')%list, (lp ++ lp')%list,
                        soft || soft' || (inst && is_some dflt && match igiven its q with [] => true | _ => false end))
              end
          end
      end
  | SRe f dflt t _ _ _ r =>          (* a choice already recorded in the tree is not part of a declaration: ignored *)
      let q := snoc p f in
      match spec_key dflt (keys t) (igiven its q) with
      | None => None
      | Some k =>
          match sp_alts its q k t with
          | None => None
          | Some (v, ch, lp, soft) =>
              match sp_sg its p inst r with
              | None => None
              | Some (vs, ch', lp', soft') =>
                  Some (VCons f v vs, ((q, k) :: ch ++ ch')%list, (lp ++ lp')%list,
                        soft || soft' || (inst && is_some dflt && match igiven its q with [] => true | _ => false end))
              end
          end
      end
  end
with sp_alts (its : list itok) (q : path) (k : string) (t : alts) : sout val :=
  match t with
  | ANil => None
  | ACons k' src d r => if String.eqb k' k then sp_dc its q src d else sp_alts its q k r
  end.

(* "options that exist only in an unchosen alternative are rejected": every written option must denote a leaf or a
   subgroup field of the selected configuration (and a leaf's value must be an int) *)
Definition intent_ok (ch : list (path * string)) (lp : list path) (t : itok) : bool :=
  match fst t with
  | None => false
  | Some q => path_in q (map fst ch) || (path_in q lp && is_some (parse_int (snd t)))
  end.

(* BeOrReject: for a command line on which an option was abbreviated - it may be refused (ambiguous, not understood), but if
   it is accepted it must have been read as what it abbreviates *)
Inductive expect := MustBe (v : val) (chosen : list (path * string)) | BeOrReject (v : val) (chosen : list (path * string))
                  | MustReject | NoCrash.
Definition relax (loose : bool) (e : expect) : expect :=
  match e with MustBe v ch => if loose then BeOrReject v ch else e | _ => e end.

Definition spec (d : dc) (root : path) (its : list itok) : expect :=
  match sp_dc its root SType d with
  | None => MustReject
  | Some (v, ch, lp, soft) =>
      if forallb (intent_ok ch lp) its then (if soft then NoCrash else MustBe v ch) else MustReject
  end.

(* argparse's prefix matching on the MAIN parser is set aside by the property ("abbreviations aside"): nothing is demanded
   of a command line on which some written option is not a registered spelling of the resolved parser but a proper prefix
   of a registered spelling of something OTHER than what it denotes (`--lr` of an unchosen group while `--lrd` is
   registered).  An option written as an abbreviation of what it denotes is not excused (see BeOrReject). *)
Definition reads_as_other (tb : optab) (o : string) (intent : option path) : bool :=
  negb (is_some (exact tb o))
  && existsb (fun e => prefixb o (fst e)
                       && negb (match intent with Some q => path_eqb q (snd e) | None => false end)) tb.

(* ---------- comparing with an outcome ---------- *)
Fixpoint leaves_eqb (a b : list (string * Z)) : bool :=
  match a, b with
  | [], [] => true
  | x :: r, y :: s => String.eqb (fst x) (fst y) && Z.eqb (snd x) (snd y) && leaves_eqb r s
  | _, _ => false
  end.
Fixpoint val_eqb (a b : val) : bool :=
  match a, b with V c l s, V c' l' s' => String.eqb c c' && leaves_eqb l l' && vals_eqb s s' end
with vals_eqb (a b : vals) : bool :=
  match a, b with
  | VNil, VNil => true
  | VCons f v r, VCons f' v' r' => String.eqb f f' && val_eqb v v' && vals_eqb r r'
  | _, _ => false
  end.
(* "the namespace reports the chosen key for every subgroup": same pairs, any order *)
Definition rep_eqb (a b : list (path * string)) : bool :=
  Nat.eqb (List.length a) (List.length b)
  && forallb (fun x => existsb (fun y => path_eqb (fst x) (fst y) && String.eqb (snd x) (snd y)) b) a.

Definition expect_allows (e : expect) (o : res (val * list (path * string))) : bool :=
  match e, o with
  | MustBe v ch, Ok (v', rep) => val_eqb v v' && rep_eqb ch rep
  | MustBe _ _, Err _ => false
  | BeOrReject v ch, Ok (v', rep) => val_eqb v v' && rep_eqb ch rep
  | BeOrReject _ _, Err (Exit n) => negb (Nat.eqb n 0)
  | BeOrReject _ _, Err _ => false
  | MustReject, Err (Exit n) => negb (Nat.eqb n 0)
  | MustReject, _ => false
  | NoCrash, Err (Raise _) => false
  | NoCrash, Err OutOfFuel => false
  | NoCrash, _ => true
  end.

(* ---------- Union[A, B] field: "behaves the same way with sub-command names as keys" ---------- *)
Definition ftok := (option string * string)%type.      (* the leaf (by name) an option denotes in ITS parser *)
Definition fgiven (its : list ftok) (n : string) : list string :=
  map snd (filter (fun t => match fst t with Some m => String.eqb m n | None => false end) its).
Definition fleaf (its : list ftok) (nd : string * Z) : string * Z :=
  (fst nd, match last_opt (fgiven its (fst nd)) with
           | Some v => match parse_int v with Some n => n | None => snd nd end
           | None => snd nd end).
Definition fintent_ok (l : list (string * Z)) (t : ftok) : bool :=
  match fst t with
  | None => false
  | Some n => is_some (assoc_leaf n l) && is_some (parse_int (snd t))
  end.

(* the parent's options come before the sub-command name, the member's after it *)
Definition cmd_spec (cname : string) (pleaves : list (string * Z)) (field : string)
           (table : list (string * (string * list (string * Z)))) (dflt : option string)
           (before : list ftok) (name : option string) (after : list ftok) : expect :=
  if negb (forallb (fintent_ok pleaves) before) then MustReject else
  match name with
  | Some k =>
      match assoc_str k table with
      | None => MustReject
      | Some (c, l) =>
          if forallb (fintent_ok l) after
          then MustBe (V cname (map (fleaf before) pleaves) (VCons field (V c (map (fleaf after) l) VNil) VNil)) []
          else MustReject
      end
  | None =>
      match after, dflt with
      | [], Some k => match assoc_str k table with
                      | Some (c, l) => MustBe (V cname (map (fleaf before) pleaves) (VCons field (V c l VNil) VNil)) []
                      | None => MustReject
                      end
      | _, _ => MustReject
      end
  end.

(* what each written option denotes when options are read exactly (theorem side; in the correspondence the harness
   supplies the denotations itself) *)
Definition intents_of (tb : optab) (argv : list tok) : list itok := map (fun t => (exact tb (fst t), snd t)) argv.
