(* Model/OptStr.v — executable model of FieldWrapper.option_strings (field_wrapper.py) and of the
   ConflictResolver (conflicts.py) for the NONE / EXPLICIT / AUTO modes.  Definitions only. *)
From SPV Require Export Base.Str.

Inductive dashv := DUnderscore | DBoth | DDash.          (* DashVariant: AUTO = UNDERSCORE = False; UNDERSCORE_AND_DASH; DASH *)
Inductive genmode := GFlat | GNested | GBoth.            (* ArgumentGenerationMode *)
Inductive nestmode := NDefault | NWithoutRoot.           (* NestedMode *)
Record cfg := mkcfg { dv : dashv; gm : genmode; nm : nestmode }.

(* one field wrapper: parent destination words, field name, current prefix, aliases, positional flag *)
Record fw := mkfw { path : list string; name : string; pfx : string; aliases : list string; positional : bool }.
Definition set_pfx (f : fw) (p : string) : fw :=
  {| path := path f; name := name f; pfx := p; aliases := aliases f; positional := positional f |}.
Definition level (f : fw) : nat := List.length (path f).        (* FieldWrapper.nesting_level *)
Definition parent_dest (f : fw) : string := join_dot (path f).
Definition dest (f : fw) : string := join_dot (path f ++ [name f]).
Definition explicit_pfx (f : fw) : string := parent_dest f ++ ".".

Definition us2dash (s : string) : string := replace_char "_"%char "-"%char s.
Definition dash_for (s : string) : string := if Nat.eqb (String.length s) 1 then "-" else "--".

(* alias -> (dash, name after the dashes) *)
Definition alias_parts (a : string) : string * string :=
  if prefixb "--" a then ("--", drop 2 a)
  else if prefixb "-" a then ("-", drop 1 a)
  else (dash_for a, a).

(* the (dash, option) pairs in the order the code appends them, before de-duplication *)
Definition raw_pairs (c : cfg) (f : fw) : list (string * string) :=
  let dash := dash_for (name f) in
  let option0 := pfx f ++ name f in
  let nested0 := match nm c with
                 | NDefault => dest f
                 | NWithoutRoot => join_dot (tl (split_dot (dest f)))
                 end in
  let option := match dv c with DDash => us2dash option0 | _ => option0 end in
  let nested := match dv c with DDash => us2dash nested0 | _ => nested0 end in
  let candidates := match gm c with GFlat => [option] | GNested => [nested] | GBoth => [option; nested] end in
  let gen := (map (fun o => (dash, o)) candidates
             ++ (if String.eqb dash "-" then map (fun o => ("--", o)) candidates else []))%list in
  let als := map (fun a => let (d, n) := alias_parts a in (d, pfx f ++ n)) (aliases f) in
  let base := (gen ++ als)%list in
  let extra := match dv c with
               | DBoth => map (fun p => let o := us2dash (snd p) in (dash_for o, o))
                              (filter (fun p => has_char "_"%char (snd p)) base)
               | _ => []
               end in
  (base ++ extra)%list.

Definition raw_options (c : cfg) (f : fw) : list string :=
  if positional f then [dest f] else map (fun p => fst p ++ snd p) (raw_pairs c f).

(* de-duplicated, then sorted by length (stable).  The order among equal-length spellings is the
   insertion order here; whether the code preserves it is a regenerated fact used by C16. *)
Definition option_strings (c : cfg) (f : fw) : list string :=
  if positional f then [dest f] else sort_by String.length (dedupe (raw_options c f) []).

(* ---------- conflicts ---------- *)
Inductive crmode := CRNone | CRExplicit | CRAuto.

Section Resolver.
  Variable opts : fw -> list string.       (* = option_strings cfg *)

  Fixpoint index_opts (i : nat) (fs : list fw) : list (string * nat) :=
    match fs with [] => [] | f :: r => (map (fun o => (o, i)) (opts f) ++ index_opts (S i) r)%list end.
  Definition holders (o : string) (tbl : list (string * nat)) : list nat :=
    map snd (filter (fun p => String.eqb (fst p) o) tbl).
  (* first option string, in insertion order of the dict, that two or more field wrappers hold *)
  Fixpoint first_conflict (tbl all : list (string * nat)) : option (string * list nat) :=
    match tbl with
    | [] => None
    | (o, _) :: r => let hs := holders o all in
                     if Nat.ltb 1 (List.length hs) then Some (o, hs) else first_conflict r all
    end.
  Definition get_conflict (fs : list fw) : option (string * list nat) :=
    let t := index_opts 0 fs in first_conflict t t.

  Definition nth_fw (fs : list fw) (i : nat) : fw := nth i fs (mkfw [] "" "" [] false).
  Fixpoint update (fs : list fw) (i : nat) (f : fw) : list fw :=
    match fs, i with
    | [], _ => []
    | _ :: r, 0 => f :: r
    | x :: r, S j => x :: update r j f
    end.

  (* _fix_conflict_auto on one field wrapper; `auto_index a u` is a regenerated fact *)
  Variable auto_index : nat -> nat -> nat.
  Variable exhausted_err : err.           (* regenerated: how "no word left to add" ends (CRE, or an assertion) *)
  Definition auto_one (f : fw) : res fw :=
    let cur := pfx f in let ex := explicit_pfx f in
    if String.eqb cur ex then Err CRE else
    let av := words ex in let us := words cur in
    if Nat.leb (List.length av) (List.length us) then Err exhausted_err else
    Ok (set_pfx f (nth (auto_index (List.length av) (List.length us)) av "" ++ "." ++ cur)).
  Fixpoint auto_all (fs : list fw) (ids : list nat) : res (list fw) :=
    match ids with
    | [] => Ok fs
    | i :: r => match auto_one (nth_fw fs i) with
                | Err e => Err e
                | Ok f' => auto_all (update fs i f') r
                end
    end.
  Variable skip_first_strict : bool.      (* regenerated: the comparison is `<` (true) rather than `<=` *)
  Definition fix_auto (fs : list fw) (ids : list nat) : res (list fw) :=
    let s := sort_by (fun i => level (nth_fw fs i)) ids in
    match s with
    | a :: b :: r =>
        let la := level (nth_fw fs a) in let lb := level (nth_fw fs b) in
        if (if skip_first_strict then Nat.ltb la lb else Nat.leb la lb)
        then auto_all fs (b :: r) else auto_all fs s
    | _ => Ok fs
    end.

  Definition fix_explicit (fs : list fw) (o : string) (ids : list nat) : res (list fw) :=
    if existsb (fun i => negb (String.eqb (pfx (nth_fw fs i)) "")) ids then Err CRE else
    let fs' := fold_left (fun acc i => update acc i (set_pfx (nth_fw acc i) (explicit_pfx (nth_fw acc i)))) ids fs in
    match get_conflict (map (nth_fw fs') ids) with
    | Some (o', _) => if String.eqb o' o then Err CRE else Ok fs'
    | None => Ok fs'
    end.

  (* resolve_and_flatten's while loop; fuel = max_attempts (regenerated).  As in the code, the attempt that
     brings the counter to max_attempts raises even if it resolved the last conflict. *)
  Fixpoint loop (m : crmode) (fuel : nat) (fs : list fw) : res (list fw) :=
    match get_conflict fs with
    | None => Ok fs
    | Some (o, ids) =>
        match fuel with
        | 0 => Err CRE
        | S k =>
            match m with
            | CRNone => Err CRE
            | CRExplicit => match fix_explicit fs o ids with
                            | Err e => Err e
                            | Ok fs' => match k with 0 => Err CRE | _ => loop m k fs' end
                            end
            | CRAuto => match fix_auto fs ids with
                        | Err e => Err e
                        | Ok fs' => match k with 0 => Err CRE | _ => loop m k fs' end
                        end
            end
        end
    end.
End Resolver.
