(* Model/ArgparseMSpec.v — the argparse INTERFACE that the SimpleParsing models rely on (DESIGN section 2, I1-I6
   and the per-field "one option group" abstraction of Model/Leaf.v), as executable predicates: they are
   evaluated on the behaviour OBSERVED on the real argparse.ArgumentParser by the correspondence run, and the
   model is proved to satisfy them (Proofs/ArgparseMProofs.v).  Written without reference to the token loop
   (`run`), the namespace initialisation (`init_ns`) or the final loop (`finish`) of Model/ArgparseM.v: the
   vocabulary is per action ("field"): its last group of tokens, or its default. *)
From SPV Require Export Base.Corr Model.ArgparseM.

Section S.
  Variable V : Type.
  Variable K : Type.
  Variable cvt : K -> string -> res V.
  Variable veqb : V -> V -> bool.
  Notation actT := (act V K).
  Notation storedT := (stored V).

  Definition stored_eqb (a b : storedT) : bool :=
    match a, b with
    | SOne x, SOne y => veqb x y
    | SNone, SNone => true
    | SMany xs, SMany ys => list_eqb veqb xs ys
    | SRaw x, SRaw y => String.eqb x y
    | _, _ => false
    end.
  Definition ns_eqb (a b : ns storedT) : bool :=
    list_eqb (fun p q => String.eqb (fst p) (fst q) && stored_eqb (snd p) (snd q)) a b.

  (* ---------- I1: defaults ---------- *)
  (* a string default goes through the converter (not through choices); any other default is kept as it is *)
  Definition default_value (a : actT) : res storedT :=
    match a_dflt a with
    | SRaw s => match cvt (a_cv a) s with Ok v => Ok (SOne v) | Err e => Err e end
    | d => Ok d
    end.

  (* ---------- groups ---------- *)
  (* one well-formed group: the action's index, the exact option string written, the tokens that follow *)
  Record group := mkgroup { g_idx : nat; g_opt : string; g_toks : list string }.
  Definition group_tokens (g : group) : list string := g_opt g :: g_toks g.
  Definition flatten (gs : list group) : list string := List.concat (map group_tokens gs).

  (* a token argparse lexes as an ARGUMENT for this parser.  Sufficient syntactic condition (proved):
     LeafSpec.token_plain t, when no option string of the parser looks like `-<digit>` / `-.` *)
  Definition tok_plain (ab : bool) (acts : list actT) (t : string) : bool :=
    let tbl := all_opts 0 acts in is_A (classify ab tbl (has_neg tbl) t).
  Definition tokens_plain (ab : bool) (acts : list actT) (ts : list string) : bool := forallb (tok_plain ab acts) ts.

  Definition digit_free_opt (o : string) : bool :=
    match o with
    | String "-"%char (String c _) => negb (is_digit c || Ascii.eqb c "."%char)
    | _ => true
    end.
  Definition digit_free_opts (acts : list actT) : bool := forallb (fun a => forallb digit_free_opt (a_opts a)) acts.

  (* every option string starts with '-' (argparse refuses anything else for an optional) *)
  Definition opts_dashed (acts : list actT) : bool := forallb (fun a => forallb (prefixb "-") (a_opts a)) acts.

  Definition admissible (n : nargs_t) (k : nat) : bool := opt_eqb Nat.eqb (count_for n k) (Some k).

  Definition group_ok (ab : bool) (acts : list actT) (g : group) : bool :=
    opt_eqb Nat.eqb (lookup_opt (all_opts 0 acts) (g_opt g)) (Some (g_idx g))
    && match nth_error acts (g_idx g) with
       | Some a => admissible (a_na a) (List.length (g_toks g))
       | None => false end
    && tokens_plain ab acts (g_toks g).

  (* recognise an argv as a concatenation of well-formed groups (None = it is not one) *)
  Fixpoint split_groups (ab : bool) (acts : list actT) (argv : list string) : option (list string * list group) :=
    match argv with
    | [] => Some ([], [])
    | t :: r =>
        match split_groups ab acts r with
        | None => None
        | Some (lead, gs) =>
            match lookup_opt (all_opts 0 acts) t with
            | Some i => Some ([], mkgroup i t lead :: gs)
            | None => if tok_plain ab acts t then Some (t :: lead, gs) else None
            end
        end
    end.
  Definition recognise (ab : bool) (acts : list actT) (argv : list string) : option (list group) :=
    match split_groups ab acts argv with
    | Some ([], gs) => if forallb (group_ok ab acts) gs then Some gs else None
    | _ => None
    end.

  (* ---------- the per-group results and their fold (vocabulary of Model/Namespace.v) ---------- *)
  (* left to right; the first group whose tokens are refused ends the parse *)
  Fixpoint group_values (acts : list actT) (gs : list group) : res (list (string * storedT)) :=
    match gs with
    | [] => Ok []
    | g :: r =>
        match nth_error acts (g_idx g) with
        | None => Err (Exit 2)
        | Some a =>
            match values_of cvt veqb a (g_toks g) with
            | Err e => Err e
            | Ok v => match group_values acts r with Ok l => Ok ((a_dest a, v) :: l) | Err e => Err e end
            end
        end
    end.

  (* ---------- the per-field view: a field's value is decided by its own last group, or its default ---------- *)
  Definition last_group (i : nat) (gs : list group) : option group :=
    find (fun g => Nat.eqb (g_idx g) i) (rev gs).

  Fixpoint spec_fields (i : nat) (acts : list actT) (gs : list group) (missing : bool) : res (ns storedT) :=
    match acts with
    | [] => if missing then Err (Exit 2) else Ok []
    | a :: r =>
        match last_group i gs with
        | Some g =>
            match values_of cvt veqb a (g_toks g) with
            | Err e => Err e                               (* cannot happen once group_values succeeded *)
            | Ok v => match spec_fields (S i) r gs missing with Ok l => Ok ((a_dest a, v) :: l) | Err e => Err e end
            end
        | None =>
            if a_req a then
              match spec_fields (S i) r gs true with Ok l => Ok ((a_dest a, a_dflt a) :: l) | Err e => Err e end
            else
              match default_value a with
              | Err e => Err e
              | Ok v => match spec_fields (S i) r gs missing with Ok l => Ok ((a_dest a, v) :: l) | Err e => Err e end
              end
        end
    end.

  (* what parse_args must answer on a recognised argv: errors of written groups first (argv order), then
     converter failures of defaults (action order), then "the following arguments are required" *)
  Definition spec_groups (acts : list actT) (gs : list group) : res (ns storedT) :=
    match group_values acts gs with
    | Err e => Err e
    | Ok _ => spec_fields 0 acts gs false
    end.

  (* I1: the empty command line *)
  Definition spec_empty (acts : list actT) : res (ns storedT) := spec_fields 0 acts [] false.

  (* ---------- I3: the `=` spelling ---------- *)
  (* argv' is argv with some `opt=v` tokens (opt an exact option string, v an argument-class token, and the
     option would take exactly that one token when written separately) replaced by the two tokens opt, v *)
  Definition takes_one_of (n : nargs_t) (avail : nat) : bool := opt_eqb Nat.eqb (count_for n (S avail)) (Some 1).

  Fixpoint twin_ok (ab : bool) (acts : list actT) (argv argv' : list string) : bool :=
    match argv, argv' with
    | [], [] => true
    | t :: r, t' :: r' =>
        (String.eqb t t' && twin_ok ab acts r r')
        || (let tbl := all_opts 0 acts in
            match classify ab tbl (has_neg tbl) t, r' with
            | CO i o (Some e), e' :: r'' =>
                String.eqb t' o && String.eqb e e'
                && opt_eqb Nat.eqb (lookup_opt tbl o) (Some i)
                && prefixb "-" o
                && tok_plain ab acts e
                && match nth_error acts i with
                   | Some a => takes_one_of (a_na a) (count_A (lex ab acts r))
                   | None => false end
                && twin_ok ab acts r r''
            | _, _ => false
            end)
    | _, _ => false
    end.

  (* ---------- parse_args versus parse_known_args ---------- *)
  Definition args_of_known (k : res (ns storedT * list string)) : res (ns storedT) :=
    match k with
    | Ok (n, []) => Ok n
    | Ok (_, _ :: _) => Err (Exit 2)
    | Err e => Err e
    end.

  (* leftovers are tokens of the command line, in order, and none of them is an exactly-spelled option *)
  Fixpoint sublist (a b : list string) : bool :=
    match a, b with
    | [], _ => true
    | _ :: _, [] => false
    | x :: ra, y :: rb => if String.eqb x y then sublist ra rb else sublist a rb
    end.
  Definition leftovers_ok (acts : list actT) (argv extras : list string) : bool :=
    sublist extras argv
    && forallb (fun t => match t with
                         | String "-"%char _ => match lookup_opt (all_opts 0 acts) t with Some _ => false | None => true end
                         | _ => true end) extras.

  (* ---------- everything the interface says about one observed behaviour ---------- *)
  Definition observed_ok (ab : bool) (acts : list actT) (argv : list string)
             (known : res (ns storedT * list string)) (args : res (ns storedT)) : bool :=
    (* parse_args = parse_known_args + "unrecognized arguments" *)
    res_eqb ns_eqb args (args_of_known known)
    && match known with Ok (_, ex) => leftovers_ok acts argv ex | Err _ => true end
    (* I1 *)
    && match argv with
       | [] => res_eqb ns_eqb args (spec_empty acts)
       | _ => true end
    (* I2 + I5 + I6 + composition, per field *)
    && match recognise ab acts argv with
       | Some gs => res_eqb ns_eqb args (spec_groups acts gs)
       | None => true end.
End S.

Arguments stored_eqb {V}. Arguments ns_eqb {V}. Arguments default_value {V K}.
Arguments tok_plain {V K}. Arguments tokens_plain {V K}. Arguments digit_free_opts {V K}. Arguments opts_dashed {V K}.
Arguments group_ok {V K}. Arguments split_groups {V K}. Arguments recognise {V K}. Arguments group_values {V K}.
Arguments spec_fields {V K}. Arguments spec_groups {V K}. Arguments spec_empty {V K}. Arguments twin_ok {V K}.
Arguments args_of_known {V}. Arguments leftovers_ok {V K}. Arguments observed_ok {V K}.
