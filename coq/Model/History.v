(* Model/History.v — process-level state machine for C08: what a sequence of API calls on a pool of parsers
   does, defects included.  Definitions only.

   Global state  : the three FieldWrapper class attributes (dash variant, generation mode, nested mode), written
                   by every ArgumentParser constructor (parsing.py) and READ by FieldWrapper.option_strings at the
                   moment set-up (`_preprocessing`) runs.
   Per parser    : own configuration, declared dataclasses, the cached set-up (argparse actions with the option
                   strings as generated at set-up time, the subgroup choices and the defaults frozen into the
                   actions), the call counters of the heterogeneous-tuple converters, "help-only --config_path
                   argument already added", the defaults written by set_defaults(config file).
   The behaviour switches (`facts`) are regenerated from the source on every check (Gen/FactsHistory.v). *)
From SPV Require Export Base.Str Model.OptStr.
(* the conflict resolver (Model/OptStr.v `loop`) instantiated with its regenerated constants: resolve_gen *)
From SPV Require Export Gen.FactsConflicts.

(* ---------- what a parser is defined by ---------- *)
Record alt := mkalt { a_key : string; a_cls : string; a_fname : string; a_fdefault : string }.
(* int / str / Tuple[int,str] / subgroups({key: class-with-one-int-field}, default=dkey) *)
(* an Enum class: e_id stands for the identity of the class object, e_qual for "<module>.<qualname>" *)
Record enumdef := mkenum { e_id : nat; e_qual : string; e_members : list (string * string) }.
Inductive eshape := EList | EOpt | EPair.                      (* List[E] / Optional[E] / Tuple[E, E] *)
(* FEnum sh e foreign: a container-of-Enum field; `foreign` = the parsing function in use belongs to ANOTHER class
   than the one the dataclass declares (always false in a definition) *)
Inductive fkind := FInt | FStr | FTup | FSub (alts : list alt) (dkey : string)
                 | FEnum (sh : eshape) (e : enumdef) (foreign : bool).
(* f_default is the rendered value ("int:1", "str:d", "tuple(int:0,str:z)"); unused for FSub *)
Record fdecl := mkf { f_name : string; f_kind : fkind; f_default : string }.
Record dcls := mkdc { d_cls : string; d_fields : list fdecl }.
Definition add := (dcls * string)%type.                        (* add_arguments(class, dest) *)
Record pdef := mkdef { df_cfg : cfg; df_cr : crmode; df_cfgarg : bool; df_adds : list add }.

(* ---------- regenerated behaviour switches ---------- *)
Record facts := mkfacts {
  reasserts : bool;               (* _preprocessing re-asserts the parser's own three settings on FieldWrapper before the
                                     add-argument loop *)
  reassert_first : bool;          (* ... and does so before EVERYTHING that reads them (the conflict resolver, the subgroup
                                     choice); false: only after conflict resolution *)
  defaults_own_mode : bool;       (* set_defaults / _add_arguments test the parser's OWN nested_mode (false: the class-level
                                     FieldWrapper.nested_mode, i.e. the most recently constructed parser's) *)
  cfgarg_every_parse : bool;      (* the help-only --config_path argument is added unconditionally on every parse *)
  setup_cached : bool;            (* set-up runs once (guarded by _preprocessing_done) *)
  tuple_counter_persists : bool;  (* the tuple converter's call counter lives as long as the set-up *)
  defaults_persist : bool;        (* set_defaults(config file) writes onto the wrappers / constructor_arguments for good *)
  done_after_work : bool;         (* `_preprocessing_done = True` is the LAST statement of _preprocessing: a set-up that raises
                                     half-way is redone by the next call (false: the flag is set first and the parser stays half-built) *)
  cfgarg_refreshed : bool;        (* when the help-only --config_path argument exists already, its default is set to THIS
                                     call's value (false: it keeps the value of the call that added it) *)
  reg_by_class : bool             (* parse_enum keys the module-level registry `_parsing_fns` by the Enum CLASS OBJECT
                                     (false: by its "<module>.<qualname>" string, shared by distinct same-named classes) *)
}.

(* ---------- small association lists ---------- *)
Definition kv := list (string * string).
Fixpoint kv_get (l : kv) (k : string) : option string :=
  match l with [] => None | (k', v) :: r => if String.eqb k' k then Some v else kv_get r k end.
Fixpoint kv_set (l : kv) (k v : string) : kv :=
  match l with
  | [] => [(k, v)]
  | (k', x) :: r => if String.eqb k' k then (k', v) :: r else (k', x) :: kv_set r k v
  end.
Definition kv_set_all (l add : kv) : kv := fold_left (fun acc p => kv_set acc (fst p) (snd p)) add l.
Definition kv_default (l : kv) (k d : string) : string := match kv_get l k with Some v => v | None => d end.
Definition pair_eqb (a b : string * string) : bool := String.eqb (fst a) (fst b) && String.eqb (snd a) (snd b).
Fixpoint kv_eqb (a b : kv) : bool :=
  match a, b with
  | [], [] => true
  | x :: r, y :: s => pair_eqb x y && kv_eqb r s
  | _, _ => false
  end.

Definition dashv_eqb (a b : dashv) : bool :=
  match a, b with DUnderscore, DUnderscore | DBoth, DBoth | DDash, DDash => true | _, _ => false end.
Definition genmode_eqb (a b : genmode) : bool :=
  match a, b with GFlat, GFlat | GNested, GNested | GBoth, GBoth => true | _, _ => false end.
Definition nestmode_eqb (a b : nestmode) : bool :=
  match a, b with NDefault, NDefault | NWithoutRoot, NWithoutRoot => true | _, _ => false end.
Definition cfg_eqb (a b : cfg) : bool :=
  dashv_eqb (dv a) (dv b) && genmode_eqb (gm a) (gm b) && nestmode_eqb (nm a) (nm b).

(* ---------- the slice of argparse that the histories exercise ---------- *)
Inductive akind := KInt | KStr | KTup | KChoice (keys : list string) | KHelp | KCfg
                 | KEnum (sh : eshape) (e : enumdef) (foreign : bool).
Record action := mkact { ac_opts : list string; ac_dest : string; ac_kind : akind; ac_default : string }.
Inductive tcls := TA | TO (i : nat) | TUnknown | TAmbig.

Fixpoint opt_table (i : nat) (acts : list action) : list (string * nat) :=
  match acts with [] => [] | a :: r => (map (fun o => (o, i)) (ac_opts a) ++ opt_table (S i) r)%list end.
Fixpoint lookup_opt (tbl : list (string * nat)) (s : string) : option nat :=
  match tbl with [] => None | (o, i) :: r => if String.eqb o s then Some i else lookup_opt r s end.

(* ArgumentParser._parse_optional (CPython 3.12) for tokens without "=" and blanks; `abbrev` = allow_abbrev *)
Definition classify (abbrev : bool) (tbl : list (string * nat)) (t : string) : tcls :=
  match t with
  | EmptyString => TA
  | String c _ =>
      if negb (Ascii.eqb c "-"%char) then TA else
      match lookup_opt tbl t with
      | Some i => TO i
      | None =>
          if Nat.eqb (String.length t) 1 then TA
          else if prefixb "--" t && abbrev then
            match filter (fun p => prefixb t (fst p)) tbl with
            | [] => TUnknown
            | [p] => TO (snd p)
            | _ => TAmbig
            end
          else TUnknown
      end
  end.

Fixpoint take_A (cs : list (string * tcls)) : list string :=
  match cs with (s, TA) :: r => s :: take_A r | _ => [] end.

(* Python's int() on the tokens the histories use: canonical decimal naturals are accepted, words are not *)
Fixpoint all_digits (s : string) : bool :=
  match s with EmptyString => true | String a r => is_digit a && all_digits r end.
Definition is_nat_tok (s : string) : bool := negb (String.eqb s "") && all_digits s.

(* call counters of the tuple converters: destination -> calls so far; an entry is never 0 *)
Definition counters := list (string * nat).
Fixpoint cnt_get (c : counters) (d : string) : nat :=
  match c with [] => 0 | (k, n) :: r => if String.eqb k d then n else cnt_get r d end.
Fixpoint cnt_set (c : counters) (d : string) (n : nat) : counters :=
  match c with
  | [] => [(d, n)]
  | (k, x) :: r => if String.eqb k d then (k, n) :: r else (k, x) :: cnt_set r d n
  end.

(* field_parsing.parse_tuple for Tuple[int, str]: the item type is chosen by the number of calls made so far;
   past the last item type the lookup raises IndexError; the counter advances only after a successful conversion *)
Definition TUPLE_ITEMS : list bool := [true; false].            (* true = int, false = str *)
Fixpoint conv_tuple (n : nat) (ts : list string) : res (list string) * nat :=
  match ts with
  | [] => (Ok [], n)
  | t :: r =>
      match nth_error TUPLE_ITEMS n with
      | None => (Err (Raise "IndexError"), n)
      | Some is_int =>
          if is_int && negb (is_nat_tok t) then (Err (Exit 2), n) else
          let v := (if is_int then "int:" else "str:") ++ t in
          match conv_tuple (S n) r with
          | (Ok vs, n') => (Ok (v :: vs), n')
          | (Err e, n') => (Err e, n')
          end
      end
  end.
Definition render_tuple (vs : list string) : string := "tuple(" ++ String.concat "," vs ++ ")".

Definition nargs_of (k : akind) : nat := match k with KTup | KEnum EPair _ _ => 2 | KHelp => 0 | _ => 1 end.
(* the argument strings an option takes from the run of argument tokens that follows it (None = usage error):
   List[E] has nargs="*", Optional[E] nargs="?", everything else a fixed number *)
Definition take_vals (k : akind) (avail : list string) : option (list string) :=
  match k with
  | KEnum EList _ _ => Some avail
  | KEnum EOpt _ _ => Some (firstn 1 avail)
  | _ => let n := nargs_of k in if Nat.ltb (List.length avail) n then None else Some (firstn n avail)
  end.
(* the registered parsing function of an Enum: member lookup by name, in the class the function was made for *)
Definition conv_enum (e : enumdef) (foreign : bool) (t : string) : option string :=
  match find (fun m => String.eqb (fst m) t) (e_members e) with
  | Some (n, v) => Some ("enum:" ++ e_qual e ++ "." ++ n ++ "=" ++ v ++ (if foreign then "!foreign" else ""))
  | None => None
  end.
Fixpoint conv_enums (e : enumdef) (foreign : bool) (ts : list string) : option (list string) :=
  match ts with
  | [] => Some []
  | t :: r => match conv_enum e foreign t, conv_enums e foreign r with
              | Some v, Some vs => Some (v :: vs)
              | _, _ => None
              end
  end.
Definition render_enum (sh : eshape) (vs : list string) : string :=
  match sh with
  | EList => "list(" ++ String.concat "," vs ++ ")"
  | EOpt => match vs with [] => "none" | v :: _ => v end
  | EPair => render_tuple vs
  end.

(* left-to-right consumption; `skip` = tokens already eaten as arguments of the previous option *)
Fixpoint run (acts : list action) (ns : kv) (cnt : counters) (extras : list string) (skip : nat)
             (cs : list (string * tcls)) : res (kv * list string) * counters :=
  match cs with
  | [] => (Ok (ns, extras), cnt)
  | (s, c) :: r =>
      match skip with
      | S k => run acts ns cnt extras k r
      | 0 =>
          match c with
          | TA | TUnknown => run acts ns cnt (extras ++ [s])%list 0 r
          | TAmbig => (Err (Exit 2), cnt)
          | TO i =>
              match nth_error acts i with
              | None => (Err OutOfFuel, cnt)
              | Some a =>
                  match take_vals (ac_kind a) (take_A r) with
                  | None => (Err (Exit 2), cnt)
                  | Some vals =>
                  let n := List.length vals in
                  match ac_kind a with
                  | KEnum sh e fo => match conv_enums e fo vals with
                                     | Some vs => run acts (kv_set ns (ac_dest a) (render_enum sh vs)) cnt extras n r
                                     | None => (Err (Exit 2), cnt)
                                     end
                  | KHelp => (Err (Exit 0), cnt)
                  | KInt => let v := hd "" vals in
                            if is_nat_tok v then run acts (kv_set ns (ac_dest a) ("int:" ++ v)) cnt extras n r
                            else (Err (Exit 2), cnt)
                  | KStr => run acts (kv_set ns (ac_dest a) ("str:" ++ hd "" vals)) cnt extras n r
                  | KCfg => run acts ns cnt extras n r
                  | KChoice keys => let v := hd "" vals in
                                    if str_in v keys then run acts (kv_set ns (ac_dest a) v) cnt extras n r
                                    else (Err (Exit 2), cnt)
                  | KTup =>
                      match conv_tuple (cnt_get cnt (ac_dest a)) vals with
                      | (Ok vs, n') => run acts (kv_set ns (ac_dest a) (render_tuple vs))
                                           (cnt_set cnt (ac_dest a) n') extras n r
                      | (Err e, n') => (Err e, if Nat.eqb n' 0 then cnt else cnt_set cnt (ac_dest a) n')
                      end
                  end
                  end
              end
          end
      end
  end.

Definition init_ns (acts : list action) : kv :=
  flat_map (fun a => match ac_kind a with KHelp | KCfg => [] | _ => [(ac_dest a, ac_default a)] end) acts.
Definition parse_acts (abbrev : bool) (acts : list action) (cnt : counters) (argv : list string)
  : res (kv * list string) * counters :=
  let tbl := opt_table 0 acts in
  run acts (init_ns acts) cnt [] 0 (map (fun t => (t, classify abbrev tbl t)) argv).

(* ---------- the temporary parser that extracts `--config_path f...` (nargs="*", last occurrence wins) ---------- *)
Definition CFG_OPT : string := "--config_path".
Fixpoint split_cfg_go (taking : bool) (files : list string) (rest : list string) (toks : list string)
  : list string * list string :=
  match toks with
  | [] => (files, rest)
  | t :: r =>
      match classify true [(CFG_OPT, 0)] t with
      | TO _ => split_cfg_go true [] rest r
      | TA => if taking then split_cfg_go true (files ++ [t])%list rest r
              else split_cfg_go false files (rest ++ [t])%list r
      | _ => split_cfg_go false files (rest ++ [t])%list r
      end
  end.
Definition split_cfg (argv : list string) : list string * list string := split_cfg_go false [] [] argv.
(* the value of the temporary parser's --config_path (nargs="*", default None), as it shows up as the `config_path`
   attribute of the result: None when the option is absent, else the list of paths of its last occurrence *)
Definition cfg_given (argv : list string) : bool :=
  existsb (fun t => match classify true [(CFG_OPT, 0)] t with TO _ => true | _ => false end) argv.
Definition cfg_attr (argv : list string) : string :=
  if cfg_given argv then "list(" ++ String.concat "," (map (fun x => "path:" ++ x) (fst (split_cfg argv))) ++ ")" else "none".

(* set_defaults(file) for each named file, in order; a name without a registered extension (read_file ->
   get_extension) or a missing file raises after the earlier ones were applied *)
Definition suffixb (suf s : string) : bool := prefixb (srev suf) (srev s).
(* A file is "rooted" ({dest: {field: value}}: every key dest.field) or "root-less" ({field: value}).  set_defaults re-roots
   the content under the only destination when the nested mode IT LOOKS AT is WITHOUT_ROOT and the parser holds exactly one
   wrapper.  Re-rooting a rooted file raises RuntimeError ("[dest] are not fields"); a root-less file that is not re-rooted
   ends up as stray attributes of the namespace (argparse defaults), not in any dataclass. *)
Definition file_rooted (kvs : kv) : bool := forallb (fun p => has_char "."%char (fst p)) kvs.
Fixpoint apply_files (ftbl : list (string * kv)) (reroot : bool) (rootdest : string) (live : kv) (files : list string)
  : res unit * kv :=
  match files with
  | [] => (Ok tt, live)
  | fl :: r =>
      if negb (suffixb ".json" fl) then (Err (Raise "RuntimeError"), live) else
      match find (fun p => String.eqb (fst p) fl) ftbl with
      | None => (Err (Raise "FileNotFoundError"), live)
      | Some (_, kvs) =>
          if reroot then
            if file_rooted kvs then (Err (Raise "RuntimeError"), live)
            else apply_files ftbl reroot rootdest
                   (kv_set_all live (map (fun p => (rootdest ++ "." ++ fst p, snd p)) kvs)) r
          else apply_files ftbl reroot rootdest (if file_rooted kvs then kv_set_all live kvs else live) r
      end
  end.

(* ---------- set-up ---------- *)
Definition fw_of (path : list string) (n : string) : fw := mkfw path n "" [] false.
Definition fdest (dest n : string) : string := dest ++ "." ++ n.

(* ---- conflict resolution: the field wrappers, the prefixes the resolver gives them ---- *)
Definition top_fws (adds : list add) : list fw :=
  flat_map (fun ad : add => map (fun fd => fw_of [snd ad] (f_name fd)) (d_fields (fst ad))) adds.
Definition pf_of (fs : list fw) : kv := map (fun x => (dest x, pfx x)) fs.
Definition fw_pf (pf : kv) (path : list string) (n : string) : fw :=
  mkfw path n (kv_default pf (join_dot (path ++ [n])) "") [] false.
(* ConflictResolver.resolve: option strings are read from the class-level settings `g` at every step *)
Definition resolve_fws (g : cfg) (cr : crmode) (fs : list fw) : res (list fw) := resolve_gen (option_strings g) cr fs.
(* resolve_and_flatten on the wrappers as declared *)
Definition pre (g : cfg) (cr : crmode) (adds : list add) : res (list fw) := resolve_fws g cr (top_fws adds).

(* the subgroup-choice arguments (registered on a throw-away argparse parser with allow_abbrev=False) *)
Definition choice_acts (g : cfg) (pf : kv) (adds : list add) : list action :=
  flat_map (fun ad : add => let (c, dest) := ad in
    flat_map (fun fd => match f_kind fd with
                        | FSub alts dkey => [mkact (option_strings g (fw_pf pf [dest] (f_name fd))) (fdest dest (f_name fd))
                                                   (KChoice (map a_key alts)) dkey]
                        | _ => []
                        end) (d_fields c)) adds.
Definition choose (g : cfg) (pf : kv) (adds : list add) (args : list string) : res kv :=
  match fst (parse_acts false (choice_acts g pf adds) [] args) with
  | Ok (ns, _) => Ok ns
  | Err e => Err e
  end.
Definition chosen_alt (chosen : kv) (dest : string) (fd : fdecl) : option alt :=
  match f_kind fd with
  | FSub alts dkey => find (fun a => String.eqb (a_key a) (kv_default chosen (fdest dest (f_name fd)) dkey)) alts
  | _ => None
  end.
(* the wrappers after the subgroup choice: each dataclass followed by the wrapper of its chosen alternative *)
Definition all_fws (fs1 : list fw) (adds : list add) (chosen : kv) : list fw :=
  let pf := pf_of fs1 in
  flat_map (fun ad : add =>
    (map (fun fd => fw_pf pf [snd ad] (f_name fd)) (d_fields (fst ad))
     ++ flat_map (fun fd => match chosen_alt chosen (snd ad) fd with
                            | Some a => [fw_of [snd ad; f_name fd] (a_fname a)]
                            | None => []
                            end) (d_fields (fst ad)))%list) adds.

Definition field_acts (g : cfg) (pf chosen live : kv) (dest : string) (fd : fdecl) : list action :=
  let d := fdest dest (f_name fd) in
  let opts := option_strings g (fw_pf pf [dest] (f_name fd)) in
  match f_kind fd with
  | FInt => [mkact opts d KInt (kv_default live d (f_default fd))]
  | FStr => [mkact opts d KStr (kv_default live d (f_default fd))]
  | FTup => [mkact opts d KTup (kv_default live d (f_default fd))]
  | FEnum sh e fo => [mkact opts d (KEnum sh e fo) (kv_default live d (f_default fd))]
  | FSub alts dkey =>
      mkact opts d (KChoice (map a_key alts)) dkey ::
      match chosen_alt chosen dest fd with
      | Some a => [mkact (option_strings g (fw_pf pf [dest; f_name fd] (a_fname a))) (fdest d (a_fname a)) KInt
                         (kv_default live (fdest d (a_fname a)) (a_fdefault a))]
      | None => []
      end
  end.
(* the argparse actions created by the add-argument loop of _preprocessing, with the option strings computed from the
   settings `g` that are on FieldWrapper at that moment and the prefixes `pf` the resolver assigned *)
Definition build (g : cfg) (pf : kv) (adds : list add) (chosen live : kv) : list action :=
  flat_map (fun ad : add => flat_map (field_acts g pf chosen live (snd ad)) (d_fields (fst ad))) adds.

Definition crmode_eqb (a b : crmode) : bool :=
  match a, b with CRNone, CRNone | CRExplicit, CRExplicit | CRAuto, CRAuto => true | _, _ => false end.
Definition acts_opts (acts : list action) : list string := flat_map ac_opts acts.

Record setup := mksu { su_acts : list action; su_chosen : kv; su_fr : kv; su_n : nat }.
(* everything after the subgroup choice: second resolver pass over all wrappers (settings `gr`), then the add-argument loop
   (settings `gb`); argparse refuses an option string that is already registered (ArgumentError) *)
Definition setup_core (gr gb : cfg) (cr : crmode) (adds : list add) (ch live : kv) : res setup :=
  match pre gr cr adds with
  | Err e => Err e
  | Ok fs1 =>
      match resolve_fws gr cr (all_fws fs1 adds ch) with
      | Err e => Err e
      | Ok fs2 =>
          let acts := build gb (pf_of fs2) adds ch live in
          if str_nodupb (acts_opts acts) then Ok (mksu acts ch live (List.length adds))
          else Err (Raise "ArgumentError")
      end
  end.
Definition do_setup (gr gb : cfg) (cr : crmode) (adds : list add) (live : kv) (args : list string) : res setup :=
  match pre gr cr adds with
  | Err e => Err e
  | Ok fs1 =>
      match choose gr (pf_of fs1) adds args with
      | Err e => Err e
      | Ok ch => setup_core gr gb cr adds ch live
      end
  end.
(* what a set-up that raised leaves behind when the done-flag was set first: marked done, nothing registered *)
Definition stuck_setup (live : kv) : setup := mksu [] [] live 0.

(* ---------- the module-level registry of Enum parsing functions (field_parsing._parsing_fns) ---------- *)
Definition enum_eqb (a b : enumdef) : bool :=
  Nat.eqb (e_id a) (e_id b) && String.eqb (e_qual a) (e_qual b) && kv_eqb (e_members a) (e_members b).
(* process-global settings + registry: everything a set-up reads that is not the parser's own *)
Record glob := mkglob { gl_cfg : cfg; gl_reg : list enumdef }.
(* by_class: the entry of class e is e's own function.  Otherwise the key is the qualified name and the first
   class registered under it serves every later class of that name. *)
Definition resolve (by_class : bool) (reg : list enumdef) (e : enumdef) : enumdef :=
  if by_class then e
  else match find (fun r => String.eqb (e_qual r) (e_qual e)) reg with Some r => r | None => e end.
Definition resolve_kind (by_class : bool) (reg : list enumdef) (k : fkind) : fkind :=
  match k with
  | FEnum sh e fo => let r := resolve by_class reg e in FEnum sh r (fo || negb (enum_eqb r e))
  | _ => k
  end.
Definition resolve_fd by_class reg (fd : fdecl) : fdecl := mkf (f_name fd) (resolve_kind by_class reg (f_kind fd)) (f_default fd).
Definition resolve_add by_class reg (ad : add) : add :=
  (mkdc (d_cls (fst ad)) (map (resolve_fd by_class reg) (d_fields (fst ad))), snd ad).
(* the dataclasses as set-up sees them: every container-of-Enum field with the parsing function the registry hands out *)
Definition resolve_adds by_class reg (adds : list add) : list add := map (resolve_add by_class reg) adds.
Definition kind_fixed by_class reg (k : fkind) : bool :=
  match k with FEnum _ e _ => enum_eqb (resolve by_class reg e) e | _ => true end.
Definition adds_fixed by_class reg (adds : list add) : bool :=
  forallb (fun ad : add => forallb (fun fd => kind_fixed by_class reg (f_kind fd)) (d_fields (fst ad))) adds.
Definition enums_of (adds : list add) : list enumdef :=
  flat_map (fun ad : add => flat_map (fun fd => match f_kind fd with FEnum _ e _ => [e] | _ => [] end) (d_fields (fst ad))) adds.
(* parse_enum on each Enum in turn: an existing entry (same key) is reused, otherwise the class gets its entry *)
Fixpoint register (by_class : bool) (reg : list enumdef) (es : list enumdef) : list enumdef :=
  match es with
  | [] => reg
  | e :: r =>
      let known := if by_class then existsb (enum_eqb e) reg
                   else existsb (fun x => String.eqb (e_qual x) (e_qual e)) reg in
      register by_class (if known then reg else (reg ++ [e])%list) r
  end.

(* ---------- after argparse: _postprocessing ---------- *)
Definition HELP_ACT : action := mkact ["-h"; "--help"] "help" KHelp "".
Definition CFG_ACT : action := mkact [CFG_OPT] "config_path" KCfg "".
Definition main_acts (added : bool) (su : setup) : list action :=
  (HELP_ACT :: (if added then [CFG_ACT] else []) ++ su_acts su)%list.

Definition has_sub (c : dcls) : bool :=
  existsb (fun fd => match f_kind fd with FSub _ _ => true | _ => false end) (d_fields c).

Definition render_field (su : setup) (ns : kv) (dest : string) (fd : fdecl) : kv :=
  let d := fdest dest (f_name fd) in
  match f_kind fd with
  | FSub alts dkey =>
      match find (fun a => String.eqb (a_key a) (kv_default (su_chosen su) d dkey)) alts with
      | Some a => [(d, "dc:" ++ a_cls a); (fdest d (a_fname a), kv_default ns (fdest d (a_fname a)) "?")]
      | None => [(d, "?")]
      end
  | _ => [(d, kv_default ns d "?")]
  end.
Definition render_late_field (live : kv) (dest : string) (fd : fdecl) : kv :=
  let d := fdest dest (f_name fd) in [(d, kv_default live d (f_default fd))].
Definition render_subgroups (ns : kv) (ad : add) : kv :=
  flat_map (fun fd => match f_kind fd with
                      | FSub _ _ => let d := fdest (snd ad) (f_name fd) in [("subgroups:" ++ d, "str:" ++ kv_default ns d "?")]
                      | _ => []
                      end) (d_fields (fst ad)).

(* wrappers added after set-up are never given arguments: a subgroup field among them makes
   _remove_subgroups_from_namespace fail, the others are instantiated from their current defaults *)
Definition postprocess (su : setup) (adds : list add) (live : kv) (ns : kv) (extras : list string) : res kv :=
  let early := firstn (su_n su) adds in
  let late := skipn (su_n su) adds in
  if existsb (fun ad : add => has_sub (fst ad)) late then Err (Raise "AttributeError") else
  match extras with
  | _ :: _ => Err (Exit 2)
  | [] => Ok (flat_map (fun ad : add => flat_map (render_field su ns (snd ad)) (d_fields (fst ad))) early
              ++ flat_map (fun ad : add => flat_map (render_late_field live (snd ad)) (d_fields (fst ad))) late
              ++ flat_map (render_subgroups ns) early)%list
  end.

(* ---------- the machine ---------- *)
Record pstate := mkp {
  p_cfg : cfg; p_cr : crmode; p_cfgarg : bool; p_adds : list add;
  p_setup : option setup; p_cnt : counters; p_added : bool; p_live : kv;
  p_cfgdef : string }.       (* default of the help-only --config_path action (meaningful once p_added) *)
Definition new_p (d : pdef) : pstate := mkp (df_cfg d) (df_cr d) (df_cfgarg d) (df_adds d) None [] false [] "".
Definition def_of (p : pstate) : pdef := mkdef (p_cfg p) (p_cr p) (p_cfgarg p) (p_adds p).

Record state := mkst { st_g : glob; st_slots : list (nat * pstate) }.
Fixpoint slot_get (l : list (nat * pstate)) (i : nat) : option pstate :=
  match l with [] => None | (j, p) :: r => if Nat.eqb j i then Some p else slot_get r i end.
Fixpoint slot_set (l : list (nat * pstate)) (i : nat) (p : pstate) : list (nat * pstate) :=
  match l with
  | [] => [(i, p)]
  | (j, q) :: r => if Nat.eqb j i then (j, p) :: r else (j, q) :: slot_set r i p
  end.

Inductive op :=
| Construct (i : nat) (c : cfg) (cr : crmode) (cfgarg : bool)
| AddArgs (i : nat) (d : dcls) (dest : string)
| Parse (i : nat) (argv : list string)
| PrintHelp (i : nat)
| FormatHelp (i : nat).

Definition vals := res kv.
(* OFail: print_help (its set-up) raised *)
Inductive obs := ONoParser | ONone | ODone | OParse (r : vals) | OFail (e : err).

Definition init_cfg : cfg := mkcfg DUnderscore GFlat NDefault.      (* the class attributes' initial values *)
Definition init : state := mkst (mkglob init_cfg []) [].

Section Machine.
  Variable f : facts.
  Variable ftbl : list (string * kv).     (* content of the config files the histories name: file -> dest.field -> value *)

  Definition cached (p : pstate) : option setup :=
    match p_setup p with Some su => if setup_cached f then Some su else None | None => None end.
  (* a set-up that raised: the parser is as it was, unless the done-flag had been set before the work *)
  Definition after_failure (p : pstate) (live : kv) : option setup :=
    if done_after_work f then p_setup p else Some (stuck_setup live).
  (* the class-level settings once set-up is through: the parser's own if it re-installs them at all *)
  Definition setup_g (g : glob) (p : pstate) : glob :=
    match cached p with Some _ => g | None => if reasserts f then mkglob (p_cfg p) (gl_reg g) else g end.
  (* the settings the conflict resolver and the subgroup choice read / the add-argument loop reads *)
  Definition res_cfg (g : glob) (p : pstate) : cfg := if reasserts f && reassert_first f then p_cfg p else gl_cfg g.
  Definition build_cfg (g : glob) (p : pstate) : cfg := if reasserts f then p_cfg p else gl_cfg g.
  (* ... and after a set-up that raised: re-installed only if the re-install had been reached (ArgumentError comes
     from the add-argument loop, everything else from the resolver / the subgroup choice) *)
  Definition fail_g (g : glob) (p : pstate) (e : err) : glob :=
    let reached := reassert_first f || match e with Raise "ArgumentError" => true | _ => false end in
    if reasserts f && reached then mkglob (p_cfg p) (gl_reg g) else g.
  (* set-up proper, as it runs inside _preprocessing: the dataclasses with the Enum parsing functions the registry
     hands out, the option strings from the class-level settings *)
  Definition setup_in (g : glob) (p : pstate) (live : kv) (args : list string) : res setup :=
    do_setup (res_cfg g p) (build_cfg g p) (p_cr p) (resolve_adds (reg_by_class f) (gl_reg g) (p_adds p)) live args.
  Definition registered (g : glob) (p : pstate) : glob :=
    mkglob (gl_cfg g) (register (reg_by_class f) (gl_reg g) (enums_of (p_adds p))).

  (* the default of the help-only --config_path action after this call (= the `config_path` attribute of its result):
     this call's value when the action is new or refreshed, else the value of the call that added it *)
  Definition cfg_default (p : pstate) (argv : list string) : string :=
    if p_added p && negb (cfgarg_refreshed f) then p_cfgdef p else cfg_attr argv.
  Definition with_cfg_attr (added : bool) (cfgdef : string) (v : vals) : vals :=
    match v with
    | Ok l => Ok (l ++ (if added then [("+config_path", cfgdef)] else []))%list
    | Err e => Err e
    end.

  (* what parse_known_args does before _preprocessing: split off --config_path, read the files *)
  (* len(self._wrappers): the dataclasses as added, or - once set up - the flattened list (a chosen subgroup alternative
     is a wrapper of its own) plus whatever was added since *)
  Definition nwr (p : pstate) : nat :=
    match cached p with
    | None => List.length (p_adds p)
    | Some su =>
        List.length (flat_map (fun ad : add => filter (fun fd => match f_kind fd with FSub _ _ => true | _ => false end)
                                                     (d_fields (fst ad))) (firstn (su_n su) (p_adds p)))
        + List.length (p_adds p)
    end.
  Definition reroots (g : glob) (p : pstate) : bool :=
    nestmode_eqb (if defaults_own_mode f then nm (p_cfg p) else nm (gl_cfg g)) NWithoutRoot && Nat.eqb (nwr p) 1.
  Definition prep (g : glob) (p : pstate) (argv : list string) : list string * (res unit * kv) :=
    let live0 := if defaults_persist f then p_live p else [] in
    let (files, args) := if p_cfgarg p then split_cfg argv else ([], argv) in
    (args, apply_files ftbl (reroots g p) (hd "" (map snd (p_adds p))) live0 files).

  Definition parse_step (g : glob) (p : pstate) (argv : list string) : glob * pstate * vals :=
    let cnt0 := if tuple_counter_persists f then p_cnt p else [] in
    let '(args, (rl, live1)) := prep g p argv in
    let p1 := mkp (p_cfg p) (p_cr p) (p_cfgarg p) (p_adds p) (p_setup p) cnt0 (p_added p) live1 (p_cfgdef p) in
    match rl with
    | Err e => (g, p1, Err e)
    | Ok _ =>
        if p_cfgarg p && p_added p && cfgarg_every_parse f then (g, p1, Err (Raise "ArgumentError")) else
        let added := p_added p || p_cfgarg p in
        let cfgdef := cfg_default p argv in
        let g' := setup_g g p in
        match (match cached p with Some su => Ok su | None => setup_in g p live1 args end) with
        | Err e => (fail_g g p e, mkp (p_cfg p) (p_cr p) (p_cfgarg p) (p_adds p) (after_failure p live1) cnt0 added live1 cfgdef, Err e)
        | Ok su =>
            let (r, cnt1) := parse_acts true (main_acts added su) cnt0 args in
            ((match cached p with Some _ => g' | None => registered g' p end),
             mkp (p_cfg p) (p_cr p) (p_cfgarg p) (p_adds p) (Some su) cnt1 added live1 cfgdef,
             match r with
             | Err e => Err e
             | Ok (ns, extras) => with_cfg_attr added cfgdef (postprocess su (p_adds p) live1 ns extras)
             end)
        end
    end.

  (* print_help(): _preprocessing(args=[]) then argparse's print_help *)
  Definition help_step (g : glob) (p : pstate) : glob * pstate * obs :=
    let g' := setup_g g p in
    match (match cached p with Some su => Ok su | None => setup_in g p (p_live p) [] end) with
    | Err e => (fail_g g p e, mkp (p_cfg p) (p_cr p) (p_cfgarg p) (p_adds p) (after_failure p (p_live p)) (p_cnt p) (p_added p) (p_live p) (p_cfgdef p),
                OFail e)
    | Ok su => ((match cached p with Some _ => g' | None => registered g' p end),
                mkp (p_cfg p) (p_cr p) (p_cfgarg p) (p_adds p) (Some su) (p_cnt p) (p_added p) (p_live p) (p_cfgdef p), ODone)
    end.

  Definition step (s : state) (o : op) : state * obs :=
    match o with
    | Construct i c cr cfgarg => (mkst (mkglob c (gl_reg (st_g s))) (slot_set (st_slots s) i (new_p (mkdef c cr cfgarg []))), ONone)
    | AddArgs i d dest =>
        match slot_get (st_slots s) i with
        | None => (s, ONoParser)
        | Some p => (mkst (st_g s) (slot_set (st_slots s) i
                       (mkp (p_cfg p) (p_cr p) (p_cfgarg p) (p_adds p ++ [(d, dest)])%list (p_setup p) (p_cnt p) (p_added p) (p_live p) (p_cfgdef p))),
                     ODone)
        end
    | Parse i argv =>
        match slot_get (st_slots s) i with
        | None => (s, ONoParser)
        | Some p => let '(g', p', r) := parse_step (st_g s) p argv in (mkst g' (slot_set (st_slots s) i p'), OParse r)
        end
    | PrintHelp i =>
        match slot_get (st_slots s) i with
        | None => (s, ONoParser)
        | Some p => let '(g', p', o) := help_step (st_g s) p in (mkst g' (slot_set (st_slots s) i p'), o)
        end
    | FormatHelp i =>
        match slot_get (st_slots s) i with
        | None => (s, ONoParser)
        | Some _ => (s, ODone)
        end
    end.

  Fixpoint run_ops (s : state) (ops : list op) : state :=
    match ops with [] => s | o :: r => run_ops (fst (step s o)) r end.
  Fixpoint obs_from (s : state) (ops : list op) : list obs :=
    match ops with [] => [] | o :: r => snd (step s o) :: obs_from (fst (step s o)) r end.

  (* what a fresh interpreter answers: construct the parser as defined, parse once *)
  Definition fresh (d : pdef) (argv : list string) : vals := snd (parse_step (mkglob (df_cfg d) []) (new_p d) argv).

  (* the definition parser i has just before the k-th operation *)
  Definition def_at (ops : list op) (k i : nat) : option pdef :=
    option_map def_of (slot_get (st_slots (run_ops init (firstn k ops))) i).

  (* ---------- the situations in which history shows ---------- *)
  Definition is_cached (p : pstate) : bool := match cached p with Some _ => true | None => false end.
  (* (#10) set-up is about to run while FieldWrapper carries another parser's settings *)
  Definition b_spelling (g : glob) (p : pstate) : bool :=
    (reasserts f && reassert_first f) || is_cached p || cfg_eqb (gl_cfg g) (p_cfg p).
  (* (seeded C08-06) a config file is about to be read while set_defaults looks at ANOTHER parser's nested mode *)
  Definition b_rootmode (g : glob) (p : pstate) : bool :=
    negb (p_cfgarg p) || defaults_own_mode f || nestmode_eqb (nm (gl_cfg g)) (nm (p_cfg p)).
  (* (#13 again) the number of wrappers set_defaults counts is no longer the number of dataclasses added *)
  Definition b_wrappers (p : pstate) : bool := negb (p_cfgarg p) || Nat.eqb (nwr p) (List.length (p_adds p)).
  (* (seeded C08-04) set-up is about to run while the registry holds, under the key of one of this parser's Enum
     classes, the parsing function of ANOTHER class *)
  Definition b_registry (g : glob) (p : pstate) : bool :=
    reg_by_class f || is_cached p || adds_fixed false (gl_reg g) (p_adds p).
  (* (#11) the help-only --config_path argument is about to be added a second time *)
  Definition b_cfgarg (p : pstate) : bool := negb (p_cfgarg p && p_added p && cfgarg_every_parse f).
  (* (#12) a tuple converter of this parser has been called before *)
  Definition b_tuple (p : pstate) : bool :=
    negb (tuple_counter_persists f) || match p_cnt p with [] => true | _ => false end.
  (* (#13) a cached set-up that is not the one this call would make: arguments added since, another subgroup
     choice than this argv selects, other defaults than this call's *)
  Definition b_frozen (g : glob) (p : pstate) (argv : list string) : bool :=
    match cached p with
    | None => true
    | Some su =>
        let '(args, (_, live1)) := prep g p argv in
        Nat.eqb (su_n su) (List.length (p_adds p))
        && match pre (p_cfg p) (p_cr p) (p_adds p) with
           | Ok fs1 => match choose (p_cfg p) (pf_of fs1) (p_adds p) args with
                       | Ok ch => kv_eqb ch (su_chosen su)
                       | Err _ => false
                       end
           | Err _ => false
           end
        && kv_eqb (su_fr su) live1
    end.
  (* (0277e53) the help-only --config_path argument exists already and keeps the value of the call that added it *)
  Definition b_cfgattr (p : pstate) : bool := cfgarg_refreshed f || negb (p_added p).
  (* (#5') defaults written by an earlier call's config files are still there *)
  Definition b_defaults (p : pstate) : bool :=
    negb (defaults_persist f) || match p_live p with [] => true | _ => false end.

  Definition op_benign (s : state) (o : op) : bool :=
    match o with
    | Parse i argv =>
        match slot_get (st_slots s) i with
        | None => true
        | Some p => b_spelling (st_g s) p && b_registry (st_g s) p && b_cfgarg p && b_tuple p && b_frozen (st_g s) p argv
                    && b_defaults p && b_cfgattr p && b_rootmode (st_g s) p && b_wrappers p
        end
    | PrintHelp i =>
        match slot_get (st_slots s) i with
        | None => true
        | Some p => b_spelling (st_g s) p && b_registry (st_g s) p
        end
    | _ => true
    end.
  Fixpoint benign_from (s : state) (ops : list op) : bool :=
    match ops with [] => true | o :: r => op_benign s o && benign_from (fst (step s o)) r end.
  Definition benign (ops : list op) : bool := benign_from init ops.
End Machine.

Definition all_repaired (f : facts) : bool :=
  reasserts f && reassert_first f && defaults_own_mode f && negb (cfgarg_every_parse f) && negb (setup_cached f) && negb (tuple_counter_persists f)
  && negb (defaults_persist f) && reg_by_class f && cfgarg_refreshed f.
