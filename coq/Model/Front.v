(* Model/Front.v — executable model of the callable front-ends:
     simple_parsing.decorators.main            (signature -> fields -> make_dataclass -> parse -> call)
     simple_parsing.helpers.partial.config_for (signature -> Partial dataclass, cached)
     simple_parsing.helpers.partial.Partial.__call__
   and of the Python call binding that decides which value each parameter of the wrapped callable receives.
   Parsing itself is NOT modelled here: "the values a plain dataclass parse produces" is an input (vals).
   Everything that is a literal of the source (which keywords reach helpers.field, which parameter kinds
   become positional, the ordering used, insert-front for required fields, the cache decorator, who wins in
   the two merges) is a field of the record `facts`, regenerated from the source into Gen/FactsFront.v. *)
From SPV Require Export Base.Str.

Inductive kind := PosOnly | PosOrKw | KwOnly.
Definition kind_eqb (a b : kind) : bool :=
  match a, b with PosOnly, PosOnly | PosOrKw, PosOrKw | KwOnly, KwOnly => true | _, _ => false end.

(* annotation tags; only ANone (config_for cannot type the field) and ABool (custom argparse action) matter *)
Inductive ann := ANone | AInt | AFloat | AStr | ABool | AList | AOpt | AEnum | ADc.
Definition is_bool_ann (a : ann) : bool := match a with ABool => true | _ => false end.
Definition is_none_ann (a : ann) : bool := match a with ANone => true | _ => false end.

(* ---------- infer_type_annotation_from_default: the type of an un-annotated parameter, from its default ---------- *)
Inductive bty := TInt | TStr | TFloat | TBool.
(* what a default value is: a bool / int / float / str, a tuple of such, or anything else *)
Inductive dkind := DBool | DInt | DFloat | DStr | DTuple (l : list dkind) | DOther | DList (l : list dkind)    (* DList: a list *)
               | DDict (empty : bool).                                           (* a dict: {} or not *)
Inductive ity := IB (t : bty) | ITuple (l : list ity) | IFail          (* IFail: NotImplementedError / not one of these *)
             | IList (t : ity) | IListBare                           (* list[T] from the FIRST item; bare `list` for [] *)
             | IDictBare.                                            (* bare `dict`, for {} only *)
(* isinstance(default, t): a bool is also an int *)
Definition isinstance_b (d : dkind) (t : bty) : bool :=
  match d, t with
  | DBool, TBool | DBool, TInt | DInt, TInt | DFloat, TFloat | DStr, TStr => true
  | _, _ => false
  end.
Definition type_of (d : dkind) : option bty :=
  match d with DBool => Some TBool | DInt => Some TInt | DFloat => Some TFloat | DStr => Some TStr | _ => None end.
Inductive infer_rule :=
| InferTypeOf (tests : list bty)     (* if isinstance(default, (t1, .., tn)): return type(default) *)
| InferFirst (order : list bty).     (* for t in (t1, .., tn): if isinstance(default, t): return t *)
Definition infer_scalar (r : infer_rule) (d : dkind) : option bty :=
  match r with
  | InferTypeOf ts => if existsb (isinstance_b d) ts then type_of d else None
  | InferFirst ts => find (isinstance_b d) ts
  end.
Fixpoint infer (r : infer_rule) (d : dkind) : ity :=
  match infer_scalar r d with
  | Some t => IB t
  | None => match d with
            | DTuple l => ITuple (map (infer r) l)
            | DList [] => IListBare
            | DList (x :: _) => IList (infer r x)
            | DDict true => IDictBare
            | _ => IFail end
  end.

(* ---------- unhashable defaults: dataclasses refuses them as plain defaults ---------- *)
Inductive ckind := KList | KDict | KSet.
Definition ckind_eqb (a b : ckind) : bool :=
  match a, b with KList, KList | KDict, KDict | KSet, KSet => true | _, _ => false end.
(* what a signature default is, as far as hashing goes: hashable; a list/dict/set; any other unhashable object
   (e.g. an instance of a non-frozen dataclass) *)
Inductive mutk := Immut | MutC (k : ckind) | MutOther.
Definition is_mut_other (m : mutk) : bool := match m with MutOther => true | _ => false end.
(* copied = the container kinds the front-end wraps into default_factory=partial(copy.deepcopy, default);
   everything else that is unhashable reaches dataclasses as a plain default: ValueError("mutable default ...") *)
Definition refused (copied : list ckind) (m : mutk) : bool :=
  match m with Immut => false | MutC k => negb (existsb (ckind_eqb k) copied) | MutOther => true end.

(* ---------- where config_for takes a field's type from: the arms of its if/elif chain, in order ---------- *)
Inductive tsrc := SrcParam | SrcClass | SrcInfer.     (* the parameter's annotation / get_type_hints(cls)[name] / the default *)
Definition src_applicable (annotated has_hint has_default : bool) (t : tsrc) : bool :=
  match t with SrcParam => annotated | SrcClass => has_hint | SrcInfer => has_default end.
(* None: no arm applies, the parameter is skipped ("Don't know what the type of field is") *)
Definition type_source (chain : list tsrc) (annotated has_hint has_default : bool) : option tsrc :=
  find (src_applicable annotated has_hint has_default) chain.
(* does the field end up with the type the signature asks for (the parameter's own annotation; for an un-annotated parameter
   the class-level hint)?  hint_same: the class-level hint happens to be the parameter's annotation *)
Definition field_type_ok (chain : list tsrc) (annotated has_hint hint_same has_default : bool) : bool :=
  match type_source chain annotated has_hint has_default with
  | Some SrcParam => true
  | Some SrcClass => if annotated then hint_same else true
  | Some SrcInfer => negb annotated && negb has_hint
  | None => false
  end.

Record facts := mkfacts {
  f_field_pos_key : string;         (* helpers.field: _metadata[<key>] = positional   ("" = not stored) *)
  f_main_pos_key : string;          (* main: field.metadata.get(<key>, False) decides positional / keyword *)
  f_main_parsed_pos_first : bool;   (* positionals = ( *args, *other_args ): parsed positionals before run-time ones *)
  f_cf_type_chain : list tsrc;      (* config_for: precedence of the sources of a field's type *)
  f_cf_str_single : bool;           (* config_for: a str ignore_args is ONE name (otherwise tuple(str) = its characters) *)
  f_cf_target_set : bool;           (* config_for: config_class._target_ = cls *)
  f_main_copied : list ckind;       (* main: isinstance(parameter.default, (list, dict, set)) -> deepcopy factory *)
  f_cf_copied : list ckind;         (* config_for: the same for the optional-field arm *)
  f_infer : infer_rule;             (* head of infer_type_annotation_from_default *)
  f_main_kwargs : list string;      (* keyword names main passes to helpers.field *)
  f_field_named : list string;      (* named parameters of helpers.field; every other keyword lands in custom_args *)
  f_bool_params : list string;      (* parameters of BooleanOptionalAction.__init__ (it has no **kwargs) *)
  f_main_pos_kinds : list kind;     (* parameter kinds for which main sets positional=True *)
  f_main_sorted : bool;             (* fields = sorted(fields, key=_field_has_default) *)
  f_main_parsed_wins : bool;        (* ChainMap(kwargs, other_kwargs): the parsed value shadows a run-time keyword *)
  f_cf_req_kwargs : list string;    (* simple_parsing.field(help=.., required=True) for a parameter without default *)
  f_cf_opt_kwargs : list string;    (* simple_parsing.field(default=.., help=..) *)
  f_cf_req_front : bool;            (* fields.insert(0, ..) for a required parameter *)
  f_cf_skips_ignored : bool;        (* `if name in ignore_args: continue` *)
  f_cf_cached : bool;               (* @_cache_when_possible (unbounded lru_cache when every argument is hashable) *)
  f_call_site_wins : bool           (* Partial.__call__: constructor_kwargs.update of the call-site kwargs *)
}.

(* keywords given to helpers.field that are not among its named parameters: they are forwarded to add_argument *)
Definition custom_of (F : facts) (kwargs : list string) : list string :=
  filter (fun k => negb (str_in k (f_field_named F))) kwargs.
(* those a BooleanOptionalAction cannot take *)
Definition bogus_for_bool (F : facts) (custom : list string) : list string :=
  filter (fun k => negb (str_in k (f_bool_params F))) custom.
Definition main_bogus (F : facts) : list string := bogus_for_bool F (custom_of F (f_main_kwargs F)).

Definition TE : err := Raise "TypeError".

(* no element without the mark d after an element with it (seen: one with the mark came before) *)
Fixpoint ordered {A} (d : A -> bool) (seen : bool) (l : list A) : bool :=
  match l with
  | [] => true
  | x :: r => if d x then ordered d true r else negb seen && ordered d seen r
  end.

(* how ignore_args was written at the call site of config_for *)
Inductive ignore_form := IgAbsent | IgStr (s : string) | IgTuple (l : list string) | IgList (l : list string).
Fixpoint chars_of (s : string) : list string :=
  match s with EmptyString => [] | String a r => String a "" :: chars_of r end.
(* str_single = the regenerated fact f_cf_str_single *)
Definition ignore_names (str_single : bool) (i : ignore_form) : list string :=
  match i with
  | IgAbsent => []
  | IgStr s => if str_single then [s] else chars_of s
  | IgTuple l | IgList l => l
  end.
Definition list_eqb' {A} (e : A -> A -> bool) : list A -> list A -> bool :=
  fix go l1 l2 := match l1, l2 with [] , [] => true | x :: r1, y :: r2 => e x y && go r1 r2 | _, _ => false end.
Definition ignore_eqb (a b : ignore_form) : bool :=
  match a, b with
  | IgAbsent, IgAbsent => true
  | IgStr x, IgStr y => String.eqb x y
  | IgTuple x, IgTuple y | IgList x, IgList y => list_eqb' String.eqb x y
  | _, _ => false
  end.

Section V.
  Variable V : Type.

  Record param := mkparam {
    p_name : string; p_kind : kind; p_ann : ann;
    p_default : option V;
    p_mut : mutk            (* hashability of the default *)
  }.
  Definition sig := list param.

  Definition is_po (p : param) : bool := kind_eqb (p_kind p) PosOnly.
  Definition has_def (p : param) : bool := match p_default p with Some _ => true | None => false end.

  (* ---------- assoc lists (Python dicts, insertion ordered) ---------- *)
  Fixpoint lookup (l : list (string * V)) (k : string) : option V :=
    match l with [] => None | (k', v) :: r => if String.eqb k k' then Some v else lookup r k end.
  Definition keys (l : list (string * V)) : list string := map fst l.
  (* d = dict(base); d.update(upd) *)
  Definition dict_update (base upd : list (string * V)) : list (string * V) :=
    (map (fun kv => (fst kv, match lookup upd (fst kv) with Some v => v | None => snd kv end)) base
     ++ filter (fun kv => negb (str_in (fst kv) (keys base))) upd)%list.

  (* ---------- a synthesised dataclass field ---------- *)
  Record fld := mkfld {
    fl_name : string; fl_ann : ann; fl_default : option V; fl_mut : bool;
    fl_pos : bool;                 (* metadata["positional"] *)
    fl_custom : list string        (* names in metadata["custom_args"] *)
  }.
  Definition fl_has_def (f : fld) : bool := match fl_default f with Some _ => true | None => false end.

  (* dataclasses: "non-default argument follows default argument" *)
  Definition order_ok (seen_default : bool) (fs : list fld) : bool := ordered fl_has_def seen_default fs.

  (* class creation + add_arguments: what can go wrong before any argument is read *)
  Definition setup (F : facts) (fs : list fld) : res unit :=
    if existsb (fun f => fl_has_def f && fl_mut f) fs then Err (Raise "ValueError")     (* mutable default *)
    else if negb (order_ok false fs) then Err TE
    else if existsb (fun f => is_bool_ann (fl_ann f)
                              && match bogus_for_bool F (fl_custom f) with [] => false | _ => true end) fs
         then Err TE                             (* BooleanOptionalAction.__init__() got an unexpected keyword argument *)
    else Ok tt.

  (* ---------- a call, and CPython's binding of it to a signature without *args/**kwargs ---------- *)
  Record call := mkcall { c_pos : list V; c_kw : list (string * V) }.

  Definition pos_capable (k : kind) : bool := match k with KwOnly => false | _ => true end.
  Definition kw_capable (k : kind) : bool := match k with PosOnly => false | _ => true end.

  Definition from_kw (p : param) (kw : list (string * V)) : res V :=
    match (if kw_capable (p_kind p) then lookup kw (p_name p) else None) with
    | Some v => Ok v
    | None => match p_default p with Some d => Ok d | None => Err TE end      (* missing required argument *)
    end.

  Fixpoint bind_params (ps : sig) (pos : list V) (kw : list (string * V)) : res (list (string * V)) :=
    match ps with
    | [] => match pos with [] => Ok [] | _ => Err TE end                      (* too many positional arguments *)
    | p :: r =>
        match (if pos_capable (p_kind p) then pos else []) with
        | v :: pos' =>
            if str_in (p_name p) (keys kw) then Err TE   (* multiple values *)
            else bind (bind_params r pos' kw) (fun b => Ok ((p_name p, v) :: b))
        | [] =>
            bind (from_kw p kw) (fun v => bind (bind_params r pos kw) (fun b => Ok ((p_name p, v) :: b)))
        end
    end.

  (* every keyword must name a parameter that can be passed by keyword *)
  Definition kw_names_ok (s : sig) (kw : list (string * V)) : bool :=
    forallb (fun k => existsb (fun p => String.eqb (p_name p) k && kw_capable (p_kind p)) s) (keys kw).

  Definition bind_call (s : sig) (c : call) : res (list (string * V)) :=
    if kw_names_ok s (c_kw c) then bind_params s (c_pos c) (c_kw c) else Err TE.

  (* what is observed: the call the wrapped callable received (if any) and how the whole thing ended
     (Ok = the parameter bindings inside the callable, in signature order) *)
  Definition trace := (option call * res (list (string * V)))%type.

  (* ====================== decorators.main ====================== *)
  Definition pkey (p : param) : nat := if has_def p then 1 else 0.
  (* sorted(fields, key=_field_has_default): the key only looks at the default, which the field copies from the
     parameter, so the stable sort is done on the parameters *)
  Definition main_order (F : facts) (s : sig) : sig := if f_main_sorted F then sort_by pkey s else s.
  Definition main_refuses (F : facts) (p : param) : bool := refused (f_main_copied F) (p_mut p).
  Definition cf_refuses (F : facts) (p : param) : bool := refused (f_cf_copied F) (p_mut p).
  Definition main_field (F : facts) (p : param) : fld :=
    mkfld (p_name p) (p_ann p) (p_default p) (main_refuses F p)
          (* positional=<kind test> is stored by helpers.field under one metadata key and read back by main under another *)
          (existsb (kind_eqb (p_kind p)) (f_main_pos_kinds F) && String.eqb (f_field_pos_key F) (f_main_pos_key F))
          (custom_of F (f_main_kwargs F)).
  Definition main_fields (F : facts) (s : sig) : list fld := map (main_field F) (main_order F s).

  Definition main_call (F : facts) (s : sig) (vals : string -> V)
             (extra_pos : list V) (extra_kw : list (string * V)) : call :=
    let fs := main_fields F s in
    let args := map (fun f => vals (fl_name f)) (filter fl_pos fs) in
    let kws := map (fun f => (fl_name f, vals (fl_name f))) (filter (fun f => negb (fl_pos f)) fs) in
    mkcall (if f_main_parsed_pos_first F then args ++ extra_pos else extra_pos ++ args)%list
           (* function called with ChainMap(a, b) unpacked: keys of b first, a shadows b *)
           (if f_main_parsed_wins F then dict_update extra_kw kws else dict_update kws extra_kw).

  Definition main_run (F : facts) (s : sig) (parsed : res (string -> V))
             (extra_pos : list V) (extra_kw : list (string * V)) : trace :=
    match setup F (main_fields F s) with
    | Err e => (None, Err e)
    | Ok _ => match parsed with
              | Err e => (None, Err e)
              | Ok vals => let c := main_call F s vals extra_pos extra_kw in (Some c, bind_call s c)
              end
    end.

  (* ====================== partial.config_for / Partial.__call__ ====================== *)
  Definition eff_default (over : list (string * V)) (p : param) : option V :=
    match lookup over (p_name p) with Some v => Some v | None => p_default p end.
  Definition cf_field (F : facts) (over : list (string * V)) (p : param) : fld :=
    let d := eff_default over p in
    mkfld (p_name p) (p_ann p) d
          (match lookup over (p_name p) with Some _ => false | None => cf_refuses F p end)
          false
          (custom_of F (match d with None => f_cf_req_kwargs F | Some _ => f_cf_opt_kwargs F end)).
  (* neither annotated nor defaulted: "Don't know what the type of field is! Ignoring this argument." *)
  Definition cf_untyped (over : list (string * V)) (p : param) : bool :=
    is_none_ann (p_ann p) && match eff_default over p with None => true | Some _ => false end.
  Definition cf_step (F : facts) (ignore : list string) (over : list (string * V)) (acc : list fld) (p : param) : list fld :=
    let f := cf_field F over p in
    if f_cf_skips_ignored F && str_in (p_name p) ignore then acc
    else if cf_untyped over p then acc
    else if fl_has_def f then (acc ++ [f])%list
    else if f_cf_req_front F then f :: acc else (acc ++ [f])%list.
  Definition cf_fields (F : facts) (ignore : list string) (over : list (string * V)) (s : sig) : list fld :=
    fold_left (cf_step F ignore over) s [].

  Definition partial_call (F : facts) (fs : list fld) (vals : string -> V)
             (call_pos : list V) (call_kw : list (string * V)) : call :=
    let own := map (fun f => (fl_name f, vals (fl_name f))) fs in
    mkcall call_pos (if f_call_site_wins F then dict_update own call_kw else dict_update call_kw own).

  Definition cf_run (F : facts) (s : sig) (ignore : list string) (over : list (string * V))
             (parsed : res (string -> V)) (call_pos : list V) (call_kw : list (string * V)) : trace :=
    let fs := cf_fields F ignore over s in
    match setup F fs with
    | Err e => (None, Err e)
    | Ok _ => match parsed with
              | Err e => (None, Err e)
              | Ok vals => let c := partial_call F fs vals call_pos call_kw in (Some c, bind_call s c)
              end
    end.

  (* ---------- the class cache: successive config_for(target, ...) requests for one target ---------- *)
  Record cfreq := mkreq { rq_ignore : ignore_form; rq_frozen : option bool; rq_over : list (string * V) }.
  (* isinstance(arg, Hashable) for every argument: a list is not *)
  Definition rq_hashable (r : cfreq) : bool := match rq_ignore r with IgList _ => false | _ => true end.

  Variable veqb : V -> V -> bool.
  Definition req_eqb (a b : cfreq) : bool :=
    ignore_eqb (rq_ignore a) (rq_ignore b)
    && match rq_frozen a, rq_frozen b with Some x, Some y => Bool.eqb x y | None, None => true | _, _ => false end
    && list_eqb' (fun x y => String.eqb (fst x) (fst y) && veqb (snd x) (snd y)) (rq_over a) (rq_over b).

  (* cache table (first match wins; new entries go to the end; never evicted) and the next fresh class id *)
  Definition cstate := (list (cfreq * nat) * nat)%type.
  Fixpoint find_req (t : list (cfreq * nat)) (r : cfreq) : option nat :=
    match t with [] => None | (r', c) :: rest => if req_eqb r r' then Some c else find_req rest r end.

  Definition cf_request (F : facts) (s : sig) (st : cstate) (r : cfreq) : cstate * res nat :=
    let build := setup F (cf_fields F (ignore_names (f_cf_str_single F) (rq_ignore r)) (rq_over r) s) in
    if f_cf_cached F && rq_hashable r then
      match find_req (fst st) r with
      | Some c => (st, Ok c)
      | None => match build with
                | Err e => (st, Err e)                      (* lru_cache does not remember exceptions *)
                | Ok _ => (((fst st ++ [(r, snd st)])%list, S (snd st)), Ok (snd st))
                end
      end
    else match build with
         | Err e => (st, Err e)
         | Ok _ => ((fst st, S (snd st)), Ok (snd st))
         end.

  Fixpoint cf_session (F : facts) (s : sig) (st : cstate) (rs : list cfreq) : cstate * list (res nat) :=
    match rs with
    | [] => (st, [])
    | r :: rest => let '(st1, o) := cf_request F s st r in
                   let '(st2, os) := cf_session F s st1 rest in (st2, o :: os)
    end.
  (* ---------- several callables: the cache key contains the callable OBJECT (not its name) ----------
     sigs k = signature of callable number k; a step = (callable number, request).  `Partial[f]` is config_for(f), i.e. the
     request without arguments.  The allocation log remembers for which callable each class id was created. *)
  Definition pstate := (list (nat * cfreq * nat) * list nat)%type.
  Fixpoint pfind (t : list (nat * cfreq * nat)) (k : nat) (r : cfreq) : option nat :=
    match t with
    | [] => None
    | (k', r', c) :: rest => if Nat.eqb k k' && req_eqb r r' then Some c else pfind rest k r
    end.
  Definition p_request (F : facts) (sigs : nat -> sig) (st : pstate) (k : nat) (r : cfreq) : pstate * res nat :=
    let build := setup F (cf_fields F (ignore_names (f_cf_str_single F) (rq_ignore r)) (rq_over r) (sigs k)) in
    let fresh := List.length (snd st) in
    if f_cf_cached F && rq_hashable r then
      match pfind (fst st) k r with
      | Some c => (st, Ok c)
      | None => match build with
                | Err e => (st, Err e)
                | Ok _ => (((fst st ++ [(k, r, fresh)])%list, (snd st ++ [k])%list), Ok fresh)
                end
      end
    else match build with
         | Err e => (st, Err e)
         | Ok _ => ((fst st, (snd st ++ [k])%list), Ok fresh)
         end.
  Fixpoint p_session (F : facts) (sigs : nat -> sig) (st : pstate) (steps : list (nat * cfreq)) : pstate * list (res nat) :=
    match steps with
    | [] => (st, [])
    | (k, r) :: rest => let '(st1, o) := p_request F sigs st k r in
                        let '(st2, os) := p_session F sigs st1 rest in (st2, o :: os)
    end.
End V.

Arguments mkparam {V}. Arguments p_name {V}. Arguments p_kind {V}. Arguments p_ann {V}.
Arguments p_default {V}. Arguments p_mut {V}. Arguments is_po {V}. Arguments has_def {V}.
Arguments lookup {V}. Arguments keys {V}. Arguments dict_update {V}.
Arguments mkfld {V}. Arguments fl_name {V}. Arguments fl_ann {V}. Arguments fl_default {V}. Arguments fl_mut {V}.
Arguments fl_pos {V}. Arguments fl_custom {V}. Arguments fl_has_def {V}. Arguments order_ok {V}. Arguments setup {V}.
Arguments mkcall {V}. Arguments c_pos {V}. Arguments c_kw {V}.
Arguments from_kw {V}. Arguments bind_params {V}. Arguments kw_names_ok {V}. Arguments bind_call {V}.
Arguments main_refuses {V}. Arguments cf_refuses {V}. Arguments pkey {V}. Arguments main_order {V}. Arguments main_field {V}. Arguments main_fields {V}.
Arguments main_call {V}. Arguments main_run {V}.
Arguments eff_default {V}. Arguments cf_field {V}. Arguments cf_untyped {V}. Arguments cf_step {V}. Arguments cf_fields {V}.
Arguments partial_call {V}. Arguments cf_run {V}.
Arguments mkreq {V}. Arguments rq_ignore {V}. Arguments rq_frozen {V}. Arguments rq_over {V}.
Arguments rq_hashable {V}. Arguments req_eqb {V}. Arguments find_req {V}.
Arguments cf_request {V}. Arguments cf_session {V}.
Arguments pfind {V}. Arguments p_request {V}. Arguments p_session {V}.
