(* Model/Leaf.v — one command-line field: which argparse options SimpleParsing derives from the annotation
   (FieldWrapper.get_arg_options), how tokens are converted (field_parsing.get_parsing_fn,
   utils.get_argparse_type_for_container, int(), float(), str2bool, Path, Enum lookup), how argparse slices the
   tokens that follow the option (nargs), and FieldWrapper.postprocess.  Definitions only. *)
From Coq Require Import DecimalString DecimalZ.
From SPV Require Export Base.Str.

(* ---------- types and values ---------- *)
Inductive lit := LStr (s : string) | LInt (z : Z).

Inductive ty :=
| TInt | TFloat | TStr | TBool | TPath
| TEnum (members : list string)
| TLit (choices : list lit)
| TList (t : ty)
| TTupFix (ts : list ty)
| TTupVar (t : ty)
| TOpt (t : ty).

(* floats are exact decimals: sign, integer part, fraction digits without trailing zeros *)
Inductive value :=
| VInt (z : Z) | VFlt (neg : bool) (ip : Z) (frac : string) | VStr (s : string) | VBool (b : bool)
| VNone | VEnum (m : string) | VPath (s : string) | VList (vs : list value) | VTup (vs : list value).

(* ---------- Python int() ---------- *)
Definition is_digit_str (s : string) : bool :=
  negb (String.eqb s "") && (fix go s := match s with EmptyString => true | String a r => is_digit a && go r end) s.

(* single underscores between digits are allowed and ignored; None = not a digit string *)
Fixpoint strip_underscores (s : string) (prev_digit : bool) : option string :=
  match s with
  | EmptyString => if prev_digit then Some "" else None
  | String a r =>
      if is_digit a then option_map (String a) (strip_underscores r true)
      else if Ascii.eqb a "_"%char then (if prev_digit then strip_underscores r false else None)
      else None
  end.

Definition uint_z (s : string) : option Z :=
  match strip_underscores s false with
  | Some d => option_map Z.of_uint (NilZero.uint_of_string d)
  | None => None
  end.

Definition py_int (s : string) : option Z :=
  match strip s with
  | String "-"%char r => option_map Z.opp (uint_z r)
  | String "+"%char r => uint_z r
  | r => uint_z r
  end.

Definition show_int (z : Z) : string := NilZero.string_of_int (Z.to_int z).

(* ---------- Python float() on decimal literals (inf/nan are outside the model) ---------- *)
Fixpoint split_at_char (c : ascii) (s acc : string) : option (string * string) :=
  match s with
  | EmptyString => None
  | String a r => if Ascii.eqb a c then Some (acc, r) else split_at_char c r (acc ++ String a "")
  end.

Fixpoint rstrip_zeros_rev (s : string) : string :=     (* on a reversed string *)
  match s with String "0"%char r => rstrip_zeros_rev r | _ => s end.
Definition rstrip_zeros (s : string) : string := srev (rstrip_zeros_rev (srev s)).

Fixpoint zeros (n : nat) : string := match n with 0 => "" | S k => String "0"%char (zeros k) end.

Definition digits_or_empty (s : string) : option string :=
  if String.eqb s "" then Some "" else strip_underscores s false.

Definition take (n : nat) (s : string) : string := String.substring 0 n s.

Definition py_float (s : string) : option value :=
  let s0 := lower (strip s) in
  let '(neg, body) := match s0 with
                      | String "-"%char r => (true, r)
                      | String "+"%char r => (false, r)
                      | r => (false, r) end in
  let '(mant, ex) := match split_at_char "e"%char body "" with
                     | Some (m, e) => (m, Some e)
                     | None => (body, None) end in
  let exz := match ex with
             | None => Some 0%Z
             | Some e => match e with
                         | String "-"%char r => option_map Z.opp (uint_z r)
                         | String "+"%char r => uint_z r
                         | r => uint_z r end
             end in
  let '(ipd, fpd) := match split_at_char "."%char mant "" with
                     | Some (a, b) => (a, b)
                     | None => (mant, "") end in
  match exz, digits_or_empty ipd, digits_or_empty fpd with
  | Some e, Some ip, Some fp =>
      if String.eqb ip "" && String.eqb fp "" then None else
      let D := ip ++ fp in
      let p := (Z.of_nat (String.length ip) + e)%Z in
      let '(ipart, fpart) :=
        if (p <=? 0)%Z then ("0", zeros (Z.to_nat (- p)) ++ D)
        else if (Z.of_nat (String.length D) <=? p)%Z then (D ++ zeros (Z.to_nat (p - Z.of_nat (String.length D))), "")
        else (take (Z.to_nat p) D, drop (Z.to_nat p) D) in
      match NilZero.uint_of_string ipart with
      | Some u => let iz := Z.of_uint u in let fr := rstrip_zeros fpart in
                  Some (VFlt (neg && negb ((iz =? 0)%Z && String.eqb fr "")) iz fr)
      | None => None
      end
  | _, _, _ => None
  end.

Definition show_float (neg : bool) (ip : Z) (frac : string) : string :=
  (if neg then "-" else "") ++ show_int ip ++ "." ++ (if String.eqb frac "" then "0" else frac).

(* ---------- converters (the `type=` callables) ---------- *)
Inductive conv :=
| KInt | KFloat | KStr | KBool | KPath
| KEnum (members : list string)         (* parse_enum: enum_type[v] *)
| KFail (cls : string)                  (* calling a typing construct such as Literal[...] *)
| KSeq (ks : list conv)                 (* parse_tuple: the i-th call uses the i-th item type *)
| KOptional (k : conv).                 (* parse_union of Optional[T]: try_functions(parse_optional(T)) *)

(* errors argparse turns into its error path (exit status 2) vs errors that escape *)
Definition caught (cls : string) : bool :=
  String.eqb cls "ValueError" || String.eqb cls "TypeError" || String.eqb cls "ArgumentTypeError".
Definition conv_err (cls : string) : err := if caught cls then Exit 2 else Raise cls.

Section WithFacts.
  Variable str2bool : string -> option bool.
  Variable enum_miss_cls : string.         (* regenerated: the exception class parse_enum lets out for an unknown name *)

  Fixpoint convert (k : conv) (i : nat) (s : string) : res value :=
    match k with
    | KInt => match py_int s with Some z => Ok (VInt z) | None => Err (Exit 2) end
    | KFloat => match py_float s with Some v => Ok v | None => Err (Exit 2) end
    | KStr => Ok (VStr s)
    | KBool => match str2bool s with Some b => Ok (VBool b) | None => Err (Exit 2) end
    | KPath => Ok (VPath s)
    | KEnum ms => if str_in s ms then Ok (VEnum s) else Err (conv_err enum_miss_cls)
    | KFail cls => Err (conv_err cls)
    | KSeq ks => (fix pick (l : list conv) (j : nat) : res value :=
                    match l, j with
                    | k' :: _, 0 => convert k' 0 s
                    | _ :: r, S j' => pick r j'
                    | [], _ => Err (Raise "IndexError")
                    end) ks i
    | KOptional k' => match convert k' i s with
                      | Ok v => Ok v
                      | Err _ => Err (Exit 2)          (* try_functions re-raises as ValueError *)
                      end
    end.

  Fixpoint convert_all (k : conv) (i : nat) (ss : list string) : res (list value) :=
    match ss with
    | [] => Ok []
    | s :: r => match convert k i s with
                | Err e => Err e
                | Ok v => match convert_all k (S i) r with Err e => Err e | Ok vs => Ok (v :: vs) end
                end
    end.

  (* ---------- get_parsing_fn / get_argparse_type_for_container ---------- *)
  Fixpoint ty_eqb (a b : ty) : bool :=
    match a, b with
    | TInt, TInt | TFloat, TFloat | TStr, TStr | TBool, TBool | TPath, TPath => true
    | TEnum m1, TEnum m2 => (fix eq l1 l2 := match l1, l2 with [], [] => true | x :: r1, y :: r2 => String.eqb x y && eq r1 r2 | _, _ => false end) m1 m2
    | TList x, TList y | TTupVar x, TTupVar y | TOpt x, TOpt y => ty_eqb x y
    | _, _ => false        (* literals / nested tuples: never compared equal (outside the CLI grammar as tuple items) *)
    end.

  Fixpoint parsing_fn (t : ty) : conv :=
    match t with
    | TInt => KInt | TFloat => KFloat | TStr => KStr | TBool => KBool | TPath => KPath
    | TEnum ms => KEnum ms
    | TLit _ => KFail "TypeError"
    | TList u => parsing_fn u
    | TTupVar u => parsing_fn u
    | TTupFix ts => match ts with
                    | [] => KStr
                    | t0 :: r => if forallb (ty_eqb t0) r then parsing_fn t0 else KSeq (map parsing_fn ts)
                    end
    | TOpt u => KOptional (parsing_fn u)
    end.

  Definition container_conv (item : ty) : conv :=
    match item with
    | TBool => KBool
    | TEnum ms => KEnum ms
    | TLit _ => KFail "TypeError"
    | u => parsing_fn u
    end.

  (* ---------- get_arg_options ---------- *)
  Inductive nargs := NOne | NOpt | NStar | NNum (n : nat).
  Inductive action := AStore (n : nargs) (k : conv) (choices : option (list string)) | ABoolFlag.

  Definition lit_name (l : lit) : string := match l with LStr s => s | LInt z => show_int z end.
  Definition lit_value (l : lit) : value := match l with LStr s => VStr s | LInt z => VInt z end.

  Definition container_nargs (t : ty) : nargs :=
    match t with
    | TTupFix ts => if existsb (fun u => match u with TList _ | TTupFix _ | TTupVar _ => true | _ => false end) ts
                    then NStar else NNum (List.length ts)
    | _ => NStar
    end.

  Definition arg_options (t : ty) : action :=
    match t with
    | TLit cs => AStore NOne KStr (Some (map lit_name cs))
    | TOpt u =>
        match u with
        | TTupFix _ | TTupVar _ => AStore (container_nargs u) (parsing_fn u) None
        | TList item => AStore NStar (container_conv item) None
        | _ => AStore NOpt (parsing_fn u) None
        end
    | TEnum ms => AStore NOne KStr (Some ms)
    | TList item => AStore NStar (container_conv item) None
    | TTupFix _ | TTupVar _ => AStore (container_nargs t) (parsing_fn t) None
    | TBool => ABoolFlag
    | _ => AStore NOne (parsing_fn t) None
    end.

  (* ---------- argparse: the tokens that follow one occurrence of the option, under parse_args ---------- *)
  Inductive raw := ROne (v : value) | RNone | RMany (vs : list value).

  Definition check_choice (choices : option (list string)) (v : value) : bool :=
    match choices, v with
    | None, _ => true
    | Some cs, VStr s => str_in s cs
    | Some _, _ => false
    end.

  Definition take_values (n : nargs) (k : conv) (choices : option (list string)) (toks : list string) : res raw :=
    let arity_ok := match n with
                    | NOne => Nat.eqb (List.length toks) 1
                    | NOpt => Nat.leb (List.length toks) 1
                    | NStar => true
                    | NNum m => Nat.eqb (List.length toks) m
                    end in
    if negb arity_ok then Err (Exit 2) else
    match convert_all k 0 toks with
    | Err e => Err e
    | Ok vs =>
        if negb (forallb (check_choice choices) vs) then Err (Exit 2) else
        match n, vs with
        | NOne, [v] => Ok (ROne v)
        | NOpt, [v] => Ok (ROne v)
        | NOpt, [] => Ok RNone
        | NOne, _ | NOpt, _ => Err (Exit 2)
        | _, _ => Ok (RMany vs)
        end
    end.

  (* ---------- FieldWrapper.postprocess ---------- *)
  Definition lookup_lit (cs : list lit) (s : string) : option value :=
    option_map lit_value (find (fun l => String.eqb (lit_name l) s) (rev cs)).   (* dict comprehension: the last one wins *)

  Definition postprocess (t : ty) (r : raw) : value :=
    match t, r with
    | TEnum _, ROne (VStr s) => VEnum s
    | TLit cs, ROne (VStr s) => match lookup_lit cs s with Some v => v | None => VStr s end
    | TTupFix _, RMany vs | TTupVar _, RMany vs => VTup vs
    | TOpt (TTupFix _), RMany vs | TOpt (TTupVar _), RMany vs => VTup vs
    | _, ROne v => v
    | _, RNone => VNone
    | _, RMany vs => VList vs
    end.

  (* the field's value after `--opt toks` (one occurrence, fresh parser) *)
  Definition leaf_parse (t : ty) (toks : list string) : res value :=
    match arg_options t with
    | ABoolFlag =>
        match toks with
        | [] => Ok (VBool true)
        | [s] => match str2bool s with Some b => Ok (VBool b) | None => Err (Exit 2) end
        | _ => Err (Exit 2)
        end
    | AStore n k choices =>
        match take_values n k choices toks with
        | Err e => Err e
        | Ok r => Ok (postprocess t r)
        end
    end.
End WithFacts.
