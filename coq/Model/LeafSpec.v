(* Model/LeafSpec.v — what C02 / C04 demand of one field: annotation conformance and canonical token forms. *)
From SPV Require Export Base.Str Model.Leaf.

Fixpoint value_eqb (a b : value) : bool :=
  match a, b with
  | VInt x, VInt y => Z.eqb x y
  | VFlt n1 i1 f1, VFlt n2 i2 f2 => Bool.eqb n1 n2 && Z.eqb i1 i2 && String.eqb f1 f2
  | VStr x, VStr y | VEnum x, VEnum y | VPath x, VPath y => String.eqb x y
  | VBool x, VBool y => Bool.eqb x y
  | VNone, VNone => true
  | VList xs, VList ys | VTup xs, VTup ys =>
      (fix eq l1 l2 := match l1, l2 with
                       | [], [] => true
                       | x :: r1, y :: r2 => value_eqb x y && eq r1 r2
                       | _, _ => false end) xs ys
  | _, _ => false
  end.

(* annotation conformance: the value is an instance of the declared type (tuple vs list, enum member vs string, ...) *)
Fixpoint has_type (v : value) (t : ty) {struct t} : bool :=
  match t, v with
  | TInt, VInt _ | TFloat, VFlt _ _ _ | TStr, VStr _ | TBool, VBool _ | TPath, VPath _ => true
  | TEnum ms, VEnum m => str_in m ms
  | TLit cs, _ => existsb (fun l => value_eqb v (lit_value l)) cs
  | TList u, VList vs => forallb (fun x => has_type x u) vs
  | TTupVar u, VTup vs => forallb (fun x => has_type x u) vs
  | TTupFix ts, VTup vs =>
      (fix zip (l2 : list ty) (l1 : list value) {struct l2} := match l2, l1 with
                        | [], [] => true
                        | u :: r2, x :: r1 => has_type x u && zip r2 r1
                        | _, _ => false end) ts vs
  | TOpt _, VNone => true
  | TOpt u, _ => has_type v u
  | _, _ => false
  end.

(* the canonical token of a scalar *)
Definition scalar_token (v : value) : option string :=
  match v with
  | VInt z => Some (show_int z)
  | VFlt n i f => Some (show_float n i f)
  | VStr s | VEnum s | VPath s => Some s
  | VBool b => Some (if b then "True" else "False")
  | _ => None
  end.

Fixpoint scalar_tokens (vs : list value) : option (list string) :=
  match vs with
  | [] => Some []
  | v :: r => match scalar_token v, scalar_tokens r with Some s, Some ss => Some (s :: ss) | _, _ => None end
  end.

(* the tokens written after the field's option to express v (None = v cannot be written for this type) *)
Definition canon (t : ty) (v : value) : option (list string) :=
  match v with
  | VNone => match t with TOpt (TList _) | TOpt (TTupFix _) | TOpt (TTupVar _) => None | TOpt _ => Some [] | _ => None end
  | VList vs | VTup vs => scalar_tokens vs
  | _ => option_map (fun s => [s]) (scalar_token v)
  end.

(* tokens argparse lexes as arguments: no leading '-' unless a plain negative number ^-\d+$|^-\d*\.\d+$ *)
Definition all_digits (s : string) : bool :=
  (fix go s := match s with EmptyString => true | String a r => is_digit a && go r end) s.
Definition neg_number_like (s : string) : bool :=
  match s with
  | String "-"%char r =>
      (negb (String.eqb r "") && all_digits r)
      || match split_at_char "."%char r "" with
         | Some (a, b) => all_digits a && negb (String.eqb b "") && all_digits b
         | None => false end
  | _ => false
  end.
Definition token_plain (s : string) : bool := negb (prefixb "-" s) || neg_number_like s.

(* the CLI grammar of the property: scalars; containers of scalar items; Optional of those *)
Definition is_item (t : ty) : bool :=
  match t with TInt | TFloat | TStr | TBool | TPath | TEnum _ => true | _ => false end.
Definition is_container (t : ty) : bool :=
  match t with
  | TList u | TTupVar u => is_item u
  | TTupFix ts => negb (Nat.eqb (List.length ts) 0) && forallb is_item ts
  | _ => false
  end.
Definition lit_names_distinct (cs : list lit) : bool := str_nodupb (map lit_name cs).
Definition cli_type (t : ty) : bool :=
  match t with
  | TLit cs => negb (Nat.eqb (List.length cs) 0) && lit_names_distinct cs
  | TOpt u => is_item u || is_container u
  | _ => is_item t || is_container t
  end.
