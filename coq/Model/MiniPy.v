(* Model/MiniPy.v — a deep embedding of the small fragment of Python in which a few pure methods of SimpleParsing are
   written (strings, lists of strings, booleans, if / for / append / return), with a total interpreter.
   harness/translate/MiniPySrc.py dumps the ast of such a method as a term of type `block` (a syntax-to-syntax
   translation with nothing to get wrong); what the method computes is then `exec_block` of that term, and bridge theorems
   relate it to the hand-written functional models.  The interpreter is the trusted reading of Python for this fragment
   (validated, like the models, by the correspondence runs). *)
From SPV Require Export Base.Str.

Inductive val := VS (s : string) | VL (l : list val) | VB (b : bool) | VN (n : nat) | VNone
| VT (l : list val).               (* tuple (third group) *)

Inductive expr :=
| EStr (s : string)
| ENat (n : nat)
| EBool (b : bool)
| EVar (x : string)                       (* locals, and attributes of self such as "self.prefix", as variables *)
| EFmt (parts : list expr)                (* f"..." : concatenation of the str() of the parts *)
| EReplace (e : expr) (a b : string)      (* e.replace(a, b) with one-character a and b *)
| EStartswith (e : expr) (p : string)
| ESplit (e : expr) (sep : string)        (* one-character separator *)
| EJoin (sep : string) (e : expr)
| ESliceFrom (e : expr) (n : nat)         (* e[n:] on strings and lists *)
| ELen (e : expr)
| EEq (a b : expr)
| EIn (a b : expr)                        (* substring test or list / tuple membership *)
| ENot (a : expr)
| ECond (c a b : expr)                    (* a if c else b *)
| EList (es : list expr)
| EComp (body : expr) (x : string) (iter : expr) (cond : option expr)          (* [body for x in iter if cond] *)
| EComp2 (body : expr) (x y : string) (it1 it2 : expr)                         (* [body for x, y in zip(it1, it2)] *)
| EDedupe (e : expr)                      (* list(dict.fromkeys(e)) *)
| ESortLen (e : expr)                     (* sorted(e, key=len) *)
(* second group (BooleanOptionalAction.__init__) *)
| ENone
| EIsNone (e : expr)                      (* e is None *)
| ELstrip (e : expr) (c : string)         (* e.lstrip(c) with a one-character c *)
| EEndswith (e : expr) (p : string)
| ERepeat (c : string) (n : expr)         (* c * n with a one-character literal c *)
| EAdd (a b : expr)                       (* a + b on numbers, strings, lists *)
| ESub (a b : expr)                       (* a - b on numbers; a negative result is outside the fragment (an error) *)
| EGt (a b : expr)                        (* a > b on numbers *)
(* third group (FieldWrapper.duplicate_if_needed) *)
| EAnd (a b : expr)                       (* a and b: a when it is falsy, else b *)
| EOr (a b : expr)                        (* a or b *)
| EIsInst (e : expr) (classes : list string)   (* isinstance(e, (c1, ...)) for classes among list / tuple / str *)
| EToList (e : expr)                      (* list(e) of a list or tuple *)
| EIndex (e : expr) (n : nat)             (* e[n] with a literal n, on lists and tuples *)
| EMul (a b : expr)                       (* sequence * number, number * sequence, number * number *)
| ENestLevel (e : expr).                  (* utils.get_nesting_level(e) (its source is shape-checked by translate/Merge.py) *)

Inductive stmt :=
| SAssign (x : string) (e : expr)
| SAppend (x : string) (e : expr)         (* x.append(e) *)
| SExtend (x : string) (e : expr)         (* x.extend(e) *)
| SIf (c : expr) (th el : list stmt)
| SFor (x : string) (iter : expr) (body : list stmt)
| SReturn (e : expr)
| SUnpack3 (x ms y : string) (e : expr)   (* x, *ms, y = e *)
| SAssert (e : expr)
| SRaise (cls : string).                  (* raise cls(...): the message is not modelled *)
Definition block := list stmt.

Definition env := list (string * val).
Fixpoint lookup (x : string) (r : env) : option val :=
  match r with [] => None | (k, v) :: t => if String.eqb k x then Some v else lookup x t end.
Fixpoint assign (x : string) (v : val) (r : env) : env :=
  match r with
  | [] => [(x, v)]
  | (k, w) :: t => if String.eqb k x then (k, v) :: t else (k, w) :: assign x v t
  end.

Definition truthy (v : val) : bool :=
  match v with
  | VS s => negb (String.eqb s "")
  | VL l => negb (Nat.eqb (List.length l) 0)
  | VB b => b
  | VN n => negb (Nat.eqb n 0)
  | VNone => false
  | VT l => negb (Nat.eqb (List.length l) 0)
  end.

Fixpoint val_eqb (a b : val) : bool :=
  match a, b with
  | VS x, VS y => String.eqb x y
  | VB x, VB y => Bool.eqb x y
  | VN x, VN y => Nat.eqb x y
  | VB x, VN y => Nat.eqb (if x then 1 else 0) y        (* Python: bool is a subclass of int, True == 1 and False == 0 *)
  | VN x, VB y => Nat.eqb x (if y then 1 else 0)
  | VNone, VNone => true
  | VL xs, VL ys => (fix eq l1 l2 := match l1, l2 with
                                     | [], [] => true
                                     | x :: r1, y :: r2 => val_eqb x y && eq r1 r2
                                     | _, _ => false end) xs ys
  | VT xs, VT ys => (fix eq l1 l2 := match l1, l2 with
                                     | [], [] => true
                                     | x :: r1, y :: r2 => val_eqb x y && eq r1 r2
                                     | _, _ => false end) xs ys
  | _, _ => false
  end.

(* x in s on strings: x occurs in s as a substring (every string contains the empty string) *)
Fixpoint contains (x s : string) : bool :=
  prefixb x s || match s with EmptyString => false | String _ r => contains x r end.

Definition head_char (s : string) : ascii := match s with String a _ => a | EmptyString => "000"%char end.
Definition as_str (v : val) : option string := match v with VS s => Some s | _ => None end.
Fixpoint strs_of (l : list val) : option (list string) :=
  match l with
  | [] => Some []
  | VS s :: r => option_map (cons s) (strs_of r)
  | _ :: _ => None
  end.

Definition type_name (v : val) : string :=
  match v with VS _ => "str" | VL _ => "list" | VB _ => "bool" | VN _ => "int" | VNone => "NoneType" | VT _ => "tuple" end.
(* python `l * n` *)
Fixpoint rep_list {A} (l : list A) (n : nat) : list A :=
  match n with O => [] | S k => (l ++ rep_list l k)%list end.
Fixpoint rep_str (s : string) (n : nat) : string :=
  match n with O => "" | S k => s ++ rep_str s k end.
(* utils.get_nesting_level *)
Fixpoint nest_level (v : val) : nat :=
  match v with
  | VL l | VT l => S (fold_right (fun x acc => Nat.max (nest_level x) acc) 0 l)
  | _ => 0
  end.

Definition suffixb (p s : string) : bool := prefixb (srev p) (srev s).

Definition rerr {A} : res A := Err (Raise "MiniPyTypeError").
Definition wrapL (o : res (list val)) : res val := match o with Ok vs => Ok (VL vs) | Err z => Err z end.

(* [body for v in l if cond]: cond and body as functions of the element *)
Fixpoint comp_list (cond body : val -> res val) (l : list val) : res (list val) :=
  match l with
  | [] => Ok []
  | v :: t =>
      match cond v with
      | Err z => Err z
      | Ok cv => if truthy cv
                 then match body v, comp_list cond body t with Ok b, Ok bs => Ok (b :: bs) | Err z, _ => Err z | _, Err z => Err z end
                 else comp_list cond body t
      end
  end.
Fixpoint comp2_list (body : val -> val -> res val) (l1 l2 : list val) : res (list val) :=
  match l1, l2 with
  | v :: t1, w :: t2 => match body v w, comp2_list body t1 t2 with Ok b, Ok bs => Ok (b :: bs) | Err z, _ => Err z | _, Err z => Err z end
  | _, _ => Ok []
  end.
(* for v in l: step v *)
Fixpoint iter_list {S} (step : val -> S -> res (S * option val)) (l : list val) (r : S) : res (S * option val) :=
  match l with
  | [] => Ok (r, None)
  | v :: t => match step v r with
              | Err z => Err z
              | Ok (r', Some w) => Ok (r', Some w)
              | Ok (r', None) => iter_list step t r'
              end
  end.

Fixpoint eval (r : env) (e : expr) {struct e} : res val :=
  let evals := fix evals (es : list expr) : res (list val) :=
    match es with
    | [] => Ok []
    | x :: t => match eval r x, evals t with Ok v, Ok vs => Ok (v :: vs) | Err e, _ => Err e | _, Err e => Err e end
    end in
  match e with
  | EStr s => Ok (VS s)
  | ENat n => Ok (VN n)
  | EBool b => Ok (VB b)
  | EVar x => match lookup x r with Some v => Ok v | None => Err (Raise "NameError") end
  | EFmt parts =>
      match evals parts with
      | Ok vs => match strs_of vs with Some ss => Ok (VS (String.concat "" ss)) | None => rerr end
      | Err x => Err x
      end
  | EReplace a x y => match eval r a with Ok (VS s) => Ok (VS (replace_char (head_char x) (head_char y) s)) | Ok _ => rerr | Err x => Err x end
  | EStartswith a p => match eval r a with Ok (VS s) => Ok (VB (prefixb p s)) | Ok _ => rerr | Err x => Err x end
  | ESplit a sep => match eval r a with Ok (VS s) => Ok (VL (map VS (split_on (head_char sep) s ""))) | Ok _ => rerr | Err x => Err x end
  | EJoin sep a => match eval r a with
                   | Ok (VL l) => match strs_of l with Some ss => Ok (VS (String.concat sep ss)) | None => rerr end
                   | Ok _ => rerr | Err x => Err x end
  | ESliceFrom a n => match eval r a with
                      | Ok (VS s) => Ok (VS (drop n s))
                      | Ok (VL l) => Ok (VL (skipn n l))
                      | Ok (VT l) => Ok (VT (skipn n l))
                      | Ok _ => rerr | Err x => Err x end
  | ELen a => match eval r a with
              | Ok (VS s) => Ok (VN (String.length s))
              | Ok (VL l) => Ok (VN (List.length l))
              | Ok (VT l) => Ok (VN (List.length l))
              | Ok _ => rerr | Err x => Err x end
  | EEq a b => match eval r a, eval r b with Ok x, Ok y => Ok (VB (val_eqb x y)) | Err x, _ => Err x | _, Err x => Err x end
  | EIn a b => match eval r a, eval r b with
               | Ok (VS x), Ok (VS s) => Ok (VB (match x with String c EmptyString => has_char c s | _ => contains x s end))
               | Ok x, Ok (VL l) => Ok (VB (existsb (val_eqb x) l))
               | Ok x, Ok (VT l) => Ok (VB (existsb (val_eqb x) l))
               | Ok _, Ok _ => rerr | Err x, _ => Err x | _, Err x => Err x end
  | ENot a => match eval r a with Ok v => Ok (VB (negb (truthy v))) | Err x => Err x end
  | ECond c a b => match eval r c with Ok v => if truthy v then eval r a else eval r b | Err x => Err x end
  | EList es => match evals es with Ok vs => Ok (VL vs) | Err x => Err x end
  | EComp body x iter cond =>
      match eval r iter with
      | Ok (VL l) =>
          wrapL (comp_list (fun v => match cond with None => Ok (VB true) | Some c => eval (assign x v r) c end)
                           (fun v => eval (assign x v r) body) l)
      | Ok _ => rerr | Err z => Err z
      end
  | EComp2 body x y it1 it2 =>
      match eval r it1, eval r it2 with
      | Ok (VL l1), Ok (VL l2) =>
          wrapL (comp2_list (fun v w => eval (assign y w (assign x v r)) body) l1 l2)
      | Ok _, Ok _ => rerr | Err z, _ => Err z | _, Err z => Err z
      end
  | EDedupe a => match eval r a with
                 | Ok (VL l) => match strs_of l with Some ss => Ok (VL (map VS (dedupe ss []))) | None => rerr end
                 | Ok _ => rerr | Err z => Err z end
  | ESortLen a => match eval r a with
                  | Ok (VL l) => match strs_of l with Some ss => Ok (VL (map VS (sort_by String.length ss))) | None => rerr end
                  | Ok _ => rerr | Err z => Err z end
  | ENone => Ok VNone
  | EIsNone a => match eval r a with Ok VNone => Ok (VB true) | Ok _ => Ok (VB false) | Err z => Err z end
  | ELstrip a c => match eval r a with
                   | Ok (VS s) => Ok (VS (lstrip_by (fun x => Ascii.eqb x (head_char c)) s))
                   | Ok _ => rerr | Err z => Err z end
  | EEndswith a p => match eval r a with Ok (VS s) => Ok (VB (suffixb p s)) | Ok _ => rerr | Err z => Err z end
  | ERepeat c n => match eval r n with Ok (VN k) => Ok (VS (repeat_char (head_char c) k)) | Ok _ => rerr | Err z => Err z end
  | EAdd a b => match eval r a, eval r b with
                | Ok (VN x), Ok (VN y) => Ok (VN (x + y))
                | Ok (VS x), Ok (VS y) => Ok (VS (x ++ y))
                | Ok (VL x), Ok (VL y) => Ok (VL (x ++ y))
                | Ok (VT x), Ok (VT y) => Ok (VT (x ++ y))
                | Ok _, Ok _ => rerr | Err z, _ => Err z | _, Err z => Err z end
  | ESub a b => match eval r a, eval r b with
                | Ok (VN x), Ok (VN y) => if Nat.leb y x then Ok (VN (x - y)) else Err (Raise "MiniPyNegativeNumber")
                | Ok _, Ok _ => rerr | Err z, _ => Err z | _, Err z => Err z end
  | EGt a b => match eval r a, eval r b with
               | Ok (VN x), Ok (VN y) => Ok (VB (Nat.ltb y x))
               | Ok _, Ok _ => rerr | Err z, _ => Err z | _, Err z => Err z end
  | EAnd a b => match eval r a with Ok v => if truthy v then eval r b else Ok v | Err z => Err z end
  | EOr a b => match eval r a with Ok v => if truthy v then Ok v else eval r b | Err z => Err z end
  | EIsInst a cls => match eval r a with Ok v => Ok (VB (str_in (type_name v) cls)) | Err z => Err z end
  | EToList a => match eval r a with Ok (VL l) => Ok (VL l) | Ok (VT l) => Ok (VL l) | Ok _ => rerr | Err z => Err z end
  | EIndex a n => match eval r a with
                  | Ok (VL l) | Ok (VT l) => match nth_error l n with Some v => Ok v | None => Err (Raise "IndexError") end
                  | Ok _ => rerr | Err z => Err z end
  | EMul a b => match eval r a, eval r b with
                | Ok (VN x), Ok (VN y) => Ok (VN (x * y))
                | Ok (VL l), Ok (VN n) => Ok (VL (rep_list l n))
                | Ok (VT l), Ok (VN n) => Ok (VT (rep_list l n))
                | Ok (VN n), Ok (VL l) => Ok (VL (rep_list l n))
                | Ok (VN n), Ok (VT l) => Ok (VT (rep_list l n))
                | Ok (VS s), Ok (VN n) => Ok (VS (rep_str s n))
                | Ok (VN n), Ok (VS s) => Ok (VS (rep_str s n))
                | Ok _, Ok _ => rerr | Err z, _ => Err z | _, Err z => Err z end
  | ENestLevel a => match eval r a with Ok v => Ok (VN (nest_level v)) | Err z => Err z end
  end.

(* statements: the result is the new environment and, when a `return` was executed, the returned value *)
Fixpoint exec (r : env) (s : stmt) {struct s} : res (env * option val) :=
  let exec_block := fix exec_block (r : env) (ss : list stmt) : res (env * option val) :=
    match ss with
    | [] => Ok (r, None)
    | s :: t => match exec r s with
                | Err z => Err z
                | Ok (r', Some v) => Ok (r', Some v)
                | Ok (r', None) => exec_block r' t
                end
    end in
  match s with
  | SAssign x e => match eval r e with Ok v => Ok (assign x v r, None) | Err z => Err z end
  | SAppend x e => match lookup x r, eval r e with
                   | Some (VL l), Ok v => Ok (assign x (VL (l ++ [v])) r, None)
                   | _, Err z => Err z
                   | _, _ => rerr end
  | SExtend x e => match lookup x r, eval r e with
                   | Some (VL l), Ok (VL l2) => Ok (assign x (VL (l ++ l2)) r, None)
                   | _, Err z => Err z
                   | _, _ => rerr end
  | SIf c th el => match eval r c with
                   | Ok v => if truthy v then exec_block r th else exec_block r el
                   | Err z => Err z end
  | SFor x iter body =>
      match eval r iter with
      | Ok (VL l) =>
          iter_list (fun v r => exec_block (assign x v r) body) l r
      | Ok _ => rerr
      | Err z => Err z
      end
  | SReturn e => match eval r e with Ok v => Ok (r, Some v) | Err z => Err z end
  | SUnpack3 x ms y e =>
      match eval r e with
      | Ok (VL (v :: rest)) =>
          match rev rest with
          | w :: mid_rev => Ok (assign y w (assign ms (VL (rev mid_rev)) (assign x v r)), None)
          | [] => Err (Raise "ValueError")
          end
      | Ok (VL []) => Err (Raise "ValueError")
      | Ok _ => rerr
      | Err z => Err z
      end
  | SAssert e => match eval r e with Ok v => if truthy v then Ok (r, None) else Err (Raise "AssertionError") | Err z => Err z end
  | SRaise cls => Err (Raise cls)
  end.

Fixpoint exec_block (r : env) (ss : list stmt) : res (env * option val) :=
  match ss with
  | [] => Ok (r, None)
  | s :: t => match exec r s with
              | Err z => Err z
              | Ok (r', Some v) => Ok (r', Some v)
              | Ok (r', None) => exec_block r' t
              end
  end.

(* run a method body: its return value (None when it falls off the end) *)
Definition run (r : env) (b : block) : res val :=
  match exec_block r b with
  | Ok (_, Some v) => Ok v
  | Ok (_, None) => Ok VNone
  | Err z => Err z
  end.
