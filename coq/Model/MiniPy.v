(* Model/MiniPy.v — a deep embedding of the small fragment of Python in which a few pure methods of SimpleParsing are
   written (strings, lists of strings, booleans, if / for / append / return), with a total interpreter.
   harness/translate/MiniPySrc.py dumps the ast of such a method as a term of type `block` (a syntax-to-syntax
   translation with nothing to get wrong); what the method computes is then `exec_block` of that term, and bridge theorems
   relate it to the hand-written functional models.  The interpreter is the trusted reading of Python for this fragment
   (validated, like the models, by the correspondence runs). *)
From SPV Require Export Base.Str.

Inductive val := VS (s : string) | VL (l : list val) | VB (b : bool) | VN (n : nat) | VNone
| VT (l : list val)                (* tuple (third group) *)
(* fourth group (the namespace / constructor-arguments plumbing of parsing.py) *)
| VD (kvs : list (val * val))      (* dict: association list in insertion order, keys compared with == *)
| VR (cls : string) (fields : list (string * val))   (* an object with attributes (argparse.Namespace, a wrapper): class name, vars() *)
| VC (name : string).              (* a distinguished constant: argparse.SUPPRESS, dataclasses.MISSING, ... *)

Inductive expr :=
| EStr (s : string)
| ENat (n : nat)
| EBool (b : bool)
| EVar (x : string)                       (* locals, and attributes of self such as "self.prefix", as variables *)
| EFmt (parts : list expr)                (* f"..." : concatenation of the str() of the parts *)
| EReplace (e : expr) (a b : string)      (* e.replace(a, b) with one-character a and b *)
| EStartswith (e : expr) (p : string)
| ESplit (e : expr) (sep : string)        (* one-character separator *)
| EJoin (sep : string) (e : expr)
| ESliceFrom (e : expr) (n : nat)         (* e[n:] on strings and lists *)
| ELen (e : expr)
| EEq (a b : expr)
| EIn (a b : expr)                        (* substring test or list / tuple membership *)
| ENot (a : expr)
| ECond (c a b : expr)                    (* a if c else b *)
| EList (es : list expr)
| EComp (body : expr) (x : string) (iter : expr) (cond : option expr)          (* [body for x in iter if cond] *)
| EComp2 (body : expr) (x y : string) (it1 it2 : expr)                         (* [body for x, y in zip(it1, it2)] *)
| EDedupe (e : expr)                      (* list(dict.fromkeys(e)) *)
| ESortLen (e : expr)                     (* sorted(e, key=len) *)
(* second group (BooleanOptionalAction.__init__) *)
| ENone
| EIsNone (e : expr)                      (* e is None *)
| ELstrip (e : expr) (c : string)         (* e.lstrip(c) with a one-character c *)
| EEndswith (e : expr) (p : string)
| ERepeat (c : string) (n : expr)         (* c * n with a one-character literal c *)
| EAdd (a b : expr)                       (* a + b on numbers, strings, lists *)
| ESub (a b : expr)                       (* a - b on numbers; a negative result is outside the fragment (an error) *)
| EGt (a b : expr)                        (* a > b on numbers *)
(* third group (FieldWrapper.duplicate_if_needed) *)
| EAnd (a b : expr)                       (* a and b: a when it is falsy, else b *)
| EOr (a b : expr)                        (* a or b *)
| EIsInst (e : expr) (classes : list string)   (* isinstance(e, (c1, ...)) for classes among list / tuple / str *)
| EToList (e : expr)                      (* list(e) of a list or tuple *)
| EIndex (e : expr) (n : nat)             (* e[n] with a literal n, on lists and tuples *)
| EMul (a b : expr)                       (* sequence * number, number * sequence, number * number *)
| ENestLevel (e : expr)                   (* utils.get_nesting_level(e) (its source is shape-checked by translate/Merge.py) *)
(* fourth group *)
| EConst (name : string)                  (* a sentinel constant *)
| EIsConst (e : expr) (name : string)     (* e is <sentinel> *)
| ETuple (es : list expr)                 (* (a, b, ...) *)
| EDict (kvs : list (expr * expr))        (* {k: v, ...} *)
| EAttr (e : expr) (name : string)        (* e.name on an object *)
| EGetAttr (e k : expr)                   (* getattr(e, k) *)
| EHasAttr (e k : expr)                   (* hasattr(e, k) *)
| EVars (e : expr)                        (* vars(e), read only: the attributes as a dict *)
| EGetItem (d k : expr)                   (* d[k]: dict lookup, or list / tuple / string at a number *)
| EDictGet (d k dflt : expr)              (* d.get(k, dflt) *)
| ECopy (e : expr)                        (* e.copy() of a dict or list *)
| EKeys (e : expr)                        (* d.keys() / iterating d: the keys, as a list *)
| EValues (e : expr)                      (* d.values() *)
| EItems (e : expr)                       (* d.items(): (key, value) tuples *)
| EZip (a b : expr)                       (* zip(a, b): tuples, as long as the shorter *)
| ECallTable (t a : expr)                 (* a call f(a) of an uninterpreted pure function given by its table t: a dict from
                                             arguments to results; the result (VC "raise", cls) stands for raising cls *)
| ESplitDest (e : expr)                   (* utils.split_dest(e) = e.rpartition(".")[0], [2] (source shape-checked by PipelineSrc.py) *)
(* fifth group (_instantiate_dataclasses) *)
| ESortAttr (e : expr) (attr : string) (rev : bool)   (* sorted(e, key=lambda w: w.attr[, reverse=True]): stable, numeric attribute *)
| EAll (body : expr) (x : string) (iter : expr)       (* all(body for x in iter) *)
(* sixth group (ConflictResolver) *)
| EAny (body : expr) (x : string) (iter : expr)       (* any(body for x in iter) *)
| ERec (cls : string) (fields : list (string * expr)) (* cls(f1=e1, ...): a new object (a NamedTuple / record) *)
| ESortKey (e : expr) (x : string) (key : expr) (rev : bool)   (* sorted(e, key=lambda x: key[, reverse=True]): stable, numeric key *)
| ECountDistinct (e : expr)                           (* len(set(e)) *)
(* seventh group (the docstring scanner: character-level string code) *)
| EStrip (e : expr)                       (* e.strip() *)
| EPartition (e : expr) (sep : string)    (* e.partition(sep): the 3-tuple (before, sep or "", after) *)
| EIsIdent (e : expr)                     (* e.isidentifier() on ASCII text *)
| ESplitN (e sep : expr) (n : nat)        (* e.split(sep, maxsplit=n) with a non-empty separator *)
| ESlice (e : expr) (lo hi : option expr) (* e[lo:hi] on strings, lists, tuples (natural bounds; an absent bound is the end) *)
| EIndexOf (e tok : expr)                 (* e.index(tok) on strings: where the first occurrence starts, else ValueError *)
| ERange (a b : expr).                    (* range(a, b), as the list of its numbers *)

Inductive stmt :=
| SAssign (x : string) (e : expr)
| SAppend (x : string) (e : expr)         (* x.append(e) *)
| SExtend (x : string) (e : expr)         (* x.extend(e) *)
| SIf (c : expr) (th el : list stmt)
| SFor (x : string) (iter : expr) (body : list stmt)
| SReturn (e : expr)
| SUnpack3 (x ms y : string) (e : expr)   (* x, *ms, y = e *)
| SAssert (e : expr)
| SRaise (cls : string)                   (* raise cls(...): the message is not modelled *)
(* fourth group *)
| SContinue
| SUnpack (xs : list string) (e : expr)                        (* x1, ..., xn = e *)
| SForC (x : string) (iter : expr) (body : list stmt)           (* a for loop whose body may `continue` *)
| SFor2 (x y : string) (iter : expr) (body : list stmt)         (* for x, y in iter (pairs); the body may `continue` *)
| SSetPath (x : string) (path : list (bool * expr)) (e : expr)  (* x[k1]..[kn] = e / x.a = e / setattr: (true, k) is an attribute step *)
| SDelItem (x : string) (k : expr)                              (* del x[k] *)
| SDelAttr (x : string) (k : expr)                              (* delattr(x, k) *)
| SPop (t x : string) (k : expr) (dflt : option expr)           (* t = x.pop(k[, dflt]) on the dict x *)
| SPopAttr (t x : string) (k : expr) (dflt : option expr)       (* t = vars(x).pop(k[, dflt]): the live view of the object x *)
| SCall (body : list stmt) (ins : list (string * expr)) (outs : list (string * string))
   (* a call of a dumped procedure: its body runs in the environment `ins` (parameter := argument); its `return` ends the call
      only; afterwards each (parameter, caller variable) of `outs` - the arguments the procedure mutates - is copied back *)
(* fifth group *)
| SBreak
| SForBE (x : string) (iter : expr) (body els : list stmt)      (* for .. [else ..]: the body may `break` and `continue` *)
| SCallRet (t : string) (body : list stmt) (ins : list (string * expr)) (outs : list (string * string))
   (* t = f(..): as SCall, then t receives what the procedure returned (None when it fell off the end) *)
(* sixth group *)
| SWhile (fuel : nat) (c : expr) (body : list stmt)   (* while c: body, at most `fuel` rounds (then the error OutOfFuel); break / continue *)
| SDictAppend (x : string) (k e : expr)               (* x[k].append(e) on a defaultdict(list) *)
| SRemove (x : string) (e : expr).                    (* x.remove(e): the first element equal to e *)
Definition block := list stmt.

Definition env := list (string * val).
Fixpoint lookup (x : string) (r : env) : option val :=
  match r with [] => None | (k, v) :: t => if String.eqb k x then Some v else lookup x t end.
Fixpoint assign (x : string) (v : val) (r : env) : env :=
  match r with
  | [] => [(x, v)]
  | (k, w) :: t => if String.eqb k x then (k, v) :: t else (k, w) :: assign x v t
  end.

Definition truthy (v : val) : bool :=
  match v with
  | VS s => negb (String.eqb s "")
  | VL l => negb (Nat.eqb (List.length l) 0)
  | VB b => b
  | VN n => negb (Nat.eqb n 0)
  | VNone => false
  | VT l => negb (Nat.eqb (List.length l) 0)
  | VD l => negb (Nat.eqb (List.length l) 0)
  | VR _ _ => true
  | VC _ => true
  end.

Fixpoint val_eqb (a b : val) : bool :=
  match a, b with
  | VS x, VS y => String.eqb x y
  | VB x, VB y => Bool.eqb x y
  | VN x, VN y => Nat.eqb x y
  | VB x, VN y => Nat.eqb (if x then 1 else 0) y        (* Python: bool is a subclass of int, True == 1 and False == 0 *)
  | VN x, VB y => Nat.eqb x (if y then 1 else 0)
  | VNone, VNone => true
  | VL xs, VL ys => (fix eq l1 l2 := match l1, l2 with
                                     | [], [] => true
                                     | x :: r1, y :: r2 => val_eqb x y && eq r1 r2
                                     | _, _ => false end) xs ys
  | VT xs, VT ys => (fix eq l1 l2 := match l1, l2 with
                                     | [], [] => true
                                     | x :: r1, y :: r2 => val_eqb x y && eq r1 r2
                                     | _, _ => false end) xs ys
  | VC x, VC y => String.eqb x y
  | VD xs, VD ys =>          (* dict equality does not depend on the insertion order (keys are unique) *)
      Nat.eqb (List.length xs) (List.length ys)
      && (fix all l := match l with
                       | [] => true
                       | (k, v) :: t => (fix find m := match m with
                                                       | [] => false
                                                       | (k', v') :: u => if val_eqb k k' then val_eqb v v' else find u
                                                       end) ys && all t
                       end) xs
  | VR c xs, VR d ys =>
      String.eqb c d && Nat.eqb (List.length xs) (List.length ys)
      && (fix all l := match l with
                       | [] => true
                       | (k, v) :: t => (fix find m := match m with
                                                       | [] => false
                                                       | (k', v') :: u => if String.eqb k k' then val_eqb v v' else find u
                                                       end) ys && all t
                       end) xs
  | _, _ => false
  end.

(* x in s on strings: x occurs in s as a substring (every string contains the empty string) *)
Fixpoint contains (x s : string) : bool :=
  prefixb x s || match s with EmptyString => false | String _ r => contains x r end.

Definition head_char (s : string) : ascii := match s with String a _ => a | EmptyString => "000"%char end.
Definition as_str (v : val) : option string := match v with VS s => Some s | _ => None end.
Fixpoint strs_of (l : list val) : option (list string) :=
  match l with
  | [] => Some []
  | VS s :: r => option_map (cons s) (strs_of r)
  | _ :: _ => None
  end.

Definition type_name (v : val) : string :=
  match v with VS _ => "str" | VL _ => "list" | VB _ => "bool" | VN _ => "int" | VNone => "NoneType" | VT _ => "tuple"
  | VD _ => "dict" | VR c _ => c | VC _ => "sentinel" end.
(* python `l * n` *)
Fixpoint rep_list {A} (l : list A) (n : nat) : list A :=
  match n with O => [] | S k => (l ++ rep_list l k)%list end.
Fixpoint rep_str (s : string) (n : nat) : string :=
  match n with O => "" | S k => s ++ rep_str s k end.
(* utils.get_nesting_level *)
Fixpoint nest_level (v : val) : nat :=
  match v with
  | VL l | VT l => S (fold_right (fun x acc => Nat.max (nest_level x) acc) 0 l)
  | _ => 0
  end.

(* ---------- dicts and objects ---------- *)
Fixpoint dget (k : val) (d : list (val * val)) : option val :=
  match d with [] => None | (k', v) :: t => if val_eqb k' k then Some v else dget k t end.
Fixpoint dset (k v : val) (d : list (val * val)) : list (val * val) :=
  match d with
  | [] => [(k, v)]
  | (k', w) :: t => if val_eqb k' k then (k', v) :: t else (k', w) :: dset k v t
  end.
Fixpoint ddel (k : val) (d : list (val * val)) : list (val * val) :=
  match d with [] => [] | (k', w) :: t => if val_eqb k' k then t else (k', w) :: ddel k t end.
Fixpoint rget (k : string) (d : list (string * val)) : option val :=
  match d with [] => None | (k', v) :: t => if String.eqb k' k then Some v else rget k t end.
Fixpoint rset (k : string) (v : val) (d : list (string * val)) : list (string * val) :=
  match d with
  | [] => [(k, v)]
  | (k', w) :: t => if String.eqb k' k then (k', v) :: t else (k', w) :: rset k v t
  end.
Fixpoint rdel (k : string) (d : list (string * val)) : list (string * val) :=
  match d with [] => [] | (k', w) :: t => if String.eqb k' k then t else (k', w) :: rdel k t end.

Definition BRK : val := VC "<break>".
Definition is_brk (v : val) : bool := match v with VC n => String.eqb n "<break>" | _ => false end.
Definition CONT : val := VC "<continue>".
Definition is_cont (v : val) : bool := match v with VC n => String.eqb n "<continue>" | _ => false end.
Definition pair_of (a b : val) : val := VT [a; b].
Definition seq_items (v : val) : option (list val) := match v with VL l => Some l | VT l => Some l | _ => None end.

(* str.rpartition(".") without the separator *)
Definition split_dest (d : string) : string * string :=
  match rev (split_dot d) with
  | a :: rp => (join_dot (rev rp), a)
  | [] => ("", d)
  end.

Definition suffixb (p s : string) : bool := prefixb (srev p) (srev s).

Definition rerr {A} : res A := Err (Raise "MiniPyTypeError").
Definition wrapL (o : res (list val)) : res val := match o with Ok vs => Ok (VL vs) | Err z => Err z end.

(* [body for v in l if cond]: cond and body as functions of the element *)
Fixpoint comp_list (cond body : val -> res val) (l : list val) : res (list val) :=
  match l with
  | [] => Ok []
  | v :: t =>
      match cond v with
      | Err z => Err z
      | Ok cv => if truthy cv
                 then match body v, comp_list cond body t with Ok b, Ok bs => Ok (b :: bs) | Err z, _ => Err z | _, Err z => Err z end
                 else comp_list cond body t
      end
  end.
Fixpoint comp2_list (body : val -> val -> res val) (l1 l2 : list val) : res (list val) :=
  match l1, l2 with
  | v :: t1, w :: t2 => match body v w, comp2_list body t1 t2 with Ok b, Ok bs => Ok (b :: bs) | Err z, _ => Err z | _, Err z => Err z end
  | _, _ => Ok []
  end.
(* for v in l: step v *)
Fixpoint iter_list {S} (step : val -> S -> res (S * option val)) (l : list val) (r : S) : res (S * option val) :=
  match l with
  | [] => Ok (r, None)
  | v :: t => match step v r with
              | Err z => Err z
              | Ok (r', Some w) => Ok (r', Some w)
              | Ok (r', None) => iter_list step t r'
              end
  end.

(* for loops whose body may `continue`: the statement SContinue returns the marker CONT, which ends the iteration only *)
Fixpoint iter_list_c {S} (step : val -> S -> res (S * option val)) (l : list val) (r : S) : res (S * option val) :=
  match l with
  | [] => Ok (r, None)
  | v :: t => match step v r with
              | Err z => Err z
              | Ok (r', Some w) => if is_cont w then iter_list_c step t r' else Ok (r', Some w)
              | Ok (r', None) => iter_list_c step t r'
              end
  end.

(* x[k1]..[kn] = new / x.a[k] = new ...: functional update along a path; (true, VS a) is the attribute a *)
Fixpoint upd_path (v0 : val) (path : list (bool * val)) (new : val) : res val :=
  match path with
  | [] => Ok new
  | (false, k) :: rest =>
      match v0 with
      | VD d => match rest with
                | [] => Ok (VD (dset k new d))
                | _ => match dget k d with
                       | Some w => match upd_path w rest new with Ok w' => Ok (VD (dset k w' d)) | Err z => Err z end
                       | None => Err (Raise "KeyError")
                       end
                end
      | _ => rerr
      end
  | (true, VS a) :: rest =>
      match v0 with
      | VR c f => match rest with
                  | [] => Ok (VR c (rset a new f))
                  | _ => match rget a f with
                         | Some w => match upd_path w rest new with Ok w' => Ok (VR c (rset a w' f)) | Err z => Err z end
                         | None => Err (Raise "AttributeError")
                         end
                  end
      | _ => rerr
      end
  | (true, _) :: _ => rerr
  end.

Definition is_some {A} (o : option A) : bool := match o with Some _ => true | None => false end.

(* ---------- the fourth group's operations on evaluated operands (kept out of `eval` / `exec` so that their bodies stay small) ---------- *)
Definition bind2 (a b : res val) (f : val -> val -> res val) : res val :=
  match a, b with Ok x, Ok y => f x y | Err z, _ => Err z | _, Err z => Err z end.
Definition op_isconst (n : string) (a : res val) : res val :=
  match a with Ok (VC m) => Ok (VB (String.eqb m n)) | Ok _ => Ok (VB false) | Err z => Err z end.
Definition op_attr (n : string) (a : res val) : res val :=
  match a with
  | Ok (VR _ f) => match rget n f with Some v => Ok v | None => Err (Raise "AttributeError") end
  | Ok _ => rerr | Err z => Err z end.
Definition op_getattr (a k : res val) : res val :=
  bind2 a k (fun x y => match x, y with
                        | VR _ f, VS n => match rget n f with Some v => Ok v | None => Err (Raise "AttributeError") end
                        | _, _ => rerr end).
Definition op_hasattr (a k : res val) : res val :=
  bind2 a k (fun x y => match x, y with VR _ f, VS n => Ok (VB (is_some (rget n f))) | _, _ => rerr end).
Definition op_vars (a : res val) : res val :=
  match a with Ok (VR _ f) => Ok (VD (map (fun p => (VS (fst p), snd p)) f)) | Ok _ => rerr | Err z => Err z end.
Definition op_getitem (d k : res val) : res val :=
  bind2 d k (fun x kv => match x, kv with
                         | VD l, _ => match dget kv l with Some v => Ok v | None => Err (Raise "KeyError") end
                         | VL l, VN n | VT l, VN n => match nth_error l n with Some v => Ok v | None => Err (Raise "IndexError") end
                         | VS s, VN n => match String.get n s with Some c => Ok (VS (String c "")) | None => Err (Raise "IndexError") end
                         | _, _ => rerr end).
Definition op_dictget (d k dflt : res val) : res val :=
  match d, k, dflt with
  | Ok (VD l), Ok kv, Ok dv => match dget kv l with Some v => Ok v | None => Ok dv end
  | Ok _, Ok _, Ok _ => rerr
  | Err z, _, _ => Err z | _, Err z, _ => Err z | _, _, Err z => Err z end.
Definition op_copy (a : res val) : res val :=
  match a with Ok (VD l) => Ok (VD l) | Ok (VL l) => Ok (VL l) | Ok _ => rerr | Err z => Err z end.
Definition op_keys (a : res val) : res val := match a with Ok (VD l) => Ok (VL (map fst l)) | Ok _ => rerr | Err z => Err z end.
Definition op_values (a : res val) : res val := match a with Ok (VD l) => Ok (VL (map snd l)) | Ok _ => rerr | Err z => Err z end.
Definition op_items (a : res val) : res val :=
  match a with Ok (VD l) => Ok (VL (map (fun p => pair_of (fst p) (snd p)) l)) | Ok _ => rerr | Err z => Err z end.
Definition op_zip (a b : res val) : res val :=
  bind2 a b (fun x y => match seq_items x, seq_items y with
                        | Some l1, Some l2 => Ok (VL (map (fun p => pair_of (fst p) (snd p)) (combine l1 l2)))
                        | _, _ => rerr end).
Definition op_calltable (t a : res val) : res val :=
  bind2 t a (fun x v => match x with
                        | VD l => match dget v l with
                                  | Some (VT [VC "raise"; VS cls]) => Err (Raise cls)
                                  | Some w => Ok w
                                  | None => Err (Raise "MiniPyUnknownCall")
                                  end
                        | _ => rerr end).
Definition op_splitdest (a : res val) : res val :=
  match a with
  | Ok (VS s) => Ok (pair_of (VS (fst (split_dest s))) (VS (snd (split_dest s))))
  | Ok _ => rerr | Err z => Err z end.

Definition st_unpack (r : env) (xs : list string) (e : res val) : res (env * option val) :=
  match e with
  | Ok v => match seq_items v with
            | Some l => if Nat.eqb (List.length l) (List.length xs)
                        then Ok (fold_left (fun acc p => assign (fst p) (snd p) acc) (combine xs l) r, None)
                        else Err (Raise "ValueError")
            | None => rerr end
  | Err z => Err z
  end.
Definition st_setpath (r : env) (x : string) (e : res val) (path : res (list (bool * val))) : res (env * option val) :=
  match e with
  | Err z => Err z
  | Ok v => match path with
            | Err z => Err z
            | Ok pv => match lookup x r with
                       | None => Err (Raise "NameError")
                       | Some v0 => match upd_path v0 pv v with Ok v1 => Ok (assign x v1 r, None) | Err z => Err z end
                       end
            end
  end.
Definition st_delitem (r : env) (x : string) (k : res val) : res (env * option val) :=
  match k, lookup x r with
  | Err z, _ => Err z
  | Ok kv, Some (VD d) => if is_some (dget kv d) then Ok (assign x (VD (ddel kv d)) r, None) else Err (Raise "KeyError")
  | Ok _, Some _ => rerr
  | Ok _, None => Err (Raise "NameError")
  end.
Definition st_delattr (r : env) (x : string) (k : res val) : res (env * option val) :=
  match k, lookup x r with
  | Err z, _ => Err z
  | Ok (VS n), Some (VR c f) => if is_some (rget n f) then Ok (assign x (VR c (rdel n f)) r, None) else Err (Raise "AttributeError")
  | Ok _, Some _ => rerr
  | Ok _, None => Err (Raise "NameError")
  end.
Definition st_pop (r : env) (t x : string) (k : res val) (dflt : res (option val)) : res (env * option val) :=
  match k, dflt, lookup x r with
  | Err z, _, _ => Err z
  | _, Err z, _ => Err z
  | Ok kv, Ok dv, Some (VD d) =>
      match dget kv d, dv with
      | Some v, _ => Ok (assign t v (assign x (VD (ddel kv d)) r), None)
      | None, Some v => Ok (assign t v r, None)
      | None, None => Err (Raise "KeyError")
      end
  | Ok _, Ok _, Some _ => rerr
  | Ok _, Ok _, None => Err (Raise "NameError")
  end.
(* vars(x).pop(k[, d]): a key that is not a string is simply absent *)
Definition st_popattr (r : env) (t x : string) (k : res val) (dflt : res (option val)) : res (env * option val) :=
  match k, dflt, lookup x r with
  | Err z, _, _ => Err z
  | _, Err z, _ => Err z
  | Ok kv, Ok dv, Some (VR c f) =>
      match (match kv with VS n => rget n f | _ => None end), dv with
      | Some v, _ => Ok (assign t v (assign x (VR c (match kv with VS n => rdel n f | _ => f end)) r), None)
      | None, Some v => Ok (assign t v r, None)
      | None, None => Err (Raise "KeyError")
      end
  | Ok _, Ok _, Some _ => rerr
  | Ok _, Ok _, None => Err (Raise "NameError")
  end.
Fixpoint copy_back (r1 : env) (l : list (string * string)) (acc : env) : res (env * option val) :=
  match l with
  | [] => Ok (acc, None)
  | (p, x) :: t => match lookup p r1 with Some v => copy_back r1 t (assign x v acc) | None => Err (Raise "NameError") end
  end.
Definition pair_step (step : val -> val -> env -> res (env * option val)) : val -> env -> res (env * option val) :=
  fun v r => match seq_items v with
             | Some [a; b] => step a b r
             | Some _ => Err (Raise "ValueError")
             | None => rerr end.

(* sorted(l, key=lambda w: w.attr, reverse=rev): stable insertion by a numeric attribute *)
Fixpoint ins_key (rev : bool) (k : nat) (x : val) (l : list (nat * val)) : list (nat * val) :=
  match l with
  | [] => [(k, x)]
  | (k', y) :: t => if (if rev then Nat.ltb k' k else Nat.ltb k k') then (k, x) :: l else (k', y) :: ins_key rev k x t
  end.
Fixpoint keyed (attr : string) (l : list val) : option (list (nat * val)) :=
  match l with
  | [] => Some []
  | VR c f :: t => match rget attr f, keyed attr t with Some (VN k), Some r => Some ((k, VR c f) :: r) | _, _ => None end
  | _ :: _ => None
  end.
Definition op_sortattr (attr : string) (rev : bool) (a : res val) : res val :=
  match a with
  | Ok (VL l) => match keyed attr l with
                 | Some kl => Ok (VL (map snd (fold_left (fun acc p => ins_key rev (fst p) (snd p) acc) kl [])))
                 | None => rerr end
  | Ok _ => rerr | Err z => Err z end.
Fixpoint all_list (f : val -> res val) (l : list val) : res val :=
  match l with
  | [] => Ok (VB true)
  | v :: t => match f v with Ok b => if truthy b then all_list f t else Ok (VB false) | Err z => Err z end
  end.
Fixpoint any_list (f : val -> res val) (l : list val) : res val :=
  match l with
  | [] => Ok (VB false)
  | v :: t => match f v with Ok b => if truthy b then Ok (VB true) else any_list f t | Err z => Err z end
  end.
Fixpoint keyed_by (f : val -> res val) (l : list val) : res (list (nat * val)) :=
  match l with
  | [] => Ok []
  | v :: t => match f v with
              | Ok (VN k) => match keyed_by f t with Ok r => Ok ((k, v) :: r) | Err z => Err z end
              | Ok _ => rerr
              | Err z => Err z end
  end.
Definition sort_keyed (rev : bool) (kl : list (nat * val)) : list val :=
  map snd (fold_left (fun acc p => ins_key rev (fst p) (snd p) acc) kl []).
Fixpoint distinct (l : list val) (seen : list val) : nat :=
  match l with
  | [] => 0
  | v :: t => if existsb (val_eqb v) seen then distinct t seen else S (distinct t (v :: seen))
  end.
Definition op_countdistinct (a : res val) : res val :=
  match a with
  | Ok v => match seq_items v with Some l => Ok (VN (distinct l [])) | None => rerr end
  | Err z => Err z end.
Fixpoint remove_first (v : val) (l : list val) : option (list val) :=
  match l with
  | [] => None
  | x :: t => if val_eqb x v then Some t else option_map (cons x) (remove_first v t)
  end.
Definition st_dictappend (r : env) (x : string) (k e : res val) : res (env * option val) :=
  match k, e, lookup x r with
  | Err z, _, _ => Err z
  | _, Err z, _ => Err z
  | Ok kv, Ok v, Some (VD d) =>
      match dget kv d with
      | Some (VL l) => Ok (assign x (VD (dset kv (VL (l ++ [v])) d)) r, None)
      | Some _ => rerr
      | None => Ok (assign x (VD (dset kv (VL [v]) d)) r, None)
      end
  | Ok _, Ok _, Some _ => rerr
  | Ok _, Ok _, None => Err (Raise "NameError")
  end.
Definition st_remove (r : env) (x : string) (e : res val) : res (env * option val) :=
  match e, lookup x r with
  | Err z, _ => Err z
  | Ok v, Some (VL l) => match remove_first v l with Some l' => Ok (assign x (VL l') r, None) | None => Err (Raise "ValueError") end
  | Ok _, Some _ => rerr
  | Ok _, None => Err (Raise "NameError")
  end.
(* while: one round = test, then the body; break ends the loop, continue the round *)
Fixpoint while_loop (fuel : nat) (test : env -> res val) (body : env -> res (env * option val)) (r : env) : res (env * option val) :=
  match test r with
  | Err z => Err z
  | Ok c => if truthy c then
              match fuel with
              | O => Err OutOfFuel
              | S k => match body r with
                       | Err z => Err z
                       | Ok (r', Some w) => if is_cont w then while_loop k test body r'
                                            else if is_brk w then Ok (r', None) else Ok (r', Some w)
                       | Ok (r', None) => while_loop k test body r'
                       end
              end
            else Ok (r, None)
  end.

Definition for_else (o : res (env * option val)) (els : env -> res (env * option val)) : res (env * option val) :=
  match o with
  | Ok (r', Some w) => if is_brk w then Ok (r', None) else Ok (r', Some w)
  | Ok (r', None) => els r'
  | Err z => Err z
  end.
Definition ret_to (t : string) (o : option val) (back : res (env * option val)) : res (env * option val) :=
  match back with
  | Ok (r', _) => Ok (assign t (match o with Some v => v | None => VNone end) r', None)
  | Err z => Err z
  end.

(* ---------- seventh group: strings by characters ---------- *)
Fixpoint skip_chars (n : nat) (s : string) : string :=
  match n, s with S k, String _ r => skip_chars k r | _, _ => s end.
(* first (leftmost) occurrence of the non-empty token: (text before it, text after it) *)
Fixpoint split_first (tok s : string) : option (string * string) :=
  match s with
  | EmptyString => None
  | String a r =>
      if prefixb tok s then Some (EmptyString, skip_chars (String.length tok) s)
      else match split_first tok r with Some (x, y) => Some (String a x, y) | None => None end
  end.
Fixpoint split_n (n : nat) (tok s : string) : list string :=
  match n with
  | O => [s]
  | S k => match split_first tok s with Some (a, b) => a :: split_n k tok b | None => [s] end
  end.
Fixpoint str_all (p : ascii -> bool) (s : string) : bool :=
  match s with EmptyString => true | String a r => p a && str_all p r end.
Definition is_lower_c (a : ascii) : bool := let n := ascii_nat a in Nat.leb 97 n && Nat.leb n 122.
Definition is_id_start (a : ascii) : bool := is_upper a || is_lower_c a || Ascii.eqb a "_"%char.
Definition is_id_char (a : ascii) : bool := is_id_start a || is_digit a.
Definition is_ident (s : string) : bool :=
  match s with EmptyString => false | String a r => is_id_start a && str_all is_id_char r end.
Definition op_strip (a : res val) : res val :=
  match a with Ok (VS s) => Ok (VS (strip s)) | Ok _ => rerr | Err z => Err z end.
Definition op_partition (sep : string) (a : res val) : res val :=
  match a with
  | Ok (VS s) => match sep with
                 | EmptyString => Err (Raise "ValueError")
                 | _ => match split_first sep s with
                        | Some (x, y) => Ok (VT [VS x; VS sep; VS y])
                        | None => Ok (VT [VS s; VS ""; VS ""])
                        end
                 end
  | Ok _ => rerr | Err z => Err z end.
Definition op_isident (a : res val) : res val :=
  match a with Ok (VS s) => Ok (VB (is_ident s)) | Ok _ => rerr | Err z => Err z end.
(* a method call evaluates the receiver, looks the method up (a receiver that is not a string fails here), then the arguments *)
Definition op_splitn (n : nat) (a sep : res val) : res val :=
  match a with
  | Err z => Err z
  | Ok (VS s) => match sep with
                 | Err z => Err z
                 | Ok (VS EmptyString) => Err (Raise "ValueError")
                 | Ok (VS tok) => Ok (VL (map VS (split_n n tok s)))
                 | Ok _ => rerr
                 end
  | Ok _ => rerr
  end.
Definition op_slice (a : res val) (lo hi : option (res val)) : res val :=
  match a with
  | Err z => Err z
  | Ok x =>
      match (match lo with None | Some (Ok VNone) => Ok (VN 0) | Some l => l end) with      (* a bound that is None is an absent bound *)
      | Err z => Err z
      | Ok (VN l) =>
          match (match hi with Some (Ok VNone) => None | _ => hi end) with
          | None => match x with
                    | VS s => Ok (VS (String.substring l (String.length s - l) s))
                    | VL v => Ok (VL (skipn l v))
                    | VT v => Ok (VT (skipn l v))
                    | _ => rerr end
          | Some (Err z) => Err z
          | Some (Ok (VN h)) => match x with
                                | VS s => Ok (VS (String.substring l (h - l) s))
                                | VL v => Ok (VL (skipn l (firstn h v)))
                                | VT v => Ok (VT (skipn l (firstn h v)))
                                | _ => rerr end
          | Some (Ok _) => rerr
          end
      | Ok _ => match hi with Some (Err z) => Err z | _ => rerr end
      end
  end.
Definition op_indexof (a tok : res val) : res val :=
  match a with
  | Err z => Err z
  | Ok (VS s) => match tok with
                 | Err z => Err z
                 | Ok (VS EmptyString) => Ok (VN 0)
                 | Ok (VS t) => match split_first t s with Some (b, _) => Ok (VN (String.length b)) | None => Err (Raise "ValueError") end
                 | Ok _ => rerr
                 end
  | Ok _ => rerr
  end.
Definition op_range (a b : res val) : res val :=
  bind2 a b (fun x y => match x, y with VN m, VN n => Ok (VL (map VN (seq m (n - m)))) | _, _ => rerr end).

Fixpoint eval (r : env) (e : expr) {struct e} : res val :=
  let evals := fix evals (es : list expr) : res (list val) :=
    match es with
    | [] => Ok []
    | x :: t => match eval r x, evals t with Ok v, Ok vs => Ok (v :: vs) | Err e, _ => Err e | _, Err e => Err e end
    end in
  match e with
  | EStr s => Ok (VS s)
  | ENat n => Ok (VN n)
  | EBool b => Ok (VB b)
  | EVar x => match lookup x r with Some v => Ok v | None => Err (Raise "NameError") end
  | EFmt parts =>
      match evals parts with
      | Ok vs => match strs_of vs with Some ss => Ok (VS (String.concat "" ss)) | None => rerr end
      | Err x => Err x
      end
  | EReplace a x y => match eval r a with Ok (VS s) => Ok (VS (replace_char (head_char x) (head_char y) s)) | Ok _ => rerr | Err x => Err x end
  | EStartswith a p => match eval r a with Ok (VS s) => Ok (VB (prefixb p s)) | Ok _ => rerr | Err x => Err x end
  | ESplit a sep => match eval r a with Ok (VS s) => Ok (VL (map VS (split_on (head_char sep) s ""))) | Ok _ => rerr | Err x => Err x end
  | EJoin sep a => match eval r a with
                   | Ok (VL l) => match strs_of l with Some ss => Ok (VS (String.concat sep ss)) | None => rerr end
                   | Ok _ => rerr | Err x => Err x end
  | ESliceFrom a n => match eval r a with
                      | Ok (VS s) => Ok (VS (drop n s))
                      | Ok (VL l) => Ok (VL (skipn n l))
                      | Ok (VT l) => Ok (VT (skipn n l))
                      | Ok _ => rerr | Err x => Err x end
  | ELen a => match eval r a with
              | Ok (VS s) => Ok (VN (String.length s))
              | Ok (VL l) => Ok (VN (List.length l))
              | Ok (VT l) => Ok (VN (List.length l))
              | Ok (VD l) => Ok (VN (List.length l))
              | Ok _ => rerr | Err x => Err x end
  | EEq a b => match eval r a, eval r b with Ok x, Ok y => Ok (VB (val_eqb x y)) | Err x, _ => Err x | _, Err x => Err x end
  | EIn a b => match eval r a, eval r b with
               | Ok (VS x), Ok (VS s) => Ok (VB (match x with String c EmptyString => has_char c s | _ => contains x s end))
               | Ok x, Ok (VL l) => Ok (VB (existsb (val_eqb x) l))
               | Ok x, Ok (VT l) => Ok (VB (existsb (val_eqb x) l))
               | Ok x, Ok (VD d) => Ok (VB (is_some (dget x d)))
               | Ok x, Ok (VR _ f) => Ok (VB (match x with VS k => is_some (rget k f) | _ => false end))   (* argparse.Namespace.__contains__ *)
               | Ok _, Ok _ => rerr | Err x, _ => Err x | _, Err x => Err x end
  | ENot a => match eval r a with Ok v => Ok (VB (negb (truthy v))) | Err x => Err x end
  | ECond c a b => match eval r c with Ok v => if truthy v then eval r a else eval r b | Err x => Err x end
  | EList es => match evals es with Ok vs => Ok (VL vs) | Err x => Err x end
  | EComp body x iter cond =>
      match eval r iter with
      | Ok (VL l) =>
          wrapL (comp_list (fun v => match cond with None => Ok (VB true) | Some c => eval (assign x v r) c end)
                           (fun v => eval (assign x v r) body) l)
      | Ok _ => rerr | Err z => Err z
      end
  | EComp2 body x y it1 it2 =>
      match eval r it1, eval r it2 with
      | Ok (VL l1), Ok (VL l2) =>
          wrapL (comp2_list (fun v w => eval (assign y w (assign x v r)) body) l1 l2)
      | Ok _, Ok _ => rerr | Err z, _ => Err z | _, Err z => Err z
      end
  | EDedupe a => match eval r a with
                 | Ok (VL l) => match strs_of l with Some ss => Ok (VL (map VS (dedupe ss []))) | None => rerr end
                 | Ok _ => rerr | Err z => Err z end
  | ESortLen a => match eval r a with
                  | Ok (VL l) => match strs_of l with Some ss => Ok (VL (map VS (sort_by String.length ss))) | None => rerr end
                  | Ok _ => rerr | Err z => Err z end
  | ENone => Ok VNone
  | EIsNone a => match eval r a with Ok VNone => Ok (VB true) | Ok _ => Ok (VB false) | Err z => Err z end
  | ELstrip a c => match eval r a with
                   | Ok (VS s) => Ok (VS (lstrip_by (fun x => Ascii.eqb x (head_char c)) s))
                   | Ok _ => rerr | Err z => Err z end
  | EEndswith a p => match eval r a with Ok (VS s) => Ok (VB (suffixb p s)) | Ok _ => rerr | Err z => Err z end
  | ERepeat c n => match eval r n with Ok (VN k) => Ok (VS (repeat_char (head_char c) k)) | Ok _ => rerr | Err z => Err z end
  | EAdd a b => match eval r a, eval r b with
                | Ok (VN x), Ok (VN y) => Ok (VN (x + y))
                | Ok (VS x), Ok (VS y) => Ok (VS (x ++ y))
                | Ok (VL x), Ok (VL y) => Ok (VL (x ++ y))
                | Ok (VT x), Ok (VT y) => Ok (VT (x ++ y))
                | Ok _, Ok _ => rerr | Err z, _ => Err z | _, Err z => Err z end
  | ESub a b => match eval r a, eval r b with
                | Ok (VN x), Ok (VN y) => if Nat.leb y x then Ok (VN (x - y)) else Err (Raise "MiniPyNegativeNumber")
                | Ok _, Ok _ => rerr | Err z, _ => Err z | _, Err z => Err z end
  | EGt a b => match eval r a, eval r b with
               | Ok (VN x), Ok (VN y) => Ok (VB (Nat.ltb y x))
               | Ok _, Ok _ => rerr | Err z, _ => Err z | _, Err z => Err z end
  | EAnd a b => match eval r a with Ok v => if truthy v then eval r b else Ok v | Err z => Err z end
  | EOr a b => match eval r a with Ok v => if truthy v then Ok v else eval r b | Err z => Err z end
  | EIsInst a cls => match eval r a with Ok v => Ok (VB (str_in (type_name v) cls)) | Err z => Err z end
  | EToList a => match eval r a with Ok (VL l) => Ok (VL l) | Ok (VT l) => Ok (VL l) | Ok _ => rerr | Err z => Err z end
  | EIndex a n => match eval r a with
                  | Ok (VL l) | Ok (VT l) => match nth_error l n with Some v => Ok v | None => Err (Raise "IndexError") end
                  | Ok _ => rerr | Err z => Err z end
  | EMul a b => match eval r a, eval r b with
                | Ok (VN x), Ok (VN y) => Ok (VN (x * y))
                | Ok (VL l), Ok (VN n) => Ok (VL (rep_list l n))
                | Ok (VT l), Ok (VN n) => Ok (VT (rep_list l n))
                | Ok (VN n), Ok (VL l) => Ok (VL (rep_list l n))
                | Ok (VN n), Ok (VT l) => Ok (VT (rep_list l n))
                | Ok (VS s), Ok (VN n) => Ok (VS (rep_str s n))
                | Ok (VN n), Ok (VS s) => Ok (VS (rep_str s n))
                | Ok _, Ok _ => rerr | Err z, _ => Err z | _, Err z => Err z end
  | ENestLevel a => match eval r a with Ok v => Ok (VN (nest_level v)) | Err z => Err z end
  | EConst n => Ok (VC n)
  | EIsConst a n => op_isconst n (eval r a)
  | ETuple es => match evals es with Ok vs => Ok (VT vs) | Err x => Err x end
  | EDict kvs =>
      (fix evalkvs (l : list (expr * expr)) (acc : list (val * val)) : res val :=
         match l with
         | [] => Ok (VD acc)
         | (k, v) :: t => match eval r k with
                          | Err z => Err z
                          | Ok kv => match eval r v with Err z => Err z | Ok vv => evalkvs t (dset kv vv acc) end
                          end
         end) kvs []
  | EAttr a n => op_attr n (eval r a)
  | EGetAttr a k => op_getattr (eval r a) (eval r k)
  | EHasAttr a k => op_hasattr (eval r a) (eval r k)
  | EVars a => op_vars (eval r a)
  | EGetItem d k => op_getitem (eval r d) (eval r k)
  | EDictGet d k dflt => op_dictget (eval r d) (eval r k) (eval r dflt)
  | ECopy a => op_copy (eval r a)
  | EKeys a => op_keys (eval r a)
  | EValues a => op_values (eval r a)
  | EItems a => op_items (eval r a)
  | EZip a b => op_zip (eval r a) (eval r b)
  | ECallTable t a => op_calltable (eval r t) (eval r a)
  | ESplitDest a => op_splitdest (eval r a)
  | ESortAttr a attr rev => op_sortattr attr rev (eval r a)
  | EAny body x iter => match eval r iter with
                        | Ok it => match seq_items it with
                                   | Some l => any_list (fun v => eval (assign x v r) body) l
                                   | None => rerr end
                        | Err z => Err z end
  | ERec cls fields =>
      (fix evalfs (l : list (string * expr)) (acc : list (string * val)) : res val :=
         match l with
         | [] => Ok (VR cls acc)
         | (n, e) :: t => match eval r e with Ok v => evalfs t (rset n v acc) | Err z => Err z end
         end) fields []
  | ESortKey a x key rev => match eval r a with
                            | Ok (VL l) => match keyed_by (fun v => eval (assign x v r) key) l with
                                           | Ok kl => Ok (VL (sort_keyed rev kl)) | Err z => Err z end
                            | Ok _ => rerr | Err z => Err z end
  | ECountDistinct a => op_countdistinct (eval r a)
  | EAll body x iter => match eval r iter with
                        | Ok it => match seq_items it with
                                   | Some l => all_list (fun v => eval (assign x v r) body) l
                                   | None => rerr end
                        | Err z => Err z end
  | EStrip a => op_strip (eval r a)
  | EPartition a sep => op_partition sep (eval r a)
  | EIsIdent a => op_isident (eval r a)
  | ESplitN a sep n => op_splitn n (eval r a) (eval r sep)
  | ESlice a lo hi => op_slice (eval r a) (match lo with Some x => Some (eval r x) | None => None end)
                                          (match hi with Some x => Some (eval r x) | None => None end)
  | EIndexOf a tok => op_indexof (eval r a) (eval r tok)
  | ERange a b => op_range (eval r a) (eval r b)
  end.

(* statements: the result is the new environment and, when a `return` was executed, the returned value *)
Fixpoint exec (r : env) (s : stmt) {struct s} : res (env * option val) :=
  let exec_block := fix exec_block (r : env) (ss : list stmt) : res (env * option val) :=
    match ss with
    | [] => Ok (r, None)
    | s :: t => match exec r s with
                | Err z => Err z
                | Ok (r', Some v) => Ok (r', Some v)
                | Ok (r', None) => exec_block r' t
                end
    end in
  match s with
  | SAssign x e => match eval r e with Ok v => Ok (assign x v r, None) | Err z => Err z end
  | SAppend x e => match lookup x r, eval r e with
                   | Some (VL l), Ok v => Ok (assign x (VL (l ++ [v])) r, None)
                   | _, Err z => Err z
                   | _, _ => rerr end
  | SExtend x e => match lookup x r, eval r e with
                   | Some (VL l), Ok (VL l2) => Ok (assign x (VL (l ++ l2)) r, None)
                   | _, Err z => Err z
                   | _, _ => rerr end
  | SIf c th el => match eval r c with
                   | Ok v => if truthy v then exec_block r th else exec_block r el
                   | Err z => Err z end
  | SFor x iter body =>
      match eval r iter with
      | Ok (VL l) =>
          iter_list (fun v r => exec_block (assign x v r) body) l r
      | Ok _ => rerr
      | Err z => Err z
      end
  | SReturn e => match eval r e with Ok v => Ok (r, Some v) | Err z => Err z end
  | SUnpack3 x ms y e =>
      match eval r e with
      | Ok (VL (v :: rest)) =>
          match rev rest with
          | w :: mid_rev => Ok (assign y w (assign ms (VL (rev mid_rev)) (assign x v r)), None)
          | [] => Err (Raise "ValueError")
          end
      | Ok (VL []) => Err (Raise "ValueError")
      | Ok _ => rerr
      | Err z => Err z
      end
  | SAssert e => match eval r e with Ok v => if truthy v then Ok (r, None) else Err (Raise "AssertionError") | Err z => Err z end
  | SRaise cls => Err (Raise cls)
  | SContinue => Ok (r, Some CONT)
  | SUnpack xs e => st_unpack r xs (eval r e)
  | SForC x iter body =>
      match eval r iter with
      | Ok (VL l) => iter_list_c (fun v r => exec_block (assign x v r) body) l r
      | Ok _ => rerr
      | Err z => Err z
      end
  | SFor2 x y iter body =>
      match eval r iter with
      | Ok it => match seq_items it with
                 | Some l => iter_list_c (pair_step (fun a b r => exec_block (assign y b (assign x a r)) body)) l r
                 | None => rerr end
      | Err z => Err z
      end
  | SSetPath x path e =>
      st_setpath r x (eval r e)
        ((fix evpath (p : list (bool * expr)) : res (list (bool * val)) :=
            match p with
            | [] => Ok []
            | (b, k) :: t => match eval r k, evpath t with
                             | Ok kv, Ok rest => Ok ((b, kv) :: rest) | Err z, _ => Err z | _, Err z => Err z end
            end) path)
  | SDelItem x k => st_delitem r x (eval r k)
  | SDelAttr x k => st_delattr r x (eval r k)
  | SPop t x k dflt =>
      st_pop r t x (eval r k) (match dflt with Some d => match eval r d with Ok v => Ok (Some v) | Err z => Err z end | None => Ok None end)
  | SPopAttr t x k dflt =>
      st_popattr r t x (eval r k) (match dflt with Some d => match eval r d with Ok v => Ok (Some v) | Err z => Err z end | None => Ok None end)
  | SCall body ins outs =>
      match (fix bind (l : list (string * expr)) (acc : env) : res env :=
               match l with
               | [] => Ok acc
               | (p, a) :: t => match eval r a with Ok v => bind t (assign p v acc) | Err z => Err z end
               end) ins [] with
      | Err z => Err z
      | Ok r0 => match exec_block r0 body with
                 | Err z => Err z
                 | Ok (r1, _) => copy_back r1 outs r
                 end
      end
  | SBreak => Ok (r, Some BRK)
  | SForBE x iter body els =>
      match eval r iter with
      | Ok (VL l) => for_else (iter_list_c (fun v r => exec_block (assign x v r) body) l r) (fun r' => exec_block r' els)
      | Ok _ => rerr
      | Err z => Err z
      end
  | SCallRet t body ins outs =>
      match (fix bind (l : list (string * expr)) (acc : env) : res env :=
               match l with
               | [] => Ok acc
               | (p, a) :: t => match eval r a with Ok v => bind t (assign p v acc) | Err z => Err z end
               end) ins [] with
      | Err z => Err z
      | Ok r0 => match exec_block r0 body with
                 | Err z => Err z
                 | Ok (r1, o) => ret_to t o (copy_back r1 outs r)
                 end
      end
  | SWhile fuel c body => while_loop fuel (fun r => eval r c) (fun r => exec_block r body) r
  | SDictAppend x k e => st_dictappend r x (eval r k) (eval r e)
  | SRemove x e => st_remove r x (eval r e)
  end.

Fixpoint exec_block (r : env) (ss : list stmt) : res (env * option val) :=
  match ss with
  | [] => Ok (r, None)
  | s :: t => match exec r s with
              | Err z => Err z
              | Ok (r', Some v) => Ok (r', Some v)
              | Ok (r', None) => exec_block r' t
              end
  end.

(* run a method body: its return value (None when it falls off the end) *)
Definition run (r : env) (b : block) : res val :=
  match exec_block r b with
  | Ok (_, Some v) => Ok v
  | Ok (_, None) => Ok VNone
  | Err z => Err z
  end.
