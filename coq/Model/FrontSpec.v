(* Model/FrontSpec.v — what property C20 demands of the callable front-ends, as executable predicates on OBSERVED
   behaviour (the call the wrapped callable received, the bindings inside it, the fields of the derived config class,
   the identity of the classes returned by successive config_for requests).  Uses the data types of Model/Front.v
   (signatures, calls, requests) but none of its functions that describe what the code does. *)
From SPV Require Export Base.Str Model.Front.

(* ---------- the annotation inferred for an un-annotated parameter: the builtin type of its default (a bool default is a
   bool option, not an int one), tuples element-wise; nothing is demanded for other defaults ---------- *)
Fixpoint spec_ity (d : dkind) : ity :=
  match d with
  | DBool => IB TBool | DInt => IB TInt | DFloat => IB TFloat | DStr => IB TStr
  | DTuple l => ITuple (map spec_ity l)
  | DOther => IFail
  | DList [] => IListBare                    (* nothing to go by: a list of whatever is written *)
  | DList (x :: _) => IList (spec_ity x)      (* items are assumed to have the type of the first *)
  | DDict true => IDictBare                  (* {}: an option of type dict that keeps the default *)
  | DDict false => IFail                     (* nothing is demanded *)
  end.
Definition bty_eqb (a b : bty) : bool :=
  match a, b with TInt, TInt | TStr, TStr | TFloat, TFloat | TBool, TBool => true | _, _ => false end.
Fixpoint ity_eqb (a b : ity) : bool :=
  match a, b with
  | IB x, IB y => bty_eqb x y
  | ITuple l1, ITuple l2 =>
      (fix go (l1 l2 : list ity) : bool :=
         match l1, l2 with [], [] => true | x :: r1, y :: r2 => ity_eqb x y && go r1 r2 | _, _ => false end) l1 l2
  | IFail, IFail => true
  | IList x, IList y => ity_eqb x y
  | IListBare, IListBare => true
  | IDictBare, IDictBare => true
  | _, _ => false
  end.
Definition spec_inferred (untyped : list (string * dkind)) (observed : list (string * ity)) : bool :=
  forallb (fun o => match find (fun nd => String.eqb (fst nd) (fst o)) untyped with
                    | Some nd => ity_eqb (snd o) (spec_ity (snd nd))
                    | None => false
                    end) observed.

(* what "ignored" means at the call site of config_for: a str names ONE parameter *)
Definition spec_ignore_names (i : ignore_form) : list string :=
  match i with IgAbsent => [] | IgStr s => [s] | IgTuple l | IgList l => l end.

Section V.
  Variable V : Type.
  Variable veqb : V -> V -> bool.

  Definition kv_eqb (a b : string * V) : bool := String.eqb (fst a) (fst b) && veqb (snd a) (snd b).
  Definition bind_eqb : list (string * V) -> list (string * V) -> bool := list_eqb' kv_eqb.
  Definition vlist_eqb : list V -> list V -> bool := list_eqb' veqb.
  Definition vopt_eqb (a b : option V) : bool :=
    match a, b with Some x, Some y => veqb x y | None, None => true | _, _ => false end.

  (* equal as dictionaries: no key twice, same size, same value under every key *)
  Definition same_dict (a b : list (string * V)) : bool :=
    str_nodupb (keys a) && str_nodupb (keys b) && Nat.eqb (List.length a) (List.length b)
    && forallb (fun kv => match lookup b (fst kv) with Some v => veqb v (snd kv) | None => false end) a.

  (* ---------- which signatures Python accepts (only the part the theorems need) ---------- *)
  Fixpoint skip_po (s : sig V) : sig V :=
    match s with [] => [] | p :: r => if is_po p then skip_po r else s end.
  (* distinct names; positional-only parameters come first; among them none without default after one with default *)
  Definition sig_wf (s : sig V) : bool :=
    str_nodupb (map p_name s)
    && forallb (fun p => negb (is_po p)) (skip_po s)
    && ordered has_def false (filter is_po s).

  (* ---------- main ---------- *)
  (* every parameter receives the value the plain parse produced for it, in signature order *)
  Definition want_all (s : sig V) (vals : string -> V) : list (string * V) :=
    map (fun p => (p_name p, vals (p_name p))) s.

  Definition spec_main (s : sig V) (parsed : res (string -> V)) (runtime_args : bool) (t : trace V) : bool :=
    if runtime_args then true                       (* arguments given to the wrapper at run time: the property is silent *)
    else match parsed with
         | Err e => match t with (None, Err f) => err_eqb e f | _ => false end      (* same ending, callable not reached *)
         | Ok vals =>
             match t with
             | (Some c, Ok b) =>
                 bind_eqb b (want_all s vals)
                 && vlist_eqb (c_pos c) (map (fun p => vals (p_name p)) (filter is_po s))      (* positional-only -> positionals *)
                 && same_dict (c_kw c) (want_all (filter (fun p => negb (is_po p)) s) vals)
             | _ => false
             end
         end.

  (* ---------- config_for ---------- *)
  Definition spec_default (over : list (string * V)) (p : param V) : option V :=
    match lookup over (p_name p) with Some v => Some v | None => p_default p end.
  (* no annotation and no default: nothing says what the option's type would be; the property is silent *)
  Definition untypeable (over : list (string * V)) (p : param V) : bool :=
    is_none_ann (p_ann p) && match spec_default over p with None => true | Some _ => false end.

  Definition spec_fields (s : sig V) (ignore : list string) (over : list (string * V))
             (observed : res (list (string * option V))) : bool :=
    match observed with
    | Err _ => false
    | Ok fs =>
        str_nodupb (map fst fs)
        && forallb (fun f => negb (str_in (fst f) ignore)
                             && existsb (fun p => String.eqb (p_name p) (fst f) && vopt_eqb (snd f) (spec_default over p)) s) fs
        && forallb (fun p => str_in (p_name p) ignore || untypeable over p || str_in (p_name p) (map fst fs)) s
    end.

  (* field values updated with the call-site kwargs *)
  Definition merged_kwargs (fields : list string) (vals : string -> V) (call_kw : list (string * V)) : list (string * V) :=
    (call_kw ++ map (fun n => (n, vals n)) (filter (fun n => negb (str_in n (keys call_kw))) fields))%list.

  (* the value every parameter must end up with, when that is determined *)
  Fixpoint want_bindings (s : sig V) (fields : list string) (vals : string -> V) (call_kw : list (string * V))
    : option (list (string * V)) :=
    match s with
    | [] => Some []
    | p :: r =>
        let v := match lookup call_kw (p_name p) with
                 | Some v => Some v
                 | None => if str_in (p_name p) fields then Some (vals (p_name p)) else p_default p
                 end in
        match v, want_bindings r fields vals call_kw with
        | Some v, Some rest => Some ((p_name p, v) :: rest)
        | _, _ => None
        end
    end.
  Definition call_kw_plain (s : sig V) (call_kw : list (string * V)) : bool :=
    forallb (fun k => existsb (fun p => String.eqb (p_name p) k && negb (is_po p)) s) (keys call_kw).

  Definition spec_partial_call (s : sig V) (fields : list string) (parsed : res (string -> V))
             (call_pos : list V) (call_kw : list (string * V)) (t : trace V) : bool :=
    match parsed with
    | Err e => match t with (None, Err f) => err_eqb e f | _ => false end
    | Ok vals =>
        match t with
        | (Some c, r) =>
            vlist_eqb (c_pos c) call_pos
            && same_dict (c_kw c) (merged_kwargs fields vals call_kw)
            && match call_pos, call_kw_plain s call_kw, want_bindings s fields vals call_kw with
               | [], true, Some want => match r with Ok b => bind_eqb b want | Err _ => false end
               | _, _, _ => true
               end
        | _ => false
        end
    end.

  (* the derived class is the same object for the same callable and the same arguments *)
  Fixpoint spec_session (reqs : list (cfreq V)) (obs : list (res nat)) : bool :=
    match reqs, obs with
    | r :: rs, o :: os =>
        forallb (fun ro => negb (req_eqb veqb r (fst ro))
                           || match o, snd ro with Ok a, Ok b => Nat.eqb a b | _, _ => true end) (combine rs os)
        && spec_session rs os
    | _, _ => true
    end.
  (* several callables: steps of the same callable (same arguments) return the same class, steps of different callables
     never share a class *)
  Fixpoint spec_pair_labels (steps : list nat) (obs : list (res nat)) : bool :=
    match steps, obs with
    | k :: ks, o :: os =>
        forallb (fun ko => match o, snd ko with
                           | Ok a, Ok b => Bool.eqb (Nat.eqb k (fst ko)) (Nat.eqb a b)
                           | _, _ => true
                           end) (combine ks os)
        && spec_pair_labels ks os
    | _, _ => true
    end.
End V.

Arguments kv_eqb {V}. Arguments bind_eqb {V}. Arguments vlist_eqb {V}. Arguments vopt_eqb {V}. Arguments same_dict {V}.
Arguments skip_po {V}. Arguments sig_wf {V}. Arguments want_all {V}. Arguments spec_main {V}. Arguments spec_default {V}. Arguments untypeable {V}.
Arguments spec_fields {V}. Arguments merged_kwargs {V}. Arguments want_bindings {V}. Arguments call_kw_plain {V}.
Arguments spec_partial_call {V}. Arguments spec_session {V}.
