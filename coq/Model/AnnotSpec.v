(* Model/AnnotSpec.v — what property C17 demands, written without reference to how the code resolves annotations.
   `denote` gives the meaning of an annotation independently of its spelling (typing generics, builtin generics,
   PEP 604 bars, or the same text kept as a string); a dataclass split over an inheritance chain means the flat
   class whose fields are the first-declared names, each with its last declaration.  Executable, so that the
   correspondence run evaluates it on every observed behaviour.  (Model.Annot is imported for the vocabulary types
   texp / cty / fdecl only.) *)
From SPV Require Export Base.Str Model.Annot.
Open Scope list_scope.

(* ---------- canonical types: equality, unions as flat duplicate-free ordered lists ---------- *)
Fixpoint cty_eqb (a b : cty) {struct a} : bool :=
  let fix go (l1 l2 : list cty) {struct l1} : bool :=
      match l1, l2 with
      | [], [] => true
      | x :: r1, y :: r2 => cty_eqb x y && go r1 r2
      | _, _ => false
      end in
  match a, b with
  | CAtom n, CAtom m => String.eqb n m
  | CNone, CNone | CDots, CDots | CBad, CBad => true
  | CList x, CList y => cty_eqb x y
  | CTuple l1, CTuple l2 => go l1 l2
  | CTupleVar x, CTupleVar y => cty_eqb x y
  | CDict k1 v1, CDict k2 v2 => cty_eqb k1 k2 && cty_eqb v1 v2
  | CUnion l1, CUnion l2 => go l1 l2
  | _, _ => false
  end.

Definition cty_in (x : cty) (l : list cty) : bool := existsb (cty_eqb x) l.

Fixpoint cdedupe (l seen : list cty) : list cty :=
  match l with
  | [] => []
  | x :: r => if cty_in x seen then cdedupe r seen else x :: cdedupe r (seen ++ [x])
  end.

Definition cmembers (c : cty) : list cty := match c with CUnion l => l | _ => [c] end.

(* "one of these": nested alternatives are flattened, repeated alternatives count once, a single alternative is itself *)
Definition cunion (l : list cty) : cty :=
  match cdedupe (flat_map cmembers l) [] with
  | [] => CBad
  | [x] => x
  | m => CUnion m
  end.

(* ---------- the meaning of an annotation as written ---------- *)
Definition is_list_name (n : string) : bool := String.eqb n "List" || String.eqb n "list".
Definition is_tuple_name (n : string) : bool := String.eqb n "Tuple" || String.eqb n "tuple".
Definition is_dict_name (n : string) : bool := String.eqb n "Dict" || String.eqb n "dict".

Fixpoint denote (t : texp) : cty :=
  let fix dens (l : list texp) : list cty := match l with [] => [] | x :: r => denote x :: dens r end in
  match t with
  | TName n => if String.eqb n "None" then CNone else if String.eqb n "..." then CDots else CAtom n
  | TSub n args =>
      if is_list_name n then match args with [a] => CList (denote a) | _ => CBad end
      else if is_tuple_name n then
        match args with
        | [] => CBad
        | [a; TName d] => if String.eqb d "..." then CTupleVar (denote a) else CTuple (dens args)
        | _ => CTuple (dens args)
        end
      else if is_dict_name n then match args with [k; v] => CDict (denote k) (denote v) | _ => CBad end
      else if String.eqb n "Optional" then match args with [a] => cunion [denote a; CNone] | _ => CBad end
      else if String.eqb n "Union" then cunion (dens args)
      else CBad
  | TBar ts => cunion (dens ts)
  end.

(* ---------- the CLI type grammar (no depth bound) ---------- *)
Definition RESERVED : list string :=
  ["None"; "NoneType"; "..."; "List"; "list"; "Tuple"; "tuple"; "Dict"; "dict"; "Set"; "set"; "Type"; "type";
   "Optional"; "Union"].

Definition wf_name (n : string) : bool :=
  negb (str_in n RESERVED) && negb (String.eqb n "") && forallb (fun a => negb (is_delim a)) (chars n).

Definition is_cunion (c : cty) : bool := match c with CUnion _ => true | _ => false end.
Definition is_nil {A} (l : list A) : bool := match l with [] => true | _ => false end.

Fixpoint cnodup (l : list cty) : bool :=
  match l with [] => true | x :: r => negb (cty_in x r) && cnodup r end.

(* None only as the last alternative (that is where Optional[...] puts it) *)
Definition none_only_last (l : list cty) : bool :=
  match rev l with [] => true | _ :: r => negb (existsb is_cnone r) end.

Fixpoint wf_cty (c : cty) : bool :=
  match c with
  | CAtom n => wf_name n
  | CNone | CDots | CBad => false
  | CList a => wf_cty a
  | CTuple l => negb (is_nil l) && forallb wf_cty l
  | CTupleVar a => wf_cty a
  | CDict k v => wf_cty k && wf_cty v
  | CUnion l =>
      Nat.leb 2 (List.length l) && none_only_last l && cnodup l
      && forallb (fun c => is_cnone c || (negb (is_cunion c) && wf_cty c)) l
  end.

(* Tuple[X, ...] somewhere inside *)
Fixpoint has_variadic (c : cty) : bool :=
  match c with
  | CTupleVar _ => true
  | CList a => has_variadic a
  | CTuple l => existsb has_variadic l
  | CDict k v => has_variadic k || has_variadic v
  | CUnion l => existsb has_variadic l
  | _ => false
  end.

(* ---------- a class written as an inheritance chain means this flat class ---------- *)
Section FlatSpec.
  Context {A : Type}.
  Definition last_decl (n : string) (all : list (string * A)) : option A :=
    option_map snd (last_opt (filter (fun kv => String.eqb (fst kv) n) all)).

  (* names in order of first declaration, each with its last declaration *)
  Definition spec_flat (chain : list (list (string * A))) : list (string * A) :=
    let all := List.concat chain in
    flat_map (fun n => match last_decl n all with Some v => [(n, v)] | None => [] end)
             (dedupe (map fst all) []).
End FlatSpec.

(* the command-line fields of a class: real fields and InitVar pseudo-fields that are constructor arguments and not
   switched off with cmd=False, each with the type its annotation denotes *)
Definition spec_cli_fields (l : list (string * fdecl)) : list (string * cty) :=
  map (fun kv => (fst kv, f_ty (snd kv)))
      (filter (fun kv => negb (fkind_eqb (f_kind (snd kv)) KClassVar) && f_init (snd kv) && f_cmd (snd kv)) l).

(* ---------- what the type predicates must answer, and which members are nested groups (by meaning) ---------- *)
Definition is_clist (c : cty) : bool := match c with CList _ => true | _ => false end.
Definition is_ctuple (c : cty) : bool := match c with CTuple _ | CTupleVar _ => true | _ => false end.
Definition is_cdict (c : cty) : bool := match c with CDict _ _ => true | _ => false end.
Definition is_coptional (c : cty) : bool := match c with CUnion l => existsb is_cnone l | _ => false end.

Section WrapSpec.
  Variable dcs : list string.        (* the dataclass classes in scope *)

  Definition is_dc_c (c : cty) : bool := match c with CAtom n => str_in n dcs | _ => false end.

  (* a list / tuple whose (first) item is a dataclass: not supported as a command-line member *)
  Definition seq_of_dc_c (c : cty) : bool :=
    match c with
    | CList a | CTupleVar a => is_dc_c a
    | CTuple (a :: _) => is_dc_c a
    | _ => false
    end.

  Fixpoint contains_dc_c (c : cty) : bool :=
    is_dc_c c || seq_of_dc_c c
    || match c with
       | CUnion l => (fix go (l : list cty) : bool := match l with [] => false | x :: t => contains_dc_c x || go t end) l
       | _ => false
       end.

  Definition is_subparser_c (c : cty) : bool := match c with CUnion l => forallb is_dc_c l | _ => false end.

  (* None = unsupported; a choice between dataclasses is one (subparser) option; a dataclass member is a nested group
     unless its default is None; a union with a dataclass alternative is an optional nested group *)
  Definition spec_wkind (c : cty) (default_none : bool) : option wkind :=
    if seq_of_dc_c c then None
    else if is_subparser_c c then Some WField
    else if is_dc_c c && negb default_none then Some WChild
    else if contains_dc_c c then Some WOptChild
    else Some WField.
End WrapSpec.
