(* Model/Layers.v — executable model of how SimpleParsing layers its value sources:
   dataclass definition < default instance / set_defaults < constructor config_path files (in order)
   < --config_path files (in order) < explicit command-line options.

   Modelled code: utils.dict_union, DataclassWrapper.__init__ (default push-down) / set_default,
   FieldWrapper.set_default / .default / .required, ArgumentParser.set_defaults / parse_known_args
   (the two config-file loops) / _postprocessing (constructor_arguments), parse().
   NOT written here (regenerated from the source into Gen/FactsLayers.v, which instantiates this file):
   the loop body and final test of dict_union, its `recurse` default, the order of the two config layers,
   the default of the temporary --config_path argument, the WITHOUT_ROOT re-rooting condition, the default
   nested_mode of ArgumentParser / parse(), the discarded key and the exception class of
   DataclassWrapper.set_default, the test of _create_dataclass_instance for Optional members, the keys popped from the constructor arguments in _instantiate_dataclasses, and the "was a default set manually" test of FieldWrapper.default.

   Abstractions (stated in the evidence): a dict is an association list read by first match, key order is
   not modelled (dict_union sorts its keys; nothing downstream observes the order); argparse is
   "an explicit option overrides the default, a required option that is absent is exit status 2". *)
From SPV Require Export Base.Str.

(* ---------- values, layers ---------- *)
Inductive val := VInt (z : Z) | VStr (s : string).

Definition val_eqb (a b : val) : bool :=
  match a, b with
  | VInt x, VInt y => Z.eqb x y
  | VStr x, VStr y => String.eqb x y
  | _, _ => false
  end.

(* a JSON/YAML document, a dict of keyword defaults, a dataclass instance seen through asdict,
   and also the final result: PNull = None/null, PVal = a non-None scalar, PMap = a dict / a dataclass *)
Inductive ptree := PNull | PVal (v : val) | PMap (kvs : list (string * ptree)).

Definition path := list string.

Fixpoint lookup {A} (k : string) (m : list (string * A)) : option A :=
  match m with
  | [] => None
  | (k', v) :: r => if String.eqb k k' then Some v else lookup k r
  end.

Definition keys {A} (m : list (string * A)) : list string := map fst m.

Definition is_map (t : ptree) : bool := match t with PMap _ => true | _ => false end.
Definition is_null (t : ptree) : bool := match t with PNull => true | _ => false end.

(* what a layer says at a path: None = the layer does not mention it *)
Fixpoint subtree (q : path) (t : ptree) : option ptree :=
  match q with
  | [] => Some t
  | k :: r => match t with
              | PMap m => match lookup k m with Some c => subtree r c | None => None end
              | _ => None
              end
  end.

(* ---------- equality of results (used by the correspondence) ---------- *)
Fixpoint pt_eqb (a b : ptree) {struct a} : bool :=
  match a, b with
  | PNull, PNull => true
  | PVal x, PVal y => val_eqb x y
  | PMap x, PMap y =>
      (fix go (x y : list (string * ptree)) : bool :=
         match x, y with
         | [], [] => true
         | (k, ta) :: r, (k', tb) :: r' => String.eqb k k' && pt_eqb ta tb && go r r'
         | _, _ => false
         end) x y
  | _, _ => false
  end.

(* same dict, whatever the key order *)
Fixpoint pt_sub (a b : ptree) {struct a} : bool :=
  match a, b with
  | PNull, PNull => true
  | PVal x, PVal y => val_eqb x y
  | PMap x, PMap y =>
      (fix go (x : list (string * ptree)) : bool :=
         match x with
         | [] => true
         | (k, ta) :: r => match lookup k y with Some tb => pt_sub ta tb | None => false end && go r
         end) x
  | _, _ => false
  end.
Definition pt_equiv (a b : ptree) : bool := pt_sub a b && pt_sub b a.

(* ---------- utils.dict_union (two dicts) ---------- *)
(* state of the loop `for v in values:` for one key; values are referred to by their index in `dicts` *)
Record du_st := mk_du_st { st_subs : list nat; st_new : option nat; st_n : nat }.
Definition du_st0 : du_st := mk_du_st [] None 0.
Definition st_push (st : du_st) (i : nat) : du_st := mk_du_st (st_subs st ++ [i]) (st_new st) (st_n st).
Definition st_set (st : du_st) (i : nat) : du_st := mk_du_st (st_subs st) (Some i) (st_n st).
Definition st_incr (st : du_st) : du_st := mk_du_st (st_subs st) (st_new st) (S (st_n st)).

Inductive du_dec := DUnion (idx : list nat) | DValue (i : option nat).

Section DictUnion.
  Variable step : bool -> du_st -> nat -> bool -> du_st.  (* Gen: loop body (recurse, state, index of v, isinstance(v, dict)) *)
  Variable final : bool -> du_st -> bool.                  (* Gen: `len(sub_dicts) == n_values and recurse` *)
  Variable recurse : bool.                                 (* Gen: keyword default of `recurse` *)

  Fixpoint du_loop (st : du_st) (i : nat) (kinds : list bool) : du_st :=
    match kinds with
    | [] => st
    | k :: r => du_loop (step recurse st i k) (S i) r
    end.

  (* what dict_union stores for a key, given which of the values present for it are dicts *)
  Definition du_decide (kinds : list bool) : du_dec :=
    let st := du_loop du_st0 0 kinds in
    if final recurse st then DUnion (st_subs st) else DValue (st_new st).

  Fixpoint du (a b : ptree) {struct a} : ptree :=
    match a, b with
    | PMap x, PMap y =>
        PMap ((fix go (x : list (string * ptree)) : list (string * ptree) :=
                 match x with
                 | [] => []
                 | (k, ta) :: r =>
                     (k, match lookup k y with
                         | None => ta                   (* one value: itself (a dict is copied) *)
                         | Some tb =>
                             match du_decide [is_map ta; is_map tb] with
                             | DUnion [0; 1] => du ta tb
                             | DUnion [0] | DValue (Some 0) => ta
                             | DUnion [1] | DValue (Some 1) => tb
                             | _ => PNull               (* new_value = None *)
                             end
                         end) :: go r
                 end) x ++ filter (fun kv => negb (str_in (fst kv) (keys x))) y)
    | _, _ => b   (* never reached from the code: dict_union is only given dicts *)
    end.
End DictUnion.

(* ---------- wrappers ---------- *)
(* DataclassWrapper / FieldWrapper tree.  A leaf carries: is the annotation Optional[..]; field.default
   (None = MISSING); the corresponding attribute of the parent's default instance when add_arguments got
   `default=` (None = the parent has no default instance); FieldWrapper._default (PNull = Python None). *)
(* A dataclass wrapper is plain (a destination, or a member typed as the dataclass) or wraps a member typed
   Optional[Dataclass] whose definition default is None; the latter carries: DataclassWrapper._default is not None;
   some entry of DataclassWrapper.defaults is not None (the parent's default instance holds an instance there). *)
Inductive cmode := CPlain | COpt (dset : bool) (dinst : bool).

Inductive wtree :=
| WLeaf (opt : bool) (def : option ptree) (inst : option ptree) (cur : ptree)
| WClass (cm : cmode) (fs : list (string * wtree)).

(* DataclassWrapper.set_default: self._default = value *)
Definition cm_set (cm : cmode) (b : bool) : cmode :=
  match cm with CPlain => CPlain | COpt _ di => COpt b di end.
Definition is_copt (cm : cmode) : bool := match cm with CPlain => false | COpt _ _ => true end.

Definition leaf_info : Type := (bool * option ptree * option ptree * ptree)%type.

(* the field at a path that goes through plain members only (the paths the theorems speak about) *)
Fixpoint leaf_at (q : path) (w : wtree) : option leaf_info :=
  match q, w with
  | [], WLeaf o d i c => Some (o, d, i, c)
  | k :: r, WClass CPlain fs => match lookup k fs with Some c => leaf_at r c | None => None end
  | _, _ => None
  end.

(* DataclassWrapper.__init__ with default=<instance>: each field wrapper gets set_default(getattr(default, name)),
   each child wrapper gets default=getattr(default, name); DataclassWrapper.defaults = [default] afterwards *)
Fixpoint init_instance (w : wtree) (t : ptree) {struct w} : wtree :=
  match w with
  | WLeaf o d _ _ => WLeaf o d (Some t) t
  | WClass cm fs =>
      match t with
      | PMap m =>
          WClass (match cm with CPlain => CPlain | COpt _ _ => COpt true true end)
                 ((fix go (fs : list (string * wtree)) : list (string * wtree) :=
                     match fs with
                     | [] => []
                     | (k, c) :: r => (k, match lookup k m with Some tk => init_instance c tk | None => c end) :: go r
                     end) fs)
      | _ => w
      end
  end.

Section Wrappers.
  Variable manual_set : ptree -> bool.     (* Gen: FieldWrapper.default's first test, `self._default is not None` *)
  Variable discard : list string.          (* Gen: unknown_names.discard("_type_") *)
  Variable unknown_err : string.           (* Gen: class raised when unknown_names is not empty *)

  (* FieldWrapper.default *)
  Definition leaf_default (def inst : option ptree) (cur : ptree) : ptree :=
    if manual_set cur then cur
    else match inst with
         | Some iv => iv                                   (* attribute of the parent's default instance *)
         | None => match def with Some d => d | None => PNull end
         end.

  (* FieldWrapper.required, as overridden by get_arg_options for Optional[..] / `= None` fields *)
  Definition leaf_required (opt : bool) (def inst : option ptree) (cur : ptree) : bool :=
    negb opt && negb (match def with Some PNull => true | _ => false end)
    && is_null (leaf_default def inst cur).

  (* DataclassWrapper.set_default(value) / FieldWrapper.set_default(value) *)
  Fixpoint set_default_tree (w : wtree) (t : ptree) {struct w} : res wtree :=
    match w with
    | WLeaf o d i _ => Ok (WLeaf o d i t)                  (* self._default = value *)
    | WClass cm fs =>
        match t with
        | PNull => Ok (WClass (cm_set cm false) fs)         (* self._default = None; field_default_values is None: return *)
        | PVal _ => Err (Raise "TypeError")                 (* dataclasses.asdict(<not a dataclass>) *)
        | PMap m =>
            match (fix go (fs : list (string * wtree)) : res (list (string * wtree)) :=
                     match fs with
                     | [] => Ok []
                     | (k, c) :: r =>
                         match lookup k m with
                         | None => match go r with Ok r' => Ok ((k, c) :: r') | Err e => Err e end
                         | Some tk =>
                             match set_default_tree c tk with
                             | Err e => Err e
                             | Ok c' => match go r with Ok r' => Ok ((k, c') :: r') | Err e => Err e end
                             end
                         end
                     end) fs with
            | Err e => Err e
            | Ok fs' =>
                if forallb (fun k => str_in k (keys fs) || str_in k discard) (keys m)
                then Ok (WClass (cm_set cm true) fs') else Err (Raise unknown_err)
            end
        end
    end.

  (* does a document contain, inside the section of some dataclass, a key that names none of its fields? *)
  Fixpoint has_unknown (w : wtree) (t : ptree) {struct w} : bool :=
    match w, t with
    | WClass _ fs, PMap m =>
        negb (forallb (fun k => str_in k (keys fs) || str_in k discard) (keys m))
        || (fix go (fs : list (string * wtree)) : bool :=
              match fs with
              | [] => false
              | (k, c) :: r => match lookup k m with Some tk => has_unknown c tk | None => false end || go r
              end) fs
    | _, _ => false
    end.

  Variable opt_guard : bool -> bool -> bool -> bool.   (* Gen: _create_dataclass_instance's test (optional, _default set, defaults hold an instance) *)

  (* the loop of _create_dataclass_instance over wrapper.fields: every field holds its default *)
  Fixpoint all_at_default (fs : list (string * wtree)) (kvs : list (string * ptree)) : bool :=
    match fs with
    | [] => true
    | (k, WLeaf _ d i c) :: r =>
        match lookup k kvs with Some v => pt_eqb v (leaf_default d i c) | None => true end && all_at_default r kvs
    | (_, WClass _ _) :: r => all_at_default r kvs
    end.

  (* argparse + _fill_constructor_arguments_with_fields + _instantiate_dataclasses for one wrapper tree:
     an option given on the command line overrides the default; a required option that is absent is exit 2
     (nothing below an Optional member is required: its wrapper sets required = False on all its descendants);
     an Optional member nobody gave a default to and whose fields all hold their defaults is None *)
  Fixpoint finish (req_off : bool) (w : wtree) (cli : option ptree) {struct w} : res ptree :=
    match w with
    | WLeaf o d i c =>
        match cli with
        | Some v => Ok v
        | None => if negb req_off && leaf_required o d i c then Err (Exit 2) else Ok (leaf_default d i c)
        end
    | WClass cm fs =>
        match (fix go (fs : list (string * wtree)) : res (list (string * ptree)) :=
                 match fs with
                 | [] => Ok []
                 | (k, c) :: r =>
                     match finish (req_off || is_copt cm) c (match cli with Some (PMap m) => lookup k m | _ => None end) with
                     | Err e => Err e
                     | Ok v => match go r with Ok r' => Ok ((k, v) :: r') | Err e => Err e end
                     end
                 end) fs with
        | Err e => Err e
        | Ok kvs =>
            match cm with
            | COpt ds di => if opt_guard true ds di && all_at_default fs kvs then Ok PNull else Ok (PMap kvs)
            | CPlain => Ok (PMap kvs)
            end
        end
    end.
End Wrappers.

(* ---------- the parser ---------- *)
Inductive nmode := NM_DEFAULT | NM_WITHOUT_ROOT.
Definition nmode_eqb (a b : nmode) : bool :=
  match a, b with NM_DEFAULT, NM_DEFAULT | NM_WITHOUT_ROOT, NM_WITHOUT_ROOT => true | _, _ => false end.

Inductive phase := PhCtorFiles | PhCliFiles.

(* self._wrappers (dest, wrapper) and self.constructor_arguments *)
Record pstate := mk_pstate { ps_ws : list (string * wtree); ps_ca : ptree }.

Section Parser.
  Variable manual_set : ptree -> bool.
  Variable opt_guard : bool -> bool -> bool -> bool.
  Variable discard : list string.
  Variable unknown_err : string.
  Variable union : ptree -> ptree -> ptree.            (* dict_union instantiated *)
  Variable reroot : nmode -> nat -> bool.              (* Gen: condition of the re-rooting in set_defaults *)
  Variable order : list phase.                         (* Gen: textual order of the two loops in parse_known_args *)
  Variable cli_default_is_ctor : bool.                 (* Gen: temp parser's --config_path has default=self.config_path *)
  Variable ctor_strip : list string.                   (* Gen: keys _instantiate_dataclasses pops from the constructor arguments *)

  (* the loop `for wrapper in self._wrappers` of set_defaults; returns the wrappers and what was set in them *)
  Fixpoint sd_wrappers (ws : list (string * wtree)) (kw : list (string * ptree))
    : res (list (string * wtree) * list (string * ptree)) :=
    match ws with
    | [] => Ok ([], [])
    | (d, w) :: r =>
        match lookup d kw with
        | None => match sd_wrappers r kw with
                  | Ok (r', s) => Ok ((d, w) :: r', s)
                  | Err e => Err e
                  end
        | Some (PMap m) =>
            match set_default_tree discard unknown_err w (PMap m) with
            | Err e => Err e
            | Ok w' => match sd_wrappers r kw with
                       | Ok (r', s) => Ok ((d, w') :: r', (d, PMap m) :: s)
                       | Err e => Err e
                       end
            end
        | Some (PVal (VStr _)) => Err (Raise "FileNotFoundError")   (* read_file(<that string>): outside the model *)
        | Some _ => Err (Raise "ValueError")
        end
    end.

  (* set_defaults(dest=.., ..) *)
  Definition set_defaults_kwargs (st : pstate) (kw : ptree) : res pstate :=
    match kw with
    | PMap m => match sd_wrappers (ps_ws st) m with
                | Ok (ws', s) => Ok (mk_pstate ws' (union (ps_ca st) (PMap s)))
                | Err e => Err e
                end
    | _ => Ok st
    end.

  (* the document as set_defaults understands it *)
  Definition rooted (nm : nmode) (ws : list (string * wtree)) (f : ptree) : ptree :=
    if reroot nm (List.length ws) then match ws with (d, _) :: _ => PMap [(d, f)] | [] => f end else f.

  (* set_defaults(config_path) *)
  Definition set_defaults_file (nm : nmode) (st : pstate) (f : ptree) : res pstate :=
    let kwargs := if reroot nm (List.length (ps_ws st))
                  then match ps_ws st with (d, _) :: _ => PMap [(d, PMap [])] | [] => PMap [] end
                  else PMap [] in
    set_defaults_kwargs st (union (rooted nm (ps_ws st) f) kwargs).

  Fixpoint fold_res {A B} (f : A -> B -> res A) (a : A) (l : list B) : res A :=
    match l with
    | [] => Ok a
    | x :: r => match f a x with Ok a' => fold_res f a' r | Err e => Err e end
    end.

  Definition run_phase (nm : nmode) (acp cli_given : bool) (ctor clif : list ptree) (st : pstate) (ph : phase) : res pstate :=
    match ph with
    | PhCtorFiles => fold_res (set_defaults_file nm) st ctor          (* `if self.config_path:` - an empty list is falsy *)
    | PhCliFiles =>
        if acp then
          fold_res (set_defaults_file nm) st
                   (if cli_given then clif else if cli_default_is_ctor then ctor else [])
        else Ok st
    end.

  Fixpoint finish_all (ws : list (string * wtree)) (cli : ptree) : res (list (string * ptree)) :=
    match ws with
    | [] => Ok []
    | (d, w) :: r =>
        match finish manual_set opt_guard false w (match cli with PMap m => lookup d m | _ => None end) with
        | Err e => Err e
        | Ok v => match finish_all r cli with Ok r' => Ok ((d, v) :: r') | Err e => Err e end
        end
    end.

  (* constructor_arguments[dest] is passed to the dataclass constructor after the fields and the nested
     instances have been written into it and the stripped keys popped: any other key is an unexpected keyword argument *)
  Definition extra_kwargs (ca : ptree) (dw : string * wtree) : bool :=
    match subtree [fst dw] ca, snd dw with
    | Some (PMap m), WClass _ fs => negb (forallb (fun k => str_in k (keys fs) || str_in k ctor_strip) (keys m))
    | _, _ => false
    end.

  (* ArgumentParser(nested_mode=nm, config_path=ctor, add_config_path_arg=acp_arg); add_arguments(.., default=inst[dest])
     for each wrapper; set_defaults(dest=..) for each kw of sdefs; parse_args(<--config_path clif> <options of cli>) *)
  Definition run (nm : nmode) (ws : list (string * wtree)) (inst : ptree) (sdefs : list ptree)
             (acp_arg : option bool) (ctor : list ptree) (cli_given : bool) (clif : list ptree) (cli : ptree)
    : res ptree :=
    let acp := match acp_arg with Some b => b | None => negb (Nat.eqb (List.length ctor) 0) end in
    let ws1 := map (fun dw => (fst dw, match subtree [fst dw] inst with
                                       | Some t => init_instance (snd dw) t
                                       | None => snd dw end)) ws in
    match fold_res set_defaults_kwargs (mk_pstate ws1 (PMap [])) sdefs with
    | Err e => Err e
    | Ok st1 =>
        match fold_res (run_phase nm acp cli_given ctor clif) st1 order with
        | Err e => Err e
        | Ok st2 =>
            match finish_all (ps_ws st2) cli with
            | Err e => Err e
            | Ok kvs => if existsb (extra_kwargs (ps_ca st2)) (ps_ws st2) then Err (Raise "TypeError") else Ok (PMap kvs)
            end
        end
    end.
End Parser.

