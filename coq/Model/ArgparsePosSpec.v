(* Model/ArgparsePosSpec.v — the interface for POSITIONAL arguments, as executable predicates (evaluated on the behaviour
   observed on the real argparse by the correspondence run; proved about Model/ArgparsePos.v in
   Proofs/ArgparsePosProofs.v): on a command line made of option groups and of runs of plain tokens that are exactly the
   blocks of the next fixed-arity positionals, the i-th block goes to the i-th positional IN DECLARATION ORDER. *)
From SPV Require Export Base.Corr Model.ArgparseM Model.ArgparseMSpec Model.ArgparsePos.

(* a segment of the command line: one option group, or a run of blocks of plain tokens (one block per positional) *)
Inductive seg := SG (g : group) | SR (blocks : list (list string)).

Definition seg_tokens (s : seg) : list string :=
  match s with SG g => group_tokens g | SR bs => List.concat bs end.
Definition flatten_segs (segs : list seg) : list string := List.concat (map seg_tokens segs).

(* the blocks of a run, handed to the given positionals in order (as pseudo-groups: index of the positional, no option) *)
Fixpoint blocks_groups (posl : list nat) (bs : list (list string)) {struct bs} : list group :=
  match bs, posl with
  | b :: rb, p :: rp => mkgroup p "" b :: blocks_groups rp rb
  | _, _ => []
  end.

(* the whole command line as (pseudo-)groups: the i-th block is attributed to the i-th positional of posl *)
Fixpoint as_groups (posl : list nat) (segs : list seg) : list group :=
  match segs with
  | [] => []
  | SG g :: r => g :: as_groups posl r
  | SR bs :: r => (blocks_groups posl bs ++ as_groups (skipn (List.length bs) posl) r)%list
  end.

(* fixed arity: nargs None (one token) or N >= 1 *)
Definition fixed_na (n : nargs_t) : bool := match n with NaOne => true | NaNum (S _) => true | _ => false end.
Definition fixed_count (n : nargs_t) (k : nat) : bool :=
  match n with NaOne => Nat.eqb k 1 | NaNum (S m) => Nat.eqb k (S m) | _ => false end.

(* what stood before: nothing / a group whose option takes a fixed number of tokens / a group whose option is greedy
   (?, *, +: a run of plain tokens right after it would be eaten by the option) / a run *)
Inductive prev := PStart | PFixed | PVar | PRun.

Section PS.
  Variable V : Type.
  Variable K : Type.
  Variable cvt : K -> string -> res V.
  Variable veqb : V -> V -> bool.
  Notation actT := (act V K).

  (* every positional of the parser has a fixed arity / is required (what argparse derives for nargs None / N) *)
  Definition fixed_positionals (acts : list actT) : bool :=
    forallb (fun a => negb (is_positional a) || fixed_na (a_na a)) acts.
  Definition positionals_required (acts : list actT) : bool :=
    forallb (fun a => negb (is_positional a) || a_req a) acts.

  (* the blocks match the next positionals: returns the positionals that remain *)
  Fixpoint blocks_rest (ab : bool) (acts : list actT) (posl : list nat) (bs : list (list string)) {struct bs} : option (list nat) :=
    match bs with
    | [] => Some posl
    | b :: rb =>
        match posl with
        | [] => None
        | p :: rp =>
            match nth_error acts p with
            | None => None
            | Some a => if is_positional a && fixed_count (a_na a) (List.length b) && tokens_plain ab acts b
                        then blocks_rest ab acts rp rb else None
            end
        end
    end.

  (* well-formed command line: returns the positionals that did not get their block (None = not well formed) *)
  Fixpoint segs_rest (ab : bool) (acts : list actT) (posl : list nat) (pv : prev) (segs : list seg) : option (list nat) :=
    match segs with
    | [] => Some posl
    | SG g :: r =>
        if group_ok ab acts g then
          match nth_error acts (g_idx g) with
          | Some a => segs_rest ab acts posl (if fixed_count (a_na a) (List.length (g_toks g)) then PFixed else PVar) r
          | None => None
          end
        else None
    | SR bs :: r =>
        match pv, bs with
        | PVar, _ | PRun, _ => None
        | _, [] => None
        | _, _ => match blocks_rest ab acts posl bs with
                  | Some posl' => segs_rest ab acts posl' PRun r
                  | None => None end
        end
    end.

  Definition segs_ok (ab : bool) (acts : list actT) (segs : list seg) : bool :=
    match segs_rest ab acts (positionals acts) PStart segs with Some [] => true | _ => false end.

  (* ---------- recognising an argv (not trusted: its answer is re-checked with segs_ok and flatten_segs) ---------- *)
  Fixpoint split_blocks (acts : list actT) (fuel : nat) (posl : list nat) (toks : list string)
    : option (list (list string) * list nat) :=
    match toks with
    | [] => Some ([], posl)
    | _ :: _ =>
        match fuel, posl with
        | S f, p :: rp =>
            let k := min_of (na_at acts p) in
            if Nat.leb 1 k && Nat.leb k (List.length toks) then
              match split_blocks acts f rp (skipn k toks) with
              | Some (bs, rest) => Some (firstn k toks :: bs, rest)
              | None => None end
            else None
        | _, _ => None
        end
    end.

  Fixpoint segs_of_groups (acts : list actT) (posl : list nat) (gs : list group) : option (list seg) :=
    match gs with
    | [] => Some []
    | g :: r =>
        match nth_error acts (g_idx g) with
        | None => None
        | Some a =>
            let k := min_of (a_na a) in
            if fixed_na (a_na a) && Nat.leb k (List.length (g_toks g)) then
              let own := firstn k (g_toks g) in
              let more := skipn k (g_toks g) in
              match more with
              | [] => match segs_of_groups acts posl r with Some l => Some (SG g :: l) | None => None end
              | _ => match split_blocks acts (List.length more) posl more with
                     | Some (bs, posl') =>
                         match segs_of_groups acts posl' r with
                         | Some l => Some (SG (mkgroup (g_idx g) (g_opt g) own) :: SR bs :: l)
                         | None => None end
                     | None => None end
              end
            else match segs_of_groups acts posl r with Some l => Some (SG g :: l) | None => None end
        end
    end.

  Definition recogniseP (ab : bool) (acts : list actT) (argv : list string) : option (list seg) :=
    match split_groups ab acts argv with
    | None => None
    | Some (lead, gs) =>
        match lead with
        | [] => segs_of_groups acts (positionals acts) gs
        | _ => match split_blocks acts (List.length lead) (positionals acts) lead with
               | Some (bs, posl') =>
                   match segs_of_groups acts posl' gs with Some l => Some (SR bs :: l) | None => None end
               | None => None end
        end
    end.

  (* ---------- what the interface says about one observed behaviour of a parser with positionals ---------- *)
  Definition observed_okP (ab : bool) (acts : list actT) (argv : list string)
             (known : res (ns (stored V) * list string)) (args : res (ns (stored V))) : bool :=
    res_eqb (ns_eqb veqb) args (args_of_known known)
    && match known with Ok (_, ex) => leftovers_ok acts argv ex | Err _ => true end
    && (if fixed_positionals acts && str_nodupb (map a_dest acts) && opts_dashed acts then
          match recogniseP ab acts argv with
          | Some segs =>
              if strs_eqb (flatten_segs segs) argv then
                match segs_rest ab acts (positionals acts) PStart segs with
                | Some [] =>          (* every positional got its block: positionals in declaration order *)
                    res_eqb (ns_eqb veqb) args (spec_groups cvt veqb acts (as_groups (positionals acts) segs))
                | Some (_ :: _) =>    (* too few blocks *)
                    if positionals_required acts then match args with Err _ => true | Ok _ => false end else true
                | None => true
                end
              else true
          | None => true
          end
        else true).
End PS.

Arguments fixed_positionals {V K}. Arguments positionals_required {V K}. Arguments blocks_rest {V K}.
Arguments segs_rest {V K}. Arguments segs_ok {V K}. Arguments split_blocks {V K}. Arguments segs_of_groups {V K}.
Arguments recogniseP {V K}. Arguments observed_okP {V K}.
